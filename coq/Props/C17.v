(* C17 - the grpc-web client layer recovers messages and full trailers under any chunking.
   Statements only: each theorem is closed by [exact] of a lemma of Proofs/WebClient.v.
   Every theorem is about the functions the harness h_webclient evaluates: [run_x] / [poll_frame_x]
   (= obs_client_x, obs_client_hyper_x), [stack_streaming] (= obs_stack), [extend_panics],
   [decode_trailers_frame], [call_size_hint] - the model of tonic-web/src/call.rs as it is after
   the fixes c815a16a (F-C17j) and 2dcb76d4.

   Vocabulary (Model/WebClient.v, Model/WebServer.v, Proofs/WebClient.v):
     ev                     one scripted poll result of the wrapped body:
                            EvPending | EvData chunk | EvTrailers map | EvErr; afterwards End for ever
     run_x evs              what a consumer of the GrpcWebCall response body sees when the wrapped
                            body plays [evs]: the non-Pending items up to and including the first
                            None / Err (OOutOfFuel = no result within the poll budget, OPanic)
     xst                    the state of GrpcWebCall: decoded, trailers, inner_done, direction
                            ([xs]) and expect_trailers ([expect])
     fcat frames            the bytes of the message frames (flag, be32 length, payload)
     trailers_frame tl      0x80, be32 length, "name:value\r\n" for every pair of [tl]
     frames_ok              flags 0 or 1, payloads shorter than 2^32
     trailers_ok            names are non-empty lower-case tokens of at most 65535 bytes, values are
                            legal http::HeaderValue bytes (so no CR / LF); names may repeat, values
                            may contain ':' and spaces
     only_data_or_pending   the script consists of data chunks (possibly empty) and Pending
     stack_streaming        tonic::client::Grpc::server_streaming (Model/Call.v, Model/Decoder.v)
                            reading the body, drained with message(), then trailers() *)
From Verif Require Import Lib.Bytes Lib.Obs Lib.BE32 Lib.HeaderMap Lib.Percent.
From Verif Require Import Model.Frame Model.WebServer Model.WebClient Proofs.WebClient.
From Verif Require Gen.StatusTables Gen.CompressionTables Model.Status Model.Decoder Model.Call.
Open Scope N_scope.

(* ANY frames x ANY trailer list x EVERY chunking of the encoded body, Pending anywhere: the data
   items concatenate to the message frame bytes, then exactly one trailers item carrying every
   pair with its full value in order (so in order per name), then the end. *)
Theorem c17_webc_any_chunking : forall frames tl evs,
  frames_ok frames -> trailers_ok tl = true -> no_leading_space tl = true ->
  nlen (encode_trailers tl) <= U32_MAX -> nlen tl <= HM_MAX_NAMES ->
  only_data_or_pending evs = true ->
  concat (datas evs) = fcat frames ++ trailers_frame tl ->
  exists ds t,
    run_x evs = map OData ds ++ [OTrailers t; ONone] /\ concat ds = fcat frames /\
    t = tl /\ forall k, hm_get_all t k = hm_get_all tl k.
Proof. exact any_chunking_x. Qed.

(* the same without the restriction on leading spaces: what is read back is [read_back tl],
   every value minus ONE leading space ("name: value" and "name:value" are the same trailer) *)
Theorem c17_webc_any_chunking_ows : forall frames tl evs,
  frames_ok frames -> trailers_ok tl = true ->
  nlen (encode_trailers tl) <= U32_MAX -> nlen tl <= HM_MAX_NAMES ->
  only_data_or_pending evs = true ->
  concat (datas evs) = fcat frames ++ trailers_frame tl ->
  exists ds, run_x evs = map OData ds ++ [OTrailers (read_back tl); ONone] /\ concat ds = fcat frames.
Proof. exact any_chunking_gen_x. Qed.

(* TRUNCATION AT EVERY BYTE: EVERY non-empty strict prefix [P] of such a body - it may end inside
   a frame header, inside a payload, inside the trailers frame or exactly between two frames - in
   EVERY chunking: whole frames may be delivered first, then an error; never a clean end, never
   trailers.  The error is E_EOF for a cut inside a frame and E_NoTrailers for a cut between two
   frames (fix c815a16a, F-C17j), in which case every frame of the prefix was delivered.
   (P = []: c17_webc_empty_body.) *)
Theorem c17_webc_truncation_errors : forall frames tl evs P U,
  frames_ok frames -> trailers_ok tl = true ->
  nlen (encode_trailers tl) <= U32_MAX -> nlen tl <= HM_MAX_NAMES ->
  only_data_or_pending evs = true ->
  P ++ U = fcat frames ++ trailers_frame tl -> U <> [] -> P <> [] ->
  concat (datas evs) = P ->
  exists ds fa fb e,
    frames = fa ++ fb /\ concat ds = fcat fa /\ run_x evs = map OData ds ++ [OErr e] /\
    (e = E_EOF \/ (e = E_NoTrailers /\ P = fcat fa)).
Proof. exact truncation_any_byte. Qed.

(* message frames WITHOUT a trailers frame, any chunking: every frame, then the error *)
Theorem c17_webc_no_trailers_frame : forall fa evs,
  frames_ok fa -> fa <> [] -> only_data_or_pending evs = true ->
  concat (datas evs) = fcat fa ->
  exists ds, run_x evs = map OData ds ++ [OErr E_NoTrailers] /\ concat ds = fcat fa.
Proof. exact no_trailers_frame_x. Qed.

(* a body without a single byte ends cleanly: that is the body of a trailers-only response,
   whose status is in the HTTP headers (tonic's create_response), which this body cannot see *)
Theorem c17_webc_empty_body : forall evs,
  only_data_or_pending evs = true -> concat (datas evs) = [] -> run_x evs = [ONone].
Proof. exact empty_body_x. Qed.

(* ---------- "otherwise malformed => an error" ---------- *)
(* In all four cases: valid message frames, then the defect, EVERY byte delivered, EVERY chunking,
   Pending anywhere.  [run_x] ends with the error; by c17_webc_error_final every later poll
   answers None, so the consumer sees exactly one Err and then None. *)

(* (a) a byte that is no legal flag (not 0, 1, 0x80) where a frame has to start, followed by at
   least four more bytes (with fewer the frame header is incomplete and the EOF error arises
   instead): whole frames - possibly NOT all frames that precede the defect: frames buffered
   together with the bad header are dropped - then Err(E_BadFlag h) *)
Theorem c17_webc_malformed_bad_flag : forall frames h t evs,
  frames_ok frames -> h <> 0 -> h <> 1 -> h <> GRPC_WEB_TRAILERS_BIT -> 4 <= nlen t ->
  only_data_or_pending evs = true ->
  concat (datas evs) = fcat frames ++ h :: t ->
  exists ds fa fb,
    frames = fa ++ fb /\ concat ds = fcat fa /\ run_x evs = map OData ds ++ [OErr (E_BadFlag h)].
Proof. exact malformed_bad_flag_x. Qed.

(* (b) ANY bytes [Y] after a complete valid trailers frame, (c) in particular a second trailers
   frame: EVERY message frame, then Err(E_DataAfterTrailers); the trailers are not handed out *)
Theorem c17_webc_malformed_after_trailers : forall frames tl Y evs,
  frames_ok frames -> trailers_ok tl = true ->
  nlen (encode_trailers tl) <= U32_MAX -> nlen tl <= HM_MAX_NAMES -> Y <> [] ->
  only_data_or_pending evs = true ->
  concat (datas evs) = fcat frames ++ trailers_frame tl ++ Y ->
  exists ds, run_x evs = map OData ds ++ [OErr E_DataAfterTrailers] /\ concat ds = fcat frames.
Proof. exact malformed_after_trailers_x. Qed.

(* (d) a trailers frame whose block does not decode, whatever the reason (line without ':',
   illegal header name, illegal header value): EVERY message frame, then that error *)
Theorem c17_webc_malformed_trailers_block : forall frames P e evs,
  frames_ok frames -> nlen P <= U32_MAX ->
  decode_trailers_frame (frame GRPC_WEB_TRAILERS_BIT P) = DErr e ->
  only_data_or_pending evs = true ->
  concat (datas evs) = fcat frames ++ frame GRPC_WEB_TRAILERS_BIT P ->
  exists ds, run_x evs = map OData ds ++ [OErr e] /\ concat ds = fcat frames.
Proof. exact malformed_trailers_block_x. Qed.

(* ... in particular a line without ':' (and without CR) after any valid lines *)
Theorem c17_webc_malformed_line_without_colon : forall frames tl line rest evs,
  frames_ok frames -> trailers_ok tl = true -> nlen tl < HM_MAX_NAMES ->
  (forall x, In x line -> x <> 58 /\ x <> 13) ->
  let P := encode_trailers tl ++ line ++ 13 :: 10 :: rest in
  nlen P <= U32_MAX ->
  only_data_or_pending evs = true ->
  concat (datas evs) = fcat frames ++ frame GRPC_WEB_TRAILERS_BIT P ->
  exists ds, run_x evs = map OData ds ++ [OErr E_NoValue] /\ concat ds = fcat frames.
Proof. exact malformed_line_without_colon_x. Qed.

(* the four cases at once, by kind of tail (Proofs/WebClient.v tail_kind, expected_end) *)
Theorem c17_webc_malformed_errors : forall tk frames evs,
  tail_ok tk -> frames_ok frames -> only_data_or_pending evs = true ->
  concat (datas evs) = fcat frames ++ tail_bytes tk ->
  exists ds fa fb,
    frames = fa ++ fb /\ concat ds = fcat fa /\ run_x evs = map OData ds ++ expected_end tk /\
    (is_bad tk = false -> fb = []).
Proof. exact malformed_gen_x. Qed.

(* (e) the wrapped body fails at some point of ANY script (data, Pending, HTTP trailers before it,
   anything after it): message frames may be delivered, then the run ends with an error (or the
   explicit capacity panic) - never with a clean end, never with trailers *)
Theorem c17_webc_inner_error_never_clean : forall pre post,
  exists l o, run_x (pre ++ EvErr :: post) = l ++ [o] /\
    (forall x, In x l -> exists d, x = OData d) /\ ((exists e, o = OErr e) \/ o = OPanic).
Proof. exact inner_error_never_clean. Qed.

(* No busy loop, for EVERY state and EVERY script (malformed bodies, inner errors and HTTP
   trailers included): with fuel [#events + 3] the loop of poll_frame always comes to a result,
   one call polls the wrapped body at most [#remaining events + 1] times, and the wrapped body
   is asked for its end at most once, ever. *)
Theorem c17_webc_no_busy_loop : forall X i fuel o X' i',
  (length (i_evs i) + 3 <= fuel)%nat -> good_x X i ->
  poll_frame_x fuel X i = (o, X', i') ->
  o <> OOutOfFuel /\ good_x X' i' /\ i_ends i' <= 1 /\
  i_polls i' <= i_polls i + N.of_nat (length (i_evs i)) + 1.
Proof. exact no_busy_loop_x. Qed.

Theorem c17_webc_good_init : forall evs, good_x init_x (mk_inner evs).
Proof. exact good_init_x. Qed.

(* EVERY script whatsoever (malformed bodies, errors and HTTP trailers of the wrapped body
   included) is drained within the poll budget [#events + #bytes/5 + 4]: the consumer reaches the
   end, an error (or the explicit capacity panic) - never a hang *)
Theorem c17_webc_never_hangs : forall evs, ~ In OOutOfFuel (run_x evs).
Proof. exact never_hangs_x. Qed.

(* an error is final *)
Theorem c17_webc_error_final : forall X i fuel e X' i',
  (length (i_evs i) + 3 <= fuel)%nat -> good_x X i ->
  poll_frame_x fuel X i = (OErr e, X', i') ->
  dir (xs X') = Empty /\ forall fuel2, poll_frame_x fuel2 X' i' = (ONone, X', i').
Proof. exact error_final_x. Qed.

(* so are the trailers *)
Theorem c17_webc_trailers_final : forall X i fuel t X' i',
  (length (i_evs i) + 3 <= fuel)%nat -> good_x X i ->
  poll_frame_x fuel X i = (OTrailers t, X', i') ->
  dir (xs X') = Empty /\ forall fuel2, poll_frame_x fuel2 X' i' = (ONone, X', i').
Proof. exact trailers_final_x. Qed.

(* and the end *)
Theorem c17_webc_end_final : forall X i fuel X' i',
  (length (i_evs i) + 3 <= fuel)%nat -> good_x X i ->
  poll_frame_x fuel X i = (ONone, X', i') ->
  forall fuel2, (1 <= fuel2)%nat -> poll_frame_x fuel2 X' i' = (ONone, X', i').
Proof. exact end_final_x. Qed.

(* Body::is_end_stream (fixes f0f96413 F-C17i, c815a16a F-C17j) keeps the http_body contract:
   whenever it answers true - over a wrapped body that answers true only at its own end - the
   next poll returns None, in EVERY state; a hyper-like consumer that stops there loses no
   frame, no trailers and no error *)
Theorem c17_webc_is_end_stream_contract : forall X i fuel,
  call_is_end_stream_x 1 X i = true -> (2 <= fuel)%nat ->
  fst (fst (poll_frame_x fuel X i)) = ONone.
Proof. exact is_end_stream_contract_x. Qed.

(* Body::size_hint (fix 2dcb76d4) is sound in EVERY state: the lower bound is 0, and the only
   upper bound it ever gives - exactly 0, direction Empty - is given when no frame follows *)
Theorem c17_webc_size_hint_sound : forall X i fuel,
  fst (call_size_hint X) = 0 /\
  (forall u, snd (call_size_hint X) = Some u -> u = 0 /\ poll_frame_x fuel X i = (ONone, X, i)).
Proof. exact size_hint_sound. Qed.

(* the explicit panic sites: split_to is never out of bounds; HeaderMap::append overflows only
   for a buffered trailers frame of more than 24576 lines, HeaderMap::extend only when the
   trailers of the frame and the HTTP trailers of the wrapped body together reach 24576 names *)
Theorem c17_webc_panic_needs_full_map : forall fuel X i X' i',
  poll_frame_x fuel X i = (OPanic, X', i') ->
  (exists fr, HM_MAX_NAMES < nlen (split_crlf [] (ndrop 5 fr))) \/
  (exists cur t, extend_panics cur t = true /\ HM_MAX_NAMES <= nlen (names_of cur) + nlen (names_of t)).
Proof. exact panic_needs_full_map_x. Qed.

(* the capacity of http::HeaderMap, exactly: [n] lines with distinct valid names panic iff
   n > 24576 (observed on the real crate as kind observe.header_map_capacity) ... *)
Theorem c17_webc_header_map_capacity : forall n, N.of_nat n <= 456976 ->
  decode_trailers_frame (trailers_frame (many_lines n 0)) =
  if HM_MAX_NAMES <? N.of_nat n then DPanic else DOk (Some (many_lines n 0)).
Proof. exact decode_many_names. Qed.

(* ... and merging HTTP trailers with one name (new or not) into those [n] names panics iff
   n = 24576 (kind observe.header_map_extend_capacity, closed form [obs_extend_capacity]) *)
Theorem c17_webc_extend_capacity : forall n k v, N.of_nat n <= 456976 ->
  extend_panics (many_lines n 0) [(k, v)] = (N.of_nat n =? HM_MAX_NAMES).
Proof. exact extend_capacity_exact. Qed.

(* ---------- the caller's view ---------- *)
(* CALLER SEES THE SERVER'S REAL STATUS.  ANY uncompressed messages [ps] (up to tonic's default
   limit of 4 MiB each) x ANY trailer list x EVERY chunking, Pending anywhere; the response head is
   not a trailers-only head (no grpc-status) and names no grpc-encoding.  tonic's
   server_streaming() over the layer gives the caller exactly the messages, then exactly what
   Status::from_header_map (C04) makes of the COMPLETE trailer list: an error status ends the
   stream with that status (code, percent-decoded message, details, every other pair as
   metadata); otherwise the stream ends OK and trailers() returns every pair. *)
Theorem c17_caller_sees_status : forall ps tl evs headers,
  Forall (fun p => nlen p <= Decoder.DEFAULT_MAX_RECV_MESSAGE_SIZE) ps ->
  trailers_ok tl = true -> nlen (encode_trailers tl) <= U32_MAX -> nlen tl <= HM_MAX_NAMES ->
  only_data_or_pending evs = true ->
  concat (datas evs) = fcat (plain_frames ps) ++ trailers_frame tl ->
  hm_get_all headers CompressionTables.hdr_grpc_encoding = [] ->
  Status.from_header_map headers = None ->
  stack_streaming 200 headers (flat_map bev_of (run_x evs)) (stack_fuel (run_x evs)) =
  SRStream headers ps
    match Status.infer_grpc_status (Some (read_back tl)) 200 with
    | inr (Some st) => inl st
    | _ => inr (Some (read_back tl))
    end.
Proof. exact stack_streaming_status. Qed.

(* ... and EVERY non-empty strict prefix of such a response, in every chunking, ends at the caller
   with an INTERNAL error after the messages of whole frames: never OK *)
Theorem c17_caller_truncation : forall ps tl evs P U headers,
  Forall (fun p => nlen p <= Decoder.DEFAULT_MAX_RECV_MESSAGE_SIZE) ps ->
  trailers_ok tl = true -> nlen (encode_trailers tl) <= U32_MAX -> nlen tl <= HM_MAX_NAMES ->
  only_data_or_pending evs = true ->
  P ++ U = fcat (plain_frames ps) ++ trailers_frame tl -> U <> [] -> P <> [] ->
  concat (datas evs) = P ->
  hm_get_all headers CompressionTables.hdr_grpc_encoding = [] ->
  Status.from_header_map headers = None ->
  exists psa psb e,
    ps = psa ++ psb /\ (e = E_EOF \/ e = E_NoTrailers) /\
    stack_streaming 200 headers (flat_map bev_of (run_x evs)) (stack_fuel (run_x evs)) =
      SRStream headers psa (inl (werr_status e)) /\
    Status.st_code (werr_status e) = StatusTables.Code_Internal.
Proof. exact stack_truncation. Qed.

(* the model of the code before c815a16a ([run], about which Props/C16.v still states its
   round trip) and the current one agree up to the new error: on a script without HTTP trailers
   [run_x] is [run] with the clean end after message frames replaced by the error *)
Theorem c17_webc_old_model : forall evs,
  no_http_trailers evs = true -> run_x evs = xform false (run evs).
Proof. exact run_x_run. Qed.

(* ---------- the hypotheses are satisfiable on non-trivial values ---------- *)
(* frames "hi" (flag 0), empty (flag 1), a payload that looks like a trailers frame header;
   trailers grpc-status:5, grpc-message:"a:b c: d", x-k twice *)
Definition ex_frames : list msg := [(0, [104; 105]); (1, []); (0, [128; 0; 0; 0; 1; 120])].
Definition ex_tl : hm :=
  [ ([103;114;112;99;45;115;116;97;116;117;115], [53]);
    ([103;114;112;99;45;109;101;115;115;97;103;101], [97;58;98;32;99;58;32;100]);
    ([120;45;107], [49]); ([120;45;107], [50]) ].
Definition ex_body : list N := fcat ex_frames ++ trailers_frame ex_tl.
(* cut inside the first header, inside the trailers frame header, Pending in between, and an
   empty chunk *)
Definition ex_evs : list ev :=
  [EvData (ntake 3 ex_body); EvPending; EvData (ndrop 3 (ntake 29 ex_body)); EvData [];
   EvPending; EvData (ndrop 29 ex_body)].

Example c17_premises_hold :
  frames_ok ex_frames /\ trailers_ok ex_tl = true /\ no_leading_space ex_tl = true /\
  nlen (encode_trailers ex_tl) <= U32_MAX /\ nlen ex_tl <= HM_MAX_NAMES /\
  only_data_or_pending ex_evs = true /\
  concat (datas ex_evs) = fcat ex_frames ++ trailers_frame ex_tl.
Proof.
  split.
  { unfold frames_ok, ex_frames, msg_ok. repeat apply Forall_cons; try apply Forall_nil; cbn [fst snd];
      (split; [auto|vm_compute; discriminate]). }
  split; [vm_compute; reflexivity|]. split; [vm_compute; reflexivity|].
  split; [vm_compute; discriminate|]. split; [vm_compute; discriminate|].
  split; vm_compute; reflexivity.
Qed.

Example c17_run_example :
  run_x ex_evs = [OData (fcat ex_frames); OTrailers ex_tl; ONone].
Proof. vm_compute. reflexivity. Qed.

(* message and trailers in one chunk (F-C17a), colon in a value (F-C17b), repeated names
   (F-C17c) *)
Example c17_one_chunk : run_x [EvData ex_body] = [OData (fcat ex_frames); OTrailers ex_tl; ONone].
Proof. vm_compute. reflexivity. Qed.

(* truncated payload at EOF (F-C17f): an error, with the end of the wrapped body seen once; the
   size hint is (0, None) before and exactly 0 after it *)
Example c17_truncated_payload :
  obs_client_x [EvData [0; 0; 0; 0; 5; 1; 2]] =
  Nd [Nd [Nd [Nn 3; Nd [Nn 3]]]; Nd [Nd [Nn 0]; Nd [Nn 0]]; Nn 2; Nn 1;
      Nd [Nn 0; Nd []]; Nd [Nn 0; Nd [Nn 0]]].
Proof. vm_compute. reflexivity. Qed.

(* F-C17j (fixed by c815a16a): the frame "hi" and then nothing - the response was cut off exactly
   before its trailers frame: the frame, then the error; the old model ended cleanly *)
Example c17_missing_trailers :
  run_x [EvData (frame 0 [104; 105])] = [OData (frame 0 [104; 105]); OErr E_NoTrailers] /\
  run [EvData (frame 0 [104; 105])] = [OData (frame 0 [104; 105]); ONone] /\
  run_x [] = [ONone] /\
  run_x [EvData (frame 0 [104; 105]); EvTrailers [([120], [49])]] =
    [OData (frame 0 [104; 105]); OTrailers [([120], [49])]; ONone].
Proof. repeat split; vm_compute; reflexivity. Qed.

(* ... and what the caller of server_streaming() sees of it: the message, then INTERNAL; for the
   complete response (grpc-status:5) the message, then NOT_FOUND *)
Example c17_missing_trailers_caller :
  let head := [([99;111;110;116;101;110;116;45;116;121;112;101], WebConsts.GRPC_WEB_PROTO)] in
  obs_stack 2 200 head [EvData (frame 0 [104; 105])] =
    Nd [Nn 2; hm_canon head; Nd [Bs [104; 105]];
        Nd [Nn 1; Nd [Nn 13; Bs T_NOTRAILERS; Bs []; Nd []]]] /\
  obs_stack 2 200 head [EvData (frame 0 [104; 105] ++ trailers_frame [([103;114;112;99;45;115;116;97;116;117;115], [53])])] =
    Nd [Nn 2; hm_canon head; Nd [Bs [104; 105]];
        Nd [Nn 1; Nd [Nn 5; Bs []; Bs []; Nd []]]].
Proof. split; vm_compute; reflexivity. Qed.

(* malformed bodies: bad flag after a frame / stray byte after the trailers / second trailers
   frame / line without colon *)
Example c17_malformed_examples :
  run_x [EvData (frame 0 [104; 105] ++ [2; 0; 0; 0; 0])] = [OErr (E_BadFlag 2)] /\
  run_x [EvData (frame 0 [104; 105]); EvData [2; 0; 0; 0; 0]] = [OData (frame 0 [104; 105]); OErr (E_BadFlag 2)] /\
  run_x [EvData (frame 0 [104; 105] ++ trailers_frame ex_tl ++ [0])] = [OData (frame 0 [104; 105]); OErr E_DataAfterTrailers] /\
  run_x [EvData (trailers_frame ex_tl); EvPending; EvData (trailers_frame ex_tl)] = [OErr E_DataAfterTrailers] /\
  run_x [EvData (frame 128 [97; 98; 99; 13; 10])] = [OErr E_NoValue].
Proof. repeat split; vm_compute; reflexivity. Qed.

(* F-C17i (fixed by f0f96413): the wrapped body hands over one chunk frame("hi") ++ trailers
   frame and then reports is_end_stream (as hyper's Incoming does).  A consumer that stops when
   is_end_stream() is true receives DATA and the TRAILERS and is stopped by nothing but the
   end; no frame is left behind *)
Example c17_is_end_stream_not_early :
  obs_client_hyper_x 1 [EvData (frame 0 [104; 105] ++ trailers_frame [([120], [49])])] =
  Nd [Nd [Nd [Nn 1; Bs (frame 0 [104; 105])]; Nd [Nn 2; Nd [Nd [Bs [120]; Nd [Bs [49]]]]]]; Nn 0; Nd []].
Proof. vm_compute. reflexivity. Qed.

(* a last trailer line without its CRLF is a trailer (F-C17h) *)
Example c17_unterminated_line :
  run_x [EvData (frame 128 [103;114;112;99;45;115;116;97;116;117;115;58;53])] =
  [OTrailers [([103;114;112;99;45;115;116;97;116;117;115], [53])]; ONone].
Proof. vm_compute. reflexivity. Qed.

(* OBSERVATION (not a violation of the property text, recorded): a value that starts with a
   space is read back without that space *)
Example c17_leading_space_dropped :
  run_x [EvData (trailers_frame [([120;45;107], [32; 118])])] = [OTrailers [([120;45;107], [118])]; ONone].
Proof. vm_compute. reflexivity. Qed.

(* OBSERVATION: HTTP trailers of the wrapped body REPLACE the in-body trailers of the same name
   (HeaderMap::extend), other names are kept *)
Example c17_http_trailers_merge :
  run_x [EvData (trailers_frame [([120], [49]); ([121], [50])]); EvTrailers [([120], [51])]] =
  [OTrailers [([121], [50]); ([120], [51])]; ONone].
Proof. vm_compute. reflexivity. Qed.

Print Assumptions c17_webc_any_chunking.
Print Assumptions c17_webc_any_chunking_ows.
Print Assumptions c17_webc_truncation_errors.
Print Assumptions c17_webc_no_trailers_frame.
Print Assumptions c17_webc_malformed_errors.
Print Assumptions c17_webc_inner_error_never_clean.
Print Assumptions c17_webc_no_busy_loop.
Print Assumptions c17_webc_never_hangs.
Print Assumptions c17_webc_is_end_stream_contract.
Print Assumptions c17_webc_panic_needs_full_map.
Print Assumptions c17_webc_extend_capacity.
Print Assumptions c17_caller_sees_status.
Print Assumptions c17_caller_truncation.

(* the constants written by hand in the model equal the ones regenerated from the Rust source
   (Gen/ConstTables.v, rewritten by rs2v on every run) *)
From Verif Require Gen.ConstTables Proofs.ConstTies Model.Encoder Model.Decoder Model.WebServer.
Import Gen.ConstTables.
Theorem c17_constants_tied :
  WebServer.WebConsts.GRPC_WEB = web_ct_grpc_web /\
  WebServer.WebConsts.GRPC_WEB_PROTO = web_ct_grpc_web_proto /\
  WebServer.WebConsts.GRPC_WEB_TEXT = web_ct_grpc_web_text /\
  WebServer.WebConsts.GRPC_WEB_TEXT_PROTO = web_ct_grpc_web_text_proto /\
  WebServer.WebConsts.GRPC_CONTENT_TYPE = grpc_content_type /\
  WebServer.GRPC_WEB_TRAILERS_BIT = web_trailers_bit /\
  Frame.HEADER_SIZE = web_frame_header_size /\
  Frame.HEADER_SIZE = web_grpc_header_size.
Proof. exact ConstTies.web_constants_tied. Qed.
Print Assumptions c17_constants_tied.
