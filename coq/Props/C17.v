(* C17 - the grpc-web client layer recovers messages and full trailers under any chunking.
   Statements only: each theorem is closed by [exact] of a lemma of Proofs/WebClient.v.

   Vocabulary (Model/WebClient.v, Model/WebServer.v, Proofs/WebClient.v):
     ev                     one scripted poll result of the wrapped body:
                            EvPending | EvData chunk | EvTrailers map | EvErr; afterwards End for ever
     run evs                what a consumer of the GrpcWebCall response body sees when the wrapped
                            body plays [evs]: the non-Pending items up to and including the first
                            None / Err (OOutOfFuel = no result within the poll budget, OPanic)
     fcat frames            the bytes of the message frames (flag, be32 length, payload)
     trailers_frame tl      0x80, be32 length, "name:value\r\n" for every pair of [tl]
     frames_ok              flags 0 or 1, payloads shorter than 2^32
     trailers_ok            names are non-empty lower-case tokens of at most 65535 bytes, values are
                            legal http::HeaderValue bytes (so no CR / LF); names may repeat, values
                            may contain ':' and spaces
     only_data_or_pending   the script consists of data chunks (possibly empty) and Pending *)
From Verif Require Import Lib.Bytes Lib.Obs Lib.BE32 Lib.HeaderMap Lib.Percent.
From Verif Require Import Model.Frame Model.WebServer Model.WebClient Proofs.WebClient.
Open Scope N_scope.

(* ANY frames x ANY trailer list x EVERY chunking of the encoded body, Pending anywhere: the data
   items concatenate to the message frame bytes, then exactly one trailers item carrying every
   pair with its full value in order (so in order per name), then the end. *)
Theorem c17_webc_any_chunking : forall frames tl evs,
  frames_ok frames -> trailers_ok tl = true -> no_leading_space tl = true ->
  nlen (encode_trailers tl) <= U32_MAX -> nlen tl <= HM_MAX_NAMES ->
  only_data_or_pending evs = true ->
  concat (datas evs) = fcat frames ++ trailers_frame tl ->
  exists ds t,
    run evs = map OData ds ++ [OTrailers t; ONone] /\ concat ds = fcat frames /\
    t = tl /\ forall k, hm_get_all t k = hm_get_all tl k.
Proof. exact any_chunking. Qed.

(* the same without the restriction on leading spaces: what is read back is [read_back tl],
   every value minus ONE leading space ("name: value" and "name:value" are the same trailer) *)
Theorem c17_webc_any_chunking_ows : forall frames tl evs,
  frames_ok frames -> trailers_ok tl = true ->
  nlen (encode_trailers tl) <= U32_MAX -> nlen tl <= HM_MAX_NAMES ->
  only_data_or_pending evs = true ->
  concat (datas evs) = fcat frames ++ trailers_frame tl ->
  exists ds, run evs = map OData ds ++ [OTrailers (read_back tl); ONone] /\ concat ds = fcat frames.
Proof. exact any_chunking_gen. Qed.

(* EVERY strict prefix [P] of such a body that does not end exactly between two frames - it ends
   inside a frame header, a payload or the trailers frame - in EVERY chunking: whole frames may
   be delivered first, then an error; never a clean end, never trailers. *)
Theorem c17_webc_truncation_errors : forall frames tl evs P U,
  frames_ok frames -> trailers_ok tl = true ->
  nlen (encode_trailers tl) <= U32_MAX -> nlen tl <= HM_MAX_NAMES ->
  only_data_or_pending evs = true ->
  P ++ U = fcat frames ++ trailers_frame tl -> U <> [] ->
  (forall fa fb, frames = fa ++ fb -> P <> fcat fa) ->
  concat (datas evs) = P ->
  exists ds fa fb,
    frames = fa ++ fb /\ concat ds = fcat fa /\ run evs = map OData ds ++ [OErr E_EOF].
Proof. exact truncation_errors. Qed.

(* what the code does with a body that stops exactly between two frames, in particular one
   with NO trailers frame at all: all its frames are delivered and the body ends cleanly WITHOUT
   trailers.  The property demands an error only for a cut INSIDE a frame; nothing on this tree
   turns the missing trailers frame into an error afterwards (tonic's infer_grpc_status maps
   "HTTP 200, no grpc-status" to Err(None), which Streaming treats as the end of the stream). *)
Theorem c17_webc_no_trailers_frame : forall fa tl evs,
  frames_ok fa -> trailers_ok tl = true ->
  nlen (encode_trailers tl) <= U32_MAX -> nlen tl <= HM_MAX_NAMES ->
  only_data_or_pending evs = true ->
  concat (datas evs) = fcat fa ->
  exists ds, run evs = map OData ds ++ [ONone] /\ concat ds = fcat fa.
Proof. exact cut_between_frames. Qed.

(* ---------- "otherwise malformed => an error" ---------- *)
(* In all four cases: valid message frames, then the defect, EVERY byte delivered, EVERY chunking,
   Pending anywhere.  [run] ends with the error; by c17_webc_error_final every later poll
   answers None, so the consumer sees exactly one Err and then None. *)

(* (a) a byte that is no legal flag (not 0, 1, 0x80) where a frame has to start, followed by at
   least four more bytes (with fewer the frame header is incomplete and the EOF error of
   c17_webc_truncation_errors's kind arises instead): whole frames - possibly NOT all frames that
   precede the defect: frames buffered together with the bad header are dropped - then
   Err(E_BadFlag h) *)
Theorem c17_webc_malformed_bad_flag : forall frames h t evs,
  frames_ok frames -> h <> 0 -> h <> 1 -> h <> GRPC_WEB_TRAILERS_BIT -> 4 <= nlen t ->
  only_data_or_pending evs = true ->
  concat (datas evs) = fcat frames ++ h :: t ->
  exists ds fa fb,
    frames = fa ++ fb /\ concat ds = fcat fa /\ run evs = map OData ds ++ [OErr (E_BadFlag h)].
Proof. exact malformed_bad_flag. Qed.

(* (b) ANY bytes [Y] after a complete valid trailers frame, (c) in particular a second trailers
   frame: EVERY message frame, then Err(E_DataAfterTrailers); the trailers are not handed out *)
Theorem c17_webc_malformed_after_trailers : forall frames tl Y evs,
  frames_ok frames -> trailers_ok tl = true ->
  nlen (encode_trailers tl) <= U32_MAX -> nlen tl <= HM_MAX_NAMES -> Y <> [] ->
  only_data_or_pending evs = true ->
  concat (datas evs) = fcat frames ++ trailers_frame tl ++ Y ->
  exists ds, run evs = map OData ds ++ [OErr E_DataAfterTrailers] /\ concat ds = fcat frames.
Proof. exact malformed_after_trailers. Qed.

(* (d) a trailers frame whose block does not decode, whatever the reason (line without ':',
   illegal header name, illegal header value): EVERY message frame, then that error *)
Theorem c17_webc_malformed_trailers_block : forall frames P e evs,
  frames_ok frames -> nlen P <= U32_MAX ->
  decode_trailers_frame (frame GRPC_WEB_TRAILERS_BIT P) = DErr e ->
  only_data_or_pending evs = true ->
  concat (datas evs) = fcat frames ++ frame GRPC_WEB_TRAILERS_BIT P ->
  exists ds, run evs = map OData ds ++ [OErr e] /\ concat ds = fcat frames.
Proof. exact malformed_trailers_block. Qed.

(* ... in particular a line without ':' (and without CR) after any valid lines *)
Theorem c17_webc_malformed_line_without_colon : forall frames tl line rest evs,
  frames_ok frames -> trailers_ok tl = true -> nlen tl < HM_MAX_NAMES ->
  (forall x, In x line -> x <> 58 /\ x <> 13) ->
  let P := encode_trailers tl ++ line ++ 13 :: 10 :: rest in
  nlen P <= U32_MAX ->
  only_data_or_pending evs = true ->
  concat (datas evs) = fcat frames ++ frame GRPC_WEB_TRAILERS_BIT P ->
  exists ds, run evs = map OData ds ++ [OErr E_NoValue] /\ concat ds = fcat frames.
Proof. exact malformed_line_without_colon. Qed.

(* the four cases at once, by kind of tail (Proofs/WebClient.v tail_kind, expected_end) *)
Theorem c17_webc_malformed_errors : forall tk frames evs,
  tail_ok tk -> frames_ok frames -> only_data_or_pending evs = true ->
  concat (datas evs) = fcat frames ++ tail_bytes tk ->
  exists ds fa fb,
    frames = fa ++ fb /\ concat ds = fcat fa /\ run evs = map OData ds ++ expected_end tk /\
    (is_bad tk = false -> fb = []).
Proof. exact malformed_gen. Qed.

(* No busy loop, for EVERY state and EVERY script (malformed bodies, inner errors and HTTP
   trailers included): with fuel [#events + 3] the loop of poll_frame always comes to a result,
   one call polls the wrapped body at most [#remaining events + 1] times, and the wrapped body
   is asked for its end at most once, ever. *)
Theorem c17_webc_no_busy_loop : forall s i fuel o s' i',
  (length (i_evs i) + 3 <= fuel)%nat -> good s i ->
  poll_frame fuel s i = (o, s', i') ->
  o <> OOutOfFuel /\ good s' i' /\ i_ends i' <= 1 /\
  i_polls i' <= i_polls i + N.of_nat (length (i_evs i)) + 1.
Proof. exact no_busy_loop. Qed.

Theorem c17_webc_good_init : forall evs, good init (mk_inner evs).
Proof. exact good_init. Qed.

(* EVERY script whatsoever (malformed bodies, errors and HTTP trailers of the wrapped body
   included) is drained within the poll budget [#events + #bytes/5 + 4]: the consumer reaches the
   end, an error (or the explicit capacity panic) - never a hang *)
Theorem c17_webc_never_hangs : forall evs, ~ In OOutOfFuel (run evs).
Proof. exact never_hangs. Qed.

(* an error is final *)
Theorem c17_webc_error_final : forall s i fuel e s' i',
  (length (i_evs i) + 3 <= fuel)%nat -> good s i ->
  poll_frame fuel s i = (OErr e, s', i') ->
  dir s' = Empty /\ forall fuel2, poll_frame fuel2 s' i' = (ONone, s', i').
Proof. exact error_final. Qed.

(* so is the end *)
Theorem c17_webc_end_final : forall s i fuel s' i',
  (length (i_evs i) + 3 <= fuel)%nat -> good s i ->
  poll_frame fuel s i = (ONone, s', i') ->
  forall fuel2, (1 <= fuel2)%nat -> poll_frame fuel2 s' i' = (ONone, s', i').
Proof. exact end_final. Qed.

(* Body::is_end_stream (fix f0f96413, F-C17i) keeps the http_body contract: whenever it answers
   true - over a wrapped body that answers true only at its own end - the next poll returns None,
   in EVERY state; a hyper-like consumer that stops there loses no frame and no trailers *)
Theorem c17_webc_is_end_stream_contract : forall s i fuel,
  call_is_end_stream 1 s i = true -> (2 <= fuel)%nat ->
  fst (fst (poll_frame fuel s i)) = ONone.
Proof. exact is_end_stream_contract. Qed.

(* the explicit panic sites: split_to is never out of bounds; HeaderMap::append overflows only
   for a buffered trailers frame of more than 24576 lines *)
Theorem c17_webc_panic_needs_many_lines : forall fuel s i s' i',
  poll_frame fuel s i = (OPanic, s', i') ->
  exists fr, HM_MAX_NAMES < nlen (split_crlf [] (ndrop 5 fr)).
Proof. exact panic_needs_many_lines. Qed.

(* the capacity of http::HeaderMap, exactly: [n] lines with distinct valid names panic iff
   n > 24576 (observed on the real crate as kind observe.header_map_capacity) *)
Theorem c17_webc_header_map_capacity : forall n, N.of_nat n <= 456976 ->
  decode_trailers_frame (trailers_frame (many_lines n 0)) =
  if HM_MAX_NAMES <? N.of_nat n then DPanic else DOk (Some (many_lines n 0)).
Proof. exact decode_many_names. Qed.

(* ---------- the hypotheses are satisfiable on non-trivial values ---------- *)
(* frames "hi" (flag 0), empty (flag 1), a payload that looks like a trailers frame header;
   trailers grpc-status:5, grpc-message:"a:b c: d", x-k twice *)
Definition ex_frames : list msg := [(0, [104; 105]); (1, []); (0, [128; 0; 0; 0; 1; 120])].
Definition ex_tl : hm :=
  [ ([103;114;112;99;45;115;116;97;116;117;115], [53]);
    ([103;114;112;99;45;109;101;115;115;97;103;101], [97;58;98;32;99;58;32;100]);
    ([120;45;107], [49]); ([120;45;107], [50]) ].
Definition ex_body : list N := fcat ex_frames ++ trailers_frame ex_tl.
(* cut inside the first header, inside the trailers frame header, Pending in between, and an
   empty chunk *)
Definition ex_evs : list ev :=
  [EvData (ntake 3 ex_body); EvPending; EvData (ndrop 3 (ntake 29 ex_body)); EvData [];
   EvPending; EvData (ndrop 29 ex_body)].

Example c17_premises_hold :
  frames_ok ex_frames /\ trailers_ok ex_tl = true /\ no_leading_space ex_tl = true /\
  nlen (encode_trailers ex_tl) <= U32_MAX /\ nlen ex_tl <= HM_MAX_NAMES /\
  only_data_or_pending ex_evs = true /\
  concat (datas ex_evs) = fcat ex_frames ++ trailers_frame ex_tl.
Proof.
  split.
  { unfold frames_ok, ex_frames, msg_ok. repeat apply Forall_cons; try apply Forall_nil; cbn [fst snd];
      (split; [auto|vm_compute; discriminate]). }
  split; [vm_compute; reflexivity|]. split; [vm_compute; reflexivity|].
  split; [vm_compute; discriminate|]. split; [vm_compute; discriminate|].
  split; vm_compute; reflexivity.
Qed.

Example c17_run_example :
  run ex_evs = [OData (fcat ex_frames); OTrailers ex_tl; ONone].
Proof. vm_compute. reflexivity. Qed.

(* message and trailers in one chunk (F-C17a), colon in a value (F-C17b), repeated names
   (F-C17c) *)
Example c17_one_chunk : run [EvData ex_body] = [OData (fcat ex_frames); OTrailers ex_tl; ONone].
Proof. vm_compute. reflexivity. Qed.

(* truncated payload at EOF (F-C17f): an error, with the end of the wrapped body seen once *)
Example c17_truncated_payload :
  obs_client [EvData [0; 0; 0; 0; 5; 1; 2]] =
  Nd [Nd [Nd [Nn 3; Nd [Nn 3]]]; Nd [Nd [Nn 0]; Nd [Nn 0]]; Nn 2; Nn 1].
Proof. vm_compute. reflexivity. Qed.

(* malformed bodies: bad flag after a frame / stray byte after the trailers / second trailers
   frame / line without colon *)
Example c17_malformed_examples :
  run [EvData (frame 0 [104; 105] ++ [2; 0; 0; 0; 0])] = [OErr (E_BadFlag 2)] /\
  run [EvData (frame 0 [104; 105]); EvData [2; 0; 0; 0; 0]] = [OData (frame 0 [104; 105]); OErr (E_BadFlag 2)] /\
  run [EvData (frame 0 [104; 105] ++ trailers_frame ex_tl ++ [0])] = [OData (frame 0 [104; 105]); OErr E_DataAfterTrailers] /\
  run [EvData (trailers_frame ex_tl); EvPending; EvData (trailers_frame ex_tl)] = [OErr E_DataAfterTrailers] /\
  run [EvData (frame 128 [97; 98; 99; 13; 10])] = [OErr E_NoValue].
Proof. repeat split; vm_compute; reflexivity. Qed.

(* F-C17i (fixed by f0f96413): the wrapped body hands over one chunk frame("hi") ++ trailers
   frame and then reports is_end_stream (as hyper's Incoming does).  A consumer that stops when
   is_end_stream() is true now receives DATA and the TRAILERS and is stopped by nothing but the
   end; no frame is left behind *)
Example c17_is_end_stream_not_early :
  obs_client_hyper 1 [EvData (frame 0 [104; 105] ++ trailers_frame [([120], [49])])] =
  Nd [Nd [Nd [Nn 1; Bs (frame 0 [104; 105])]; Nd [Nn 2; Nd [Nd [Bs [120]; Nd [Bs [49]]]]]]; Nn 0; Nd []].
Proof. vm_compute. reflexivity. Qed.

(* a last trailer line without its CRLF is a trailer (F-C17h) *)
Example c17_unterminated_line :
  run [EvData (frame 128 [103;114;112;99;45;115;116;97;116;117;115;58;53])] =
  [OTrailers [([103;114;112;99;45;115;116;97;116;117;115], [53])]; ONone].
Proof. vm_compute. reflexivity. Qed.

(* OBSERVATION (not a violation of the property text, recorded): a value that starts with a
   space is read back without that space *)
Example c17_leading_space_dropped :
  run [EvData (trailers_frame [([120;45;107], [32; 118])])] = [OTrailers [([120;45;107], [118])]; ONone].
Proof. vm_compute. reflexivity. Qed.

Print Assumptions c17_webc_any_chunking.
Print Assumptions c17_webc_any_chunking_ows.
Print Assumptions c17_webc_truncation_errors.
Print Assumptions c17_webc_no_trailers_frame.
Print Assumptions c17_webc_malformed_errors.
Print Assumptions c17_webc_malformed_line_without_colon.
Print Assumptions c17_webc_no_busy_loop.
Print Assumptions c17_webc_error_final.
Print Assumptions c17_webc_end_final.
Print Assumptions c17_webc_panic_needs_many_lines.
Print Assumptions c17_webc_never_hangs.
Print Assumptions c17_webc_header_map_capacity.

(* the constants written by hand in the model equal the ones regenerated from the Rust source
   (Gen/ConstTables.v, rewritten by rs2v on every run) *)
From Verif Require Gen.ConstTables Proofs.ConstTies Model.Encoder Model.Decoder Model.WebServer.
Import Gen.ConstTables.
Theorem c17_constants_tied :
  WebServer.WebConsts.GRPC_WEB = web_ct_grpc_web /\
  WebServer.WebConsts.GRPC_WEB_PROTO = web_ct_grpc_web_proto /\
  WebServer.WebConsts.GRPC_WEB_TEXT = web_ct_grpc_web_text /\
  WebServer.WebConsts.GRPC_WEB_TEXT_PROTO = web_ct_grpc_web_text_proto /\
  WebServer.WebConsts.GRPC_CONTENT_TYPE = grpc_content_type /\
  WebServer.GRPC_WEB_TRAILERS_BIT = web_trailers_bit /\
  Frame.HEADER_SIZE = web_frame_header_size /\
  Frame.HEADER_SIZE = web_grpc_header_size.
Proof. exact ConstTies.web_constants_tied. Qed.
Print Assumptions c17_constants_tied.
