(* C20 - Rich error details round-trip through a status.
   Statements only: each theorem is closed by [exact] of a lemma proved in Proofs/RichError.v or
   Proofs/ProtoWire.v.

   Reading guide.  [error_details] / [error_detail] are tonic-types' ErrorDetails / ErrorDetail;
   [with_error_details_c], [with_error_details_vec_c], [check_error_details_c],
   [get_error_details_c], [check_error_details_vec_c], [get_error_details_vec_c],
   [get_details_c k] model the functions of StatusExt with the protobuf codec of
   Model/ProtoWire.v (field tags regenerated from the prost attributes); [to_header_map] /
   [from_header_map] are C04's model of Status::add_header / Status::from_header_map.
   A result is [Ok _], [Err], [Panic] (an unwrap / expect / debug_assert / overflow site was
   reached) or [Fuel] (model artefact); [good r] says r is Ok or Err.
   [detail_ok d]: the strings of d are UTF-8 byte strings (they are Rust Strings), the keys of an
   ErrorInfo metadata map are distinct (it is a HashMap; the list order is the map's iteration
   order, any order), a RetryInfo delay has less than 2^63 seconds and less than 10^9
   nanoseconds - this includes the whole protobuf range [c20_protobuf_range].
   [fits_c code msg ds]: the encoded google.rpc.Status is at most usize::MAX bytes long. *)
From Verif Require Import Lib.Bytes Lib.Utf8 Lib.HeaderMap.
From Verif Require Import Gen.StatusTables Gen.RichErrorTables Model.Status Model.ProtoWire Model.RichError.
From Verif Require Import Proofs.Status Proofs.ProtoWire Proofs.RichError.
Open Scope N_scope.

(* ---- attached as a set ------------------------------------------------------------------- *)
(* any combination of the ten kinds, any field values: after the status has been written to a
   header map and read back, check/get_error_details return the very same set, read as a list the
   details come in the fixed order of the fields, and each get_details_* returns its field *)
Theorem c20_details_set_roundtrip : forall code message ed md,
  is_code code = true -> utf8_valid message = true -> bytes_ok message = true ->
  ed_ok ed -> fits_c code message (pushed ed) ->
  hm_get_all md hdr_grpc_status_details = [] ->
  exists st m st',
    with_error_details_c code message ed md = Ok st /\
    to_header_map st = Some m /\ from_header_map m = Some st' /\
    st_code st' = code /\ st_msg st' = message /\
    check_error_details_c st' = Ok ed /\ get_error_details_c st' = Ok ed /\
    check_error_details_vec_c st' = Ok (pushed ed) /\ get_error_details_vec_c st' = Ok (pushed ed) /\
    forall k, get_details_c k st' = Ok (ed_get k ed).
Proof. exact details_set_roundtrip. Qed.

(* ---- attached as an ordered list ----------------------------------------------------------- *)
(* any list (kinds may repeat): the same list comes back - same kinds, order and field values;
   the set view holds the last detail of each kind, get_details_* the first *)
Theorem c20_details_vec_roundtrip : forall code message ds md,
  is_code code = true -> utf8_valid message = true -> bytes_ok message = true ->
  Forall detail_ok ds -> fits_c code message ds ->
  hm_get_all md hdr_grpc_status_details = [] ->
  exists st m st',
    with_error_details_vec_c code message ds md = Ok st /\
    to_header_map st = Some m /\ from_header_map m = Some st' /\
    st_code st' = code /\ st_msg st' = message /\
    check_error_details_vec_c st' = Ok ds /\ get_error_details_vec_c st' = Ok ds /\
    check_error_details_c st' = Ok (last_wins ds) /\ get_error_details_c st' = Ok (last_wins ds) /\
    forall k, get_details_c k st' = Ok (first_of_kind k ds).
Proof. exact details_vec_roundtrip. Qed.

(* ---- the embedded google.rpc.Status -------------------------------------------------------- *)
Theorem c20_embedded_status_matches_outer : forall code message ds md,
  is_code code = true -> utf8_valid message = true -> bytes_ok message = true ->
  Forall detail_ok ds -> fits_c code message ds ->
  hm_get_all md hdr_grpc_status_details = [] ->
  exists st m st' ps,
    with_error_details_vec_c code message ds md = Ok st /\
    to_header_map st = Some m /\ from_header_map m = Some st' /\
    dec_status_c (st_details st') = Ok ps /\
    ps_code ps = Z.of_N (st_code st') /\ ps_message ps = st_msg st' /\
    map fst (ps_details ps) = map (fun d => type_url (kind_of d)) ds.
Proof. exact embedded_status_matches_outer. Qed.

(* ---- the user metadata ---------------------------------------------------------------------- *)
(* what is given to with_error_details[_vec]_and_metadata stays on the status and, after the header
   encoding, arrives per name with its values in order - except the names gRPC reserves *)
Theorem c20_metadata_kept : forall code message ds md,
  is_code code = true -> utf8_valid message = true -> bytes_ok message = true ->
  Forall detail_ok ds -> fits_c code message ds ->
  hm_get_all md hdr_grpc_status_details = [] ->
  exists st m st',
    with_error_details_vec_c code message ds md = Ok st /\ st_md st = md /\
    to_header_map st = Some m /\ from_header_map m = Some st' /\
    forall k, hm_get_all (st_md st') k =
              if existsb (fun k' => bytes_eqb k' k) reserved_headers then [] else hm_get_all md k.
Proof. exact metadata_kept. Qed.
(* ... and the set form is by definition the list form of the details it pushes *)
Theorem c20_set_is_vec_of_pushed : forall code message ed md,
  with_error_details_c code message ed md = with_error_details_vec_c code message (pushed ed) md.
Proof. exact with_error_details_is_vec. Qed.

(* ---- decode side: arbitrary bytes as details ------------------------------------------------ *)
(* for EVERY status (any details bytes whatsoever): no getter panics; check_* say Ok or Err; get_*
   say the same value or the empty one; get_details_* say None when the status is undecodable *)
Theorem c20_decode_total : forall st,
  good (check_error_details_c st) /\
  good (check_error_details_vec_c st) /\
  (exists ed, get_error_details_c st = Ok ed /\
              (check_error_details_c st = Ok ed \/ check_error_details_c st = Err /\ ed = ed_empty)) /\
  (exists l, get_error_details_vec_c st = Ok l /\
             (check_error_details_vec_c st = Ok l \/ check_error_details_vec_c st = Err /\ l = [])) /\
  (forall k, exists o, get_details_c k st = Ok o /\ (dec_status_c (st_details st) = Err -> o = None)).
Proof. exact decode_total. Qed.

(* the same for whatever status comes out of arbitrary headers *)
Theorem c20_decode_total_from_headers : forall m,
  match from_header_map m with
  | None => True
  | Some st =>
      good (check_error_details_c st) /\ good (check_error_details_vec_c st) /\
      (exists ed, get_error_details_c st = Ok ed) /\ (exists l, get_error_details_vec_c st = Ok l) /\
      (forall k, exists o, get_details_c k st = Ok o)
  end.
Proof. exact decode_total_from_headers. Qed.

(* the panic sites on the decode path are dead: Duration::normalize never reaches its
   debug_asserts on an (i64, i32) pair, and yields a normal value (so Duration::new cannot overflow) *)
Theorem c20_normalize_never_panics : forall p, pbdur_in_range p ->
  exists q, normalize p = Ok q /\ (I64_MIN <= pd_seconds q <= I64_MAX)%Z /\
            (- NANOS_PER_SECOND < pd_nanos q < NANOS_PER_SECOND)%Z /\
            ((pd_seconds q < 0 -> pd_nanos q <= 0) /\ (pd_seconds q > 0 -> pd_nanos q >= 0))%Z.
Proof. exact normalize_ok. Qed.

(* encode side: the unwrap of gen_details_bytes is dead for details that fit in memory *)
Theorem c20_attach_never_panics : forall code message ds md,
  is_code code = true -> utf8_valid message = true -> bytes_ok message = true ->
  Forall detail_ok ds -> fits_c code message ds ->
  exists st, with_error_details_vec_c code message ds md = Ok st.
Proof. exact attach_never_panics. Qed.

(* ---- layer B: the protobuf wire model ------------------------------------------------------- *)
Theorem c20_varint_roundtrip : forall v rest, v < U64 -> decode_varint (encode_varint v ++ rest) = Some (v, rest).
Proof. exact decode_encode_varint. Qed.

(* what is serialised is parsed back token for token (any recursion budget, any set of map tags) *)
Theorem c20_wire_roundtrip : forall c lenient fs,
  Forall (shape_ok lenient) fs -> nlen (ser fs) < U64 -> parse c lenient (ser fs) = Ok fs.
Proof. exact parse_ser. Qed.

(* parsing arbitrary bytes ends with Ok or Err (no fuel exhaustion, whatever the nesting of groups) *)
Theorem c20_wire_parse_total : forall c lenient buf, good (parse c lenient buf).
Proof. exact parse_good. Qed.

(* the hypotheses layer A makes about the codecs, discharged *)
Theorem c20_payload_roundtrip : forall d, detail_ok d ->
  exists b, enc_detail_c d = Ok b /\ bytes_ok b = true /\ (nlen b < U64 -> dec_detail_c (kind_of d) b = Ok d).
Proof. exact detail_rt_c. Qed.

Theorem c20_envelope_roundtrip : forall ps, pb_ok ps -> nlen (enc_status_c ps) < U64 ->
  dec_status_c (enc_status_c ps) = Ok ps.
Proof. exact status_rt_c. Qed.

(* ---- durations ----------------------------------------------------------------------------- *)
(* the protobuf range (0 .. 315,576,000,000 s) is inside what round-trips *)
Theorem c20_protobuf_range : forall d, d_secs d <= 315576000000 -> d_nanos d < 1000000000 -> dur_ok d.
Proof. exact protobuf_range_dur_ok. Qed.

(* how RetryInfo::new clamps: up to MAX_RETRY_DELAY unchanged, above it MAX_RETRY_DELAY *)
Theorem c20_retry_info_new : forall d,
  retry_info_new (Some d) = mkRetryInfo (Some (if dur_gtb d MAX_RETRY_DELAY then MAX_RETRY_DELAY else d)).
Proof. exact retry_info_new_spec. Qed.
Theorem c20_retry_info_new_keeps_range : forall d, d_secs d <= 315576000000 -> d_nanos d < 1000000000 ->
  retry_info_new (Some d) = mkRetryInfo (Some d).
Proof. exact retry_info_new_keeps. Qed.
(* so every RetryInfo inside an ErrorDetails (they are all built by RetryInfo::new) round-trips *)
Theorem c20_retry_info_new_ok : forall o, (forall d, o = Some d -> d_nanos d < 1000000000) ->
  detail_ok (DRetryInfo (retry_info_new o)).
Proof. exact retry_info_new_ok. Qed.
(* a literal RetryInfo with more than i64::MAX seconds is written as the maximum instead *)
Theorem c20_retry_delay_fallback : forall d, U63 <= d_secs d ->
  pb_retry_delay d = Ok (mkPbDur (Z.of_N fallback_delay_secs) (Z.of_N fallback_delay_nanos)).
Proof. exact pb_retry_delay_fallback. Qed.

(* ---- non-vacuity --------------------------------------------------------------------------- *)
Definition ex_ed : error_details :=
  mkED (Some (retry_info_new (Some (mkDur 5 999999999))))
       (Some (mkDebugInfo [[116; 49]; []; [195; 169]] [100]))
       (Some (mkQuotaFailure [mkQuotaViolation [115] []; mkQuotaViolation [] [226; 130; 172]]))
       (Some (mkErrorInfo [82] [100; 46; 120] [([107], [118]); ([], []); ([240; 159; 152; 128], [49])]))
       (Some (mkPreconditionFailure [mkPreconditionViolation [84] [115] [100]]))
       (Some (mkBadRequest [mkFieldViolation [102] [0]]))
       (Some (mkRequestInfo [105; 100] []))
       (Some (mkResourceInfo [116] [110] [] [100]))
       (Some (mkHelp [mkHelpLink [100] [117]; mkHelpLink [] []]))
       (Some (mkLocalizedMessage [101; 110] [104; 105])).

Example c20_set_premises_hold :
  is_code 3 = true /\ utf8_valid [109; 195; 169] = true /\ bytes_ok [109; 195; 169] = true /\
  ed_ok ex_ed /\ fits_c 3 [109; 195; 169] (pushed ex_ed) /\
  hm_get_all [([120; 45; 97], [118])] hdr_grpc_status_details = [].
Proof.
  split; [reflexivity|]. split; [reflexivity|]. split; [reflexivity|]. split; [|split; [|reflexivity]].
  - unfold ed_ok. cbn [pushed ex_ed opt_list app ed_retry_info ed_debug_info ed_quota_failure ed_error_info
      ed_precondition_failure ed_bad_request ed_request_info ed_resource_info ed_help ed_localized_message].
    repeat constructor; try reflexivity; cbn; try (intuition discriminate); try lia.
  - intros b H. vm_compute in H. injection H as <-. vm_compute. discriminate.
Qed.

(* and the set really is recovered (the theorem instantiated, evaluated) *)
Example c20_set_roundtrip_evaluated :
  exists st m st',
    with_error_details_c 3 [109; 195; 169] ex_ed [] = Ok st /\ to_header_map st = Some m /\
    from_header_map m = Some st' /\ check_error_details_c st' = Ok ex_ed.
Proof.
  eexists. eexists. eexists.
  split; [vm_compute; reflexivity|]. split; [vm_compute; reflexivity|].
  split; [vm_compute; reflexivity|]. vm_compute; reflexivity.
Qed.

(* the finding fixed by 8e72956b, on the model of the fixed code: a RetryInfo whose delay is
   i64::MIN seconds decodes to a zero delay *)
Example c20_retry_i64_min_is_zero :
  std_of_pb (mkPbDur I64_MIN 0) = Ok (mkDur 0 0).
Proof. reflexivity. Qed.

(* the ten TYPE_URLs are pairwise different: the URL of a kind selects the arm of that kind *)
Theorem c20_type_urls_distinct : forall k, kind_of_url (type_url k) = Some k.
Proof. exact kind_of_url_type_url. Qed.

Print Assumptions c20_details_set_roundtrip.
Print Assumptions c20_details_vec_roundtrip.
Print Assumptions c20_embedded_status_matches_outer.
Print Assumptions c20_metadata_kept.
Print Assumptions c20_decode_total.
Print Assumptions c20_wire_roundtrip.
Print Assumptions c20_payload_roundtrip.

(* the shapes of the source the model was written against, regenerated by rs2v on every run:
   variant order of ErrorDetail, push order of with_error_details_and_metadata, the arms of
   check_error_details[_vec] and the getters, field tags and kinds of every prost message,
   the RetryInfo constants *)
From Coq Require Import String.
Theorem c20_source_as_modelled :
  error_detail_variants = ["RetryInfo"; "DebugInfo"; "QuotaFailure"; "ErrorInfo"; "PreconditionFailure"; "BadRequest";
                           "RequestInfo"; "ResourceInfo"; "Help"; "LocalizedMessage"]%string /\
  push_order = ["retry_info"; "debug_info"; "quota_failure"; "error_info"; "precondition_failure"; "bad_request";
                "request_info"; "resource_info"; "help"; "localized_message"]%string /\
  vec_push_variants = error_detail_variants /\
  check_vec_arms = error_detail_variants /\
  map fst check_set_arms = error_detail_variants /\ map snd check_set_arms = push_order /\
  map snd getter_types = error_detail_variants /\ map fst getter_types = push_order /\
  google_rpc_message_count = 15 /\
  fields_Status = [("code", tag_Status_code, P_int32); ("message", tag_Status_message, P_string);
                   ("details", tag_Status_details, P_msg_rep "prost_types::Any")]%string /\
  fields_Any = [("type_url", tag_Any_type_url, P_string); ("value", tag_Any_value, P_bytes)]%string /\
  fields_Duration = [("seconds", tag_Duration_seconds, P_int64); ("nanos", tag_Duration_nanos, P_int32)]%string /\
  fields_RetryInfo = [("retry_delay", tag_RetryInfo_retry_delay, P_msg_opt "prost_types::Duration")]%string /\
  fields_DebugInfo = [("stack_entries", tag_DebugInfo_stack_entries, P_string_rep); ("detail", tag_DebugInfo_detail, P_string)]%string /\
  fields_QuotaFailure = [("violations", tag_QuotaFailure_violations, P_msg_rep "quota_failure::Violation")]%string /\
  map snd fields_quota_failure_Violation = [P_string; P_string] /\ map (fun x => snd (fst x)) fields_quota_failure_Violation = QV_TAGS /\
  fields_ErrorInfo = [("reason", tag_ErrorInfo_reason, P_string); ("domain", tag_ErrorInfo_domain, P_string);
                      ("metadata", tag_ErrorInfo_metadata, P_map_string_string)]%string /\
  fields_PreconditionFailure = [("violations", tag_PreconditionFailure_violations, P_msg_rep "precondition_failure::Violation")]%string /\
  map snd fields_precondition_failure_Violation = [P_string; P_string; P_string] /\
  map (fun x => snd (fst x)) fields_precondition_failure_Violation = PV_TAGS /\
  fields_BadRequest = [("field_violations", tag_BadRequest_field_violations, P_msg_rep "bad_request::FieldViolation")]%string /\
  map snd fields_bad_request_FieldViolation = [P_string; P_string] /\ map (fun x => snd (fst x)) fields_bad_request_FieldViolation = FV_TAGS /\
  map snd fields_RequestInfo = [P_string; P_string] /\ map (fun x => snd (fst x)) fields_RequestInfo = RQ_TAGS /\
  map snd fields_ResourceInfo = [P_string; P_string; P_string; P_string] /\ map (fun x => snd (fst x)) fields_ResourceInfo = RS_TAGS /\
  fields_Help = [("links", tag_Help_links, P_msg_rep "help::Link")]%string /\
  map snd fields_help_Link = [P_string; P_string] /\ map (fun x => snd (fst x)) fields_help_Link = HL_TAGS /\
  map snd fields_LocalizedMessage = [P_string; P_string] /\ map (fun x => snd (fst x)) fields_LocalizedMessage = LM_TAGS /\
  (max_retry_delay_secs, max_retry_delay_nanos) = (315576000000, 999999999) /\
  (fallback_delay_secs, fallback_delay_nanos) = (315576000000, 999999999).
Proof. exact source_as_modelled. Qed.
Print Assumptions c20_source_as_modelled.
