(* C20 - Rich error details round-trip through a status.
   Statements only: each theorem is closed by [exact] of a lemma proved in Proofs/RichError.v or
   Proofs/ProtoWire.v.

   Reading guide.  [error_details] / [error_detail] are tonic-types' ErrorDetails / ErrorDetail;
   [with_error_details_c], [with_error_details_vec_c], [check_error_details_c],
   [get_error_details_c], [check_error_details_vec_c], [get_error_details_vec_c],
   [get_details_c k] model the functions of StatusExt.  The protobuf codec underneath is the
   table-driven one of Model/ProtoWire.v ([enc_g] / [dec_g]: what prost-derive generates from a
   table of (field name, tag, kind)), instantiated with the tables that rs2v regenerates from the
   `#[prost(..)]` attributes of google_rpc.rs and prost-types on every run; [to_header_map] /
   [from_header_map] are C04's model of Status::add_header / Status::from_header_map.
   These are the functions the correspondence run evaluates ([obs_set], [obs_vec], [obs_hostile],
   [obs_built] are observables of exactly them, [obs_decode_spec]).
   A result is [Ok _], [Err], [Panic] (an unwrap / expect / debug_assert / overflow site was
   reached) or [Fuel] (model artefact); [good r] says r is Ok or Err.
   [detail_ok d]: the strings of d are UTF-8 byte strings (they are Rust Strings), the keys of an
   ErrorInfo metadata map are distinct (it is a HashMap; the list order is the map's iteration
   order, any order), a RetryInfo delay has less than 2^63 seconds and less than 10^9
   nanoseconds - this includes the whole protobuf range [c20_protobuf_range].
   [fits_c code msg ds]: the encoded google.rpc.Status is at most usize::MAX bytes long.
   The round trips hold for EVERY user metadata: since fix ed827503 (finding F-C04e) a
   grpc-status-details-bin entry of the caller's own never matters - with something attached it is
   replaced by the attached details, with nothing at all attached (empty details bytes) the header
   is removed ([c20_own_details_entry_dropped]); before the fix the premise "no such entry, or
   something attached" was needed. *)
From Verif Require Import Lib.Bytes Lib.Base64 Lib.Utf8 Lib.HeaderMap.
From Verif Require Import Gen.StatusTables Gen.RichErrorTables Model.Status Model.ProtoWire Model.RichError.
From Verif Require Import Proofs.Status Proofs.ProtoWire Proofs.RichError.
Open Scope N_scope.

(* ---- attached as a set ------------------------------------------------------------------- *)
(* any combination of the ten kinds, any field values: after the status has been written to a
   header map and read back, check/get_error_details return the very same set, read as a list the
   details come in the fixed order of the fields, and each get_details_* returns its field *)
Theorem c20_details_set_roundtrip : forall code message ed md,
  is_code code = true -> utf8_valid message = true -> bytes_ok message = true ->
  ed_ok ed -> fits_c code message (pushed ed) ->
  exists st m st',
    with_error_details_c code message ed md = Ok st /\
    to_header_map st = Some m /\ from_header_map m = Some st' /\
    st_code st' = code /\ st_msg st' = message /\
    check_error_details_c st' = Ok ed /\ get_error_details_c st' = Ok ed /\
    check_error_details_vec_c st' = Ok (pushed ed) /\ get_error_details_vec_c st' = Ok (pushed ed) /\
    forall k, get_details_c k st' = Ok (ed_get k ed).
Proof. exact details_set_roundtrip. Qed.

(* ---- attached as an ordered list ----------------------------------------------------------- *)
(* any list (kinds may repeat): the same list comes back - same kinds, order and field values;
   the set view holds the last detail of each kind, get_details_* the first *)
Theorem c20_details_vec_roundtrip : forall code message ds md,
  is_code code = true -> utf8_valid message = true -> bytes_ok message = true ->
  Forall detail_ok ds -> fits_c code message ds ->
  exists st m st',
    with_error_details_vec_c code message ds md = Ok st /\
    to_header_map st = Some m /\ from_header_map m = Some st' /\
    st_code st' = code /\ st_msg st' = message /\
    check_error_details_vec_c st' = Ok ds /\ get_error_details_vec_c st' = Ok ds /\
    check_error_details_c st' = Ok (last_wins ds) /\ get_error_details_c st' = Ok (last_wins ds) /\
    forall k, get_details_c k st' = Ok (first_of_kind k ds).
Proof. exact details_vec_roundtrip. Qed.

(* ---- the embedded google.rpc.Status -------------------------------------------------------- *)
Theorem c20_embedded_status_matches_outer : forall code message ds md,
  is_code code = true -> utf8_valid message = true -> bytes_ok message = true ->
  Forall detail_ok ds -> fits_c code message ds ->
  exists st m st' ps,
    with_error_details_vec_c code message ds md = Ok st /\
    to_header_map st = Some m /\ from_header_map m = Some st' /\
    dec_status_c (st_details st') = Ok ps /\
    ps_code ps = Z.of_N (st_code st') /\ ps_message ps = st_msg st' /\
    map fst (ps_details ps) = map (fun d => type_url (kind_of d)) ds.
Proof. exact embedded_status_matches_outer. Qed.

(* ---- the user metadata ---------------------------------------------------------------------- *)
(* what is given to with_error_details[_vec]_and_metadata stays on the status and, after the header
   encoding, arrives per name with its values in order - except the names gRPC reserves and the
   name of the details header itself (an entry of that name is replaced by the attached details) *)
Theorem c20_metadata_kept : forall code message ds md,
  is_code code = true -> utf8_valid message = true -> bytes_ok message = true ->
  Forall detail_ok ds -> fits_c code message ds ->
  exists st m st',
    with_error_details_vec_c code message ds md = Ok st /\ st_md st = md /\
    to_header_map st = Some m /\ from_header_map m = Some st' /\
    forall k, hm_get_all (st_md st') k =
              if bytes_eqb k hdr_grpc_status_details || existsb (fun k' => bytes_eqb k' k) reserved_headers
              then [] else hm_get_all md k.
Proof. exact metadata_kept. Qed.
(* the set form (ten `if let Some(x) .. push`) attaches the list of the details it holds, in field order *)
Theorem c20_set_is_vec_of_pushed : forall code message ed md,
  with_error_details_c code message ed md = with_error_details_vec_c code message (pushed ed) md.
Proof. exact with_error_details_is_vec. Qed.

(* ... and whatever sequence of public builder calls (ErrorDetails::new / with_.., set_.., add_..;
   error_details/mod.rs) made the set, with well-formed arguments [bop_ok], it is recovered unchanged *)
Theorem c20_built_set_roundtrip : forall code message ops md,
  is_code code = true -> utf8_valid message = true -> bytes_ok message = true ->
  Forall bop_ok ops -> fits_c code message (pushed (ed_build ops)) ->
  exists st m st',
    with_error_details_c code message (ed_build ops) md = Ok st /\
    to_header_map st = Some m /\ from_header_map m = Some st' /\
    check_error_details_c st' = Ok (ed_build ops) /\ get_error_details_c st' = Ok (ed_build ops).
Proof. exact built_roundtrip. Qed.

(* The former observation F-C04e (fixed by commit ed827503), now inside the round trips above:
   nothing at all attached (code OK, no message, no details: the details bytes are empty) and a
   grpc-status-details-bin entry of the caller's own in the metadata - the written map has no
   details header, the status read back has NO details (before the fix: the first value of that
   entry, base64-decoded) and the entry itself is not delivered *)
Theorem c20_own_details_entry_dropped : forall md v rest,
  hm_get_all md hdr_grpc_status_details = v :: rest ->
  exists st m st',
    with_error_details_vec_c 0 [] [] md = Ok st /\ st_details st = [] /\
    to_header_map st = Some m /\ from_header_map m = Some st' /\
    hm_get_all m hdr_grpc_status_details = [] /\
    st_code st' = 0 /\ st_msg st' = [] /\ st_details st' = [] /\
    hm_get_all (st_md st') hdr_grpc_status_details = [].
Proof. exact own_details_entry_dropped. Qed.

(* ---- decode side: arbitrary bytes as details ------------------------------------------------ *)
(* for EVERY status (any details bytes whatsoever): no getter panics; check_* say Ok or Err; get_*
   say the same value or the empty one; get_details_* say None when the status is undecodable *)
Theorem c20_decode_total : forall st,
  good (check_error_details_c st) /\
  good (check_error_details_vec_c st) /\
  (exists ed, get_error_details_c st = Ok ed /\
              (check_error_details_c st = Ok ed \/ check_error_details_c st = Err /\ ed = ed_empty)) /\
  (exists l, get_error_details_vec_c st = Ok l /\
             (check_error_details_vec_c st = Ok l \/ check_error_details_vec_c st = Err /\ l = [])) /\
  (forall k, exists o, get_details_c k st = Ok o /\ (dec_status_c (st_details st) = Err -> o = None)).
Proof. exact decode_total. Qed.

(* the same for whatever status comes out of arbitrary headers *)
Theorem c20_decode_total_from_headers : forall m,
  match from_header_map m with
  | None => True
  | Some st =>
      good (check_error_details_c st) /\ good (check_error_details_vec_c st) /\
      (exists ed, get_error_details_c st = Ok ed) /\ (exists l, get_error_details_vec_c st = Ok l) /\
      (forall k, exists o, get_details_c k st = Ok o)
  end.
Proof. exact decode_total_from_headers. Qed.

(* the panic sites on the decode path are dead: Duration::normalize never reaches its
   debug_asserts on an (i64, i32) pair, and yields a normal value (so Duration::new cannot overflow) *)
Theorem c20_normalize_never_panics : forall p, pbdur_in_range p ->
  exists q, normalize p = Ok q /\ (I64_MIN <= pd_seconds q <= I64_MAX)%Z /\
            (- NANOS_PER_SECOND < pd_nanos q < NANOS_PER_SECOND)%Z /\
            ((pd_seconds q < 0 -> pd_nanos q <= 0) /\ (pd_seconds q > 0 -> pd_nanos q >= 0))%Z.
Proof. exact normalize_ok. Qed.

(* encode side: the unwrap of gen_details_bytes is dead for details that fit in memory *)
Theorem c20_attach_never_panics : forall code message ds md,
  is_code code = true -> utf8_valid message = true -> bytes_ok message = true ->
  Forall detail_ok ds -> fits_c code message ds ->
  exists st, with_error_details_vec_c code message ds md = Ok st.
Proof. exact attach_never_panics. Qed.

(* ---- layer B: the protobuf wire model ------------------------------------------------------- *)
Theorem c20_varint_roundtrip : forall v rest, v < U64 -> decode_varint (encode_varint v ++ rest) = Some (v, rest).
Proof. exact decode_encode_varint. Qed.

(* what is serialised is parsed back token for token (any recursion budget, any set of map tags) *)
Theorem c20_wire_roundtrip : forall c lenient fs,
  Forall (shape_ok lenient) fs -> nlen (ser fs) < U64 -> parse c lenient (ser fs) = Ok fs.
Proof. exact parse_ser. Qed.

(* parsing arbitrary bytes ends with Ok or Err (no fuel exhaustion, whatever the nesting of groups) *)
Theorem c20_wire_parse_total : forall c lenient buf, good (parse c lenient buf).
Proof. exact parse_good. Qed.

(* prost-derive's Message, for EVERY table of (name, tag, kind) with distinct tags in 1 .. 2^29-1 (what
   prost-derive insists on at compile time): what `encode` writes for a value of the table, `decode`
   reads back as that value; `decode` of arbitrary bytes is Ok or Err; what it returns has the types
   of the table *)
Theorem c20_message_roundtrip_any_table : forall s vs,
  schema_ok s -> vals_ok s vs -> nlen (enc_g s vs) < U64 -> dec_g s (enc_g s vs) = Ok vs.
Proof. exact dec_enc_g. Qed.
Theorem c20_message_decode_total_any_table : forall s b, good (dec_g s b).
Proof. exact dec_g_good. Qed.
Theorem c20_message_decode_typed_any_table : forall s b vs, dec_g s b = Ok vs -> vals_typed s vs.
Proof. exact dec_g_typed. Qed.
(* the tables regenerated from google_rpc.rs / prost-types are such tables, and the codec of the
   model is [enc_g] / [dec_g] of them: for Status, and for each of the ten detail messages *)
Theorem c20_regenerated_tables_ok :
  forallb (fun t => schema_okb (schema_of t) && nested_ok t) all_tables = true.
Proof. exact tables_ok. Qed.
Theorem c20_codecs_are_the_tables :
  S_Status = schema_of fields_Status /\ (forall k, S_of k = schema_of
    match k with
    | KRetryInfo => fields_RetryInfo | KDebugInfo => fields_DebugInfo | KQuotaFailure => fields_QuotaFailure
    | KErrorInfo => fields_ErrorInfo | KPreconditionFailure => fields_PreconditionFailure | KBadRequest => fields_BadRequest
    | KRequestInfo => fields_RequestInfo | KResourceInfo => fields_ResourceInfo | KHelp => fields_Help
    | KLocalizedMessage => fields_LocalizedMessage
    end).
Proof. exact schemas_are_the_tables. Qed.

(* the hypotheses layer A makes about the codecs, discharged *)
Theorem c20_payload_roundtrip : forall d, detail_ok d ->
  exists b, enc_detail_c d = Ok b /\ bytes_ok b = true /\ (nlen b < U64 -> dec_detail_c (kind_of d) b = Ok d).
Proof. exact detail_rt_c. Qed.

Theorem c20_envelope_roundtrip : forall ps, pb_ok ps -> nlen (enc_status_c ps) < U64 ->
  dec_status_c (enc_status_c ps) = Ok ps.
Proof. exact status_rt_c. Qed.

(* ---- durations ----------------------------------------------------------------------------- *)
(* the protobuf range (0 .. 315,576,000,000 s) is inside what round-trips *)
Theorem c20_protobuf_range : forall d, d_secs d <= 315576000000 -> d_nanos d < 1000000000 -> dur_ok d.
Proof. exact protobuf_range_dur_ok. Qed.

(* how RetryInfo::new clamps: the delay it stores is min(given, MAX_RETRY_DELAY) *)
Theorem c20_retry_info_new : forall d, d_nanos d < 1000000000 ->
  exists d', ri_retry_delay (retry_info_new (Some d)) = Some d' /\ d_nanos d' < 1000000000 /\
             dur_total d' = N.min (dur_total d) (dur_total MAX_RETRY_DELAY).
Proof. exact retry_info_new_spec. Qed.
Theorem c20_retry_info_new_keeps_range : forall d, d_secs d <= 315576000000 -> d_nanos d < 1000000000 ->
  retry_info_new (Some d) = mkRetryInfo (Some d).
Proof. exact retry_info_new_keeps. Qed.
(* so every RetryInfo inside an ErrorDetails (they are all built by RetryInfo::new) round-trips *)
Theorem c20_retry_info_new_ok : forall o, (forall d, o = Some d -> d_nanos d < 1000000000) ->
  detail_ok (DRetryInfo (retry_info_new o)).
Proof. exact retry_info_new_ok. Qed.
(* a literal RetryInfo with more than i64::MAX seconds is written as the maximum instead *)
Theorem c20_retry_delay_fallback : forall d, U63 <= d_secs d ->
  pb_retry_delay d = Ok (mkPbDur (Z.of_N fallback_delay_secs) (Z.of_N fallback_delay_nanos)).
Proof. exact pb_retry_delay_fallback. Qed.
(* ... and read back as that maximum (the one kind of RetryInfo value that does not round-trip; it is
   outside the protobuf range the property speaks of) *)
Theorem c20_retry_literal_beyond_i64 : forall d, U63 <= d_secs d ->
  exists b, enc_detail_c (DRetryInfo (mkRetryInfo (Some d))) = Ok b /\
            dec_detail_c KRetryInfo b = Ok (DRetryInfo (mkRetryInfo (Some (mkDur fallback_delay_secs fallback_delay_nanos)))).
Proof. exact retry_literal_beyond_i64. Qed.

(* ---- non-vacuity --------------------------------------------------------------------------- *)
Definition ex_ed : error_details :=
  mkED (Some (retry_info_new (Some (mkDur 5 999999999))))
       (Some (mkDebugInfo [[116; 49]; []; [195; 169]] [100]))
       (Some (mkQuotaFailure [mkQuotaViolation [115] []; mkQuotaViolation [] [226; 130; 172]]))
       (Some (mkErrorInfo [82] [100; 46; 120] [([107], [118]); ([], []); ([240; 159; 152; 128], [49])]))
       (Some (mkPreconditionFailure [mkPreconditionViolation [84] [115] [100]]))
       (Some (mkBadRequest [mkFieldViolation [102] [0]]))
       (Some (mkRequestInfo [105; 100] []))
       (Some (mkResourceInfo [116] [110] [] [100]))
       (Some (mkHelp [mkHelpLink [100] [117]; mkHelpLink [] []]))
       (Some (mkLocalizedMessage [101; 110] [104; 105])).

Example c20_set_premises_hold :
  is_code 3 = true /\ utf8_valid [109; 195; 169] = true /\ bytes_ok [109; 195; 169] = true /\
  ed_ok ex_ed /\ fits_c 3 [109; 195; 169] (pushed ex_ed) /\
  something_attached 3 [109; 195; 169] (pushed ex_ed).
Proof.
  split; [reflexivity|]. split; [reflexivity|]. split; [reflexivity|]. split; [|split; [|left; discriminate]].
  - unfold ed_ok. cbn [pushed ex_ed opt_list app ed_retry_info ed_debug_info ed_quota_failure ed_error_info
      ed_precondition_failure ed_bad_request ed_request_info ed_resource_info ed_help ed_localized_message].
    repeat constructor; try reflexivity; cbn; try (intuition discriminate); try lia.
  - intros b H. vm_compute in H. injection H as <-. vm_compute. discriminate.
Qed.

(* and the set really is recovered (the theorem instantiated, evaluated) *)
Example c20_set_roundtrip_evaluated :
  exists st m st',
    with_error_details_c 3 [109; 195; 169] ex_ed [] = Ok st /\ to_header_map st = Some m /\
    from_header_map m = Some st' /\ check_error_details_c st' = Ok ex_ed.
Proof.
  eexists. eexists. eexists.
  split; [vm_compute; reflexivity|]. split; [vm_compute; reflexivity|].
  split; [vm_compute; reflexivity|]. vm_compute; reflexivity.
Qed.

(* the finding fixed by 8e72956b, on the model of the fixed code: a RetryInfo whose delay is
   i64::MIN seconds decodes to a zero delay *)
Example c20_retry_i64_min_is_zero :
  std_of_pb (mkPbDur I64_MIN 0) = Ok (mkDur 0 0).
Proof. reflexivity. Qed.

(* the ten TYPE_URLs are pairwise different: the URL of a kind selects the arm of that kind *)
Theorem c20_type_urls_distinct : forall k, kind_of_url (type_url k) = Some k.
Proof. exact kind_of_url_type_url. Qed.

Print Assumptions c20_details_set_roundtrip.
Print Assumptions c20_details_vec_roundtrip.
Print Assumptions c20_embedded_status_matches_outer.
Print Assumptions c20_metadata_kept.
Print Assumptions c20_decode_total.
Print Assumptions c20_wire_roundtrip.
Print Assumptions c20_message_roundtrip_any_table.
Print Assumptions c20_own_details_entry_dropped.
Print Assumptions c20_payload_roundtrip.

(* the shapes of the source the model was written against, regenerated by rs2v on every run:
   variant order of ErrorDetail, push order of with_error_details_and_metadata, the arms of
   check_error_details[_vec] and the getters, the fields (name, kind) of every prost message - their
   TAGS are not pinned, the codec and its theorems are generic in them -, the RetryInfo constants *)
From Coq Require Import String.
Open Scope string_scope.
Theorem c20_source_as_modelled :
  error_detail_variants = ["RetryInfo"; "DebugInfo"; "QuotaFailure"; "ErrorInfo"; "PreconditionFailure"; "BadRequest";
                           "RequestInfo"; "ResourceInfo"; "Help"; "LocalizedMessage"] /\
  push_order = ["retry_info"; "debug_info"; "quota_failure"; "error_info"; "precondition_failure"; "bad_request";
                "request_info"; "resource_info"; "help"; "localized_message"] /\
  vec_push_variants = error_detail_variants /\
  check_vec_arms = error_detail_variants /\
  map fst check_set_arms = error_detail_variants /\ map snd check_set_arms = push_order /\
  map snd getter_types = error_detail_variants /\ map fst getter_types = push_order /\
  google_rpc_message_count = 15%N /\
  shape fields_Status = [("code", P_int32); ("message", P_string); ("details", P_msg_rep "prost_types::Any")] /\
  shape fields_Any = [("type_url", P_string); ("value", P_bytes)] /\
  shape fields_Duration = [("seconds", P_int64); ("nanos", P_int32)] /\
  shape fields_RetryInfo = [("retry_delay", P_msg_opt "prost_types::Duration")] /\
  shape fields_DebugInfo = [("stack_entries", P_string_rep); ("detail", P_string)] /\
  shape fields_QuotaFailure = [("violations", P_msg_rep "quota_failure::Violation")] /\
  shape fields_quota_failure_Violation = [("subject", P_string); ("description", P_string)] /\
  shape fields_ErrorInfo = [("reason", P_string); ("domain", P_string); ("metadata", P_map_string_string)] /\
  shape fields_PreconditionFailure = [("violations", P_msg_rep "precondition_failure::Violation")] /\
  shape fields_precondition_failure_Violation = [("type", P_string); ("subject", P_string); ("description", P_string)] /\
  shape fields_BadRequest = [("field_violations", P_msg_rep "bad_request::FieldViolation")] /\
  shape fields_bad_request_FieldViolation = [("field", P_string); ("description", P_string)] /\
  shape fields_RequestInfo = [("request_id", P_string); ("serving_data", P_string)] /\
  shape fields_ResourceInfo = [("resource_type", P_string); ("resource_name", P_string); ("owner", P_string);
                               ("description", P_string)] /\
  shape fields_Help = [("links", P_msg_rep "help::Link")] /\
  shape fields_help_Link = [("description", P_string); ("url", P_string)] /\
  shape fields_LocalizedMessage = [("locale", P_string); ("message", P_string)] /\
  (max_retry_delay_secs, max_retry_delay_nanos) = (315576000000, 999999999)%N /\
  (fallback_delay_secs, fallback_delay_nanos) = (315576000000, 999999999)%N.
Proof. exact source_as_modelled. Qed.
Print Assumptions c20_source_as_modelled.
