(* C08 - user metadata crosses the wire intact; protocol headers cannot be forged.
   Statements only: each theorem is closed by [exact] of a lemma proved in Proofs/Metadata.v.
   Header maps are compared name by name ([hm_get_all]: the values of one name, in order). *)
From Coq Require Import String.
From Verif Require Import Lib.Bytes Lib.Base64 Lib.Percent Lib.HeaderMap.
From Verif Require Import Gen.StatusTables Model.Status Proofs.Status Model.Metadata Proofs.Metadata.
Open Scope N_scope.

(* the regenerated GRPC_RESERVED_HEADERS is exactly the list of the property text *)
Theorem c08_reserved_list :
  reserved_headers =
  map bytes_of_string ["te"; "user-agent"; "content-type"; "grpc-message"; "grpc-message-type"; "grpc-status"]%string.
Proof. reflexivity. Qed.

(* ---- md_wire_roundtrip: one statement per emit path.
   Premises (M1): apart from the six reserved names the only user entries that do not arrive
   as sent are those under a protocol name tonic itself writes ON THAT PATH WITH THAT
   CONFIGURATION: grpc-encoding when a send / response encoding is in force, grpc-accept-encoding
   when the client accepts compressed responses, grpc-status-details-bin on every status path
   (with details it is replaced by them, without details it is REMOVED - fix ed827503 of finding
   F-C04e: before it such an entry stayed and was read back as the details of the status).
   They are replaced by tonic's value (the *_wire theorems say by what).  grpc-timeout
   and every other name are inside the statements. ---- *)

(* client request (client::Grpc -> Request::into_http(Sanitize::Yes) -> te, content-type,
   grpc-encoding / grpc-accept-encoding when compression is configured): the complete header map
   the peer receives, for every metadata map, name by name *)
Theorem c08_client_wire : forall send accept md k,
  hm_get_all (client_request_headers send accept md) k =
  if set_by hdr_grpc_accept_encoding accept k then opt_list accept
  else if set_by hdr_grpc_encoding send k then opt_list send
  else if bytes_eqb hdr_content_type k then [val_app_grpc]
  else if bytes_eqb hdr_te k then [val_trailers]
  else if is_reserved k then [] else hm_get_all md k.
Proof. exact client_wire. Qed.

Theorem c08_md_wire_roundtrip_client : forall send accept md k,
  is_reserved k = false ->
  (send = None \/ k <> hdr_grpc_encoding) -> (accept = None \/ k <> hdr_grpc_accept_encoding) ->
  hm_get_all (from_headers (client_request_headers send accept md)) k = hm_get_all md k.
Proof. exact client_roundtrip. Qed.

(* server response headers (Response::into_http -> content-type, grpc-encoding when negotiated) *)
Theorem c08_server_wire : forall encoding md k,
  hm_get_all (server_response_headers encoding md) k =
  if set_by hdr_grpc_encoding encoding k then opt_list encoding
  else if bytes_eqb hdr_content_type k then [val_app_grpc]
  else if is_reserved k then [] else hm_get_all md k.
Proof. exact server_wire. Qed.

Theorem c08_md_wire_roundtrip_server : forall encoding md k,
  is_reserved k = false -> (encoding = None \/ k <> hdr_grpc_encoding) ->
  hm_get_all (from_headers (server_response_headers encoding md)) k = hm_get_all md k.
Proof. exact server_roundtrip. Qed.

(* error statuses: Status::add_header onto any header map m0 (trailers: m0 = []; trailers-only
   response: m0 = {content-type}); the complete result, name by name *)
Theorem c08_status_wire : forall st m0,
  well_formed st ->
  exists h cv, add_header st m0 = Some h /\ code_to_hv (st_code st) = Some cv /\
  forall k, hm_get_all h k =
    if bytes_eqb hdr_grpc_status_details k then opt_list (details_value st)
    else if set_by hdr_grpc_message (msg_value st) k then opt_list (msg_value st)
    else if bytes_eqb hdr_grpc_status k then [cv]
    else match (if is_reserved k then [] else hm_get_all (st_md st) k) with
         | [] => hm_get_all m0 k
         | l => l
         end.
Proof. exact add_header_wire. Qed.

Theorem c08_md_wire_roundtrip_status : forall st m0,
  well_formed st ->
  exists h, add_header st m0 = Some h /\
  forall k, is_reserved k = false -> k <> hdr_grpc_status_details ->
    hm_get_all (from_headers h) k = match hm_get_all (st_md st) k with [] => hm_get_all m0 k | l => l end.
Proof. exact status_roundtrip_md. Qed.

(* ... and on the RECEIVING side: the peer reads those headers with Status::from_header_map (the
   client does so for a trailers-only response and for trailers after messages); the metadata of
   the status it gets holds every non-reserved user entry with the same values in the same
   order (repeated keys, ASCII or binary), the entries m0 had under other names (the content-type
   of a trailers-only response), and nothing under the three status header names.  Premise (M1):
   the name is not grpc-status-details-bin, which the receiver always reads as the details. *)
Theorem c08_status_metadata_received : forall st m0,
  well_formed st ->
  exists h st', add_header st m0 = Some h /\ status_received st m0 = Some st' /\
    from_header_map h = Some st' /\
    (forall k, is_reserved k = false -> k <> hdr_grpc_status_details ->
       hm_get_all (st_md st') k = match hm_get_all (st_md st) k with [] => hm_get_all m0 k | l => l end) /\
    (forall k, is_reserved k = true -> k <> hdr_grpc_status -> k <> hdr_grpc_message ->
       hm_get_all (st_md st') k = hm_get_all m0 k) /\
    hm_get_all (st_md st') hdr_grpc_status = [] /\ hm_get_all (st_md st') hdr_grpc_message = [] /\
    hm_get_all (st_md st') hdr_grpc_status_details = [].
Proof. exact status_metadata_received. Qed.

(* the details the peer reads are the status's own for EVERY custom metadata and base map - an
   entry named grpc-status-details-bin among them is neither delivered nor read as the details
   (F-C04e, fixed by commit ed827503), with empty and with non-empty details *)
Theorem c08_status_details_received : forall st m0,
  well_formed st ->
  exists h st', add_header st m0 = Some h /\ from_header_map h = Some st' /\
    st_details st' = st_details st.
Proof. exact status_details_received. Qed.

(* Status::into_http (trailers-only response) never reaches its unwrap and is add_header onto
   {content-type: application/grpc} *)
Theorem c08_status_into_http_total : forall st,
  well_formed st -> exists h, status_into_http_headers st = Val h /\ add_header st ct_only = Some h.
Proof. exact status_into_http_total. Qed.

(* ---- reserved_never_emitted ---- *)
Theorem c08_reserved_never_emitted_client : forall send accept md k,
  is_reserved k = true -> hm_get_all (client_request_headers send accept md) k = client_own k.
Proof. exact client_reserved. Qed.

Theorem c08_reserved_never_emitted_server : forall encoding md k,
  is_reserved k = true -> hm_get_all (server_response_headers encoding md) k = server_own k.
Proof. exact server_reserved. Qed.

Theorem c08_reserved_never_emitted_status : forall st m0,
  well_formed st ->
  exists h cv, add_header st m0 = Some h /\ code_to_hv (st_code st) = Some cv /\
  forall k, is_reserved k = true -> hm_get_all h k = status_own st cv m0 k.
Proof. exact status_reserved. Qed.

(* ---- bin_value_roundtrip: all byte strings, every length ---- *)
Theorem c08_bin_value_roundtrip : forall b,
  bytes_ok b = true ->
  bin_from_bytes b = Val (enc false b) /\
  bin_decode (enc false b) = Some b /\ bin_decode (enc true b) = Some b /\
  forallb is_b64_char (enc false b) = true /\ hv_ok (enc true b) = true.
Proof. exact bin_value_roundtrip. Qed.

Theorem c08_bin_values_roundtrip : forall pad bs,
  forallb bytes_ok bs = true -> map bin_decode (map (enc pad) bs) = map Some bs.
Proof. exact bin_values_roundtrip. Qed.

Theorem c08_bin_values_equal_pad : forall b,
  bytes_ok b = true -> bin_values_equal (enc false b) (enc true b) = true /\ bin_equals (enc true b) b = true.
Proof. exact bin_values_equal_pad. Qed.

(* ---- accessor_typing: all maps, all key strings (any case, valid or not) ---- *)
Theorem c08_accessor_typing_none : forall m raw,
  (bin_suffix raw = true -> get m raw = None /\ get_all m raw = [] /\ remove m raw = m) /\
  (bin_suffix raw = false -> get_bin m raw = None /\ get_all_bin m raw = [] /\ remove_bin m raw = m).
Proof. exact accessor_typing_none. Qed.

Theorem c08_accessor_typing_some : forall m raw v,
  (get m raw = Some v \/ In v (get_all m raw) ->
     exists k, hn_norm raw = Some k /\ bin_suffix k = false /\ In (k, v) m) /\
  (get_bin m raw = Some v \/ In v (get_all_bin m raw) ->
     exists k, hn_norm raw = Some k /\ bin_suffix k = true /\ In (k, v) m).
Proof. exact accessor_typing_some. Qed.

Theorem c08_accessor_complete : forall m raw k,
  hn_norm raw = Some k ->
  (bin_suffix k = false -> get m raw = hm_get m k /\ get_all m raw = hm_get_all m k) /\
  (bin_suffix k = true -> get_bin m raw = hm_get m k /\ get_all_bin m raw = hm_get_all m k).
Proof. exact accessor_complete. Qed.

Theorem c08_iter_typing : forall m,
  map snd (iter m) = m /\
  (forall t e, In (t, e) (iter m) -> t = bin_suffix (fst e)) /\
  (forall k, hm_get_all (iter_ascii m) k = if bin_suffix k then [] else hm_get_all m k) /\
  (forall k, hm_get_all (iter_bin m) k = if bin_suffix k then hm_get_all m k else []).
Proof. exact iter_typing. Qed.

Theorem c08_key_typing : forall bin raw k,
  mk_key bin raw = Some k -> hn_norm raw = Some k /\ bin_suffix k = bin.
Proof. exact mk_key_typing. Qed.

Theorem c08_insert_append : forall m n v k,
  hm_get_all (insert m n v) k = (if bytes_eqb n k then [v] else hm_get_all m k) /\
  hm_get_all (append m n v) k = (hm_get_all m k ++ (if bytes_eqb n k then [v] else []))%list.
Proof. exact insert_append_spec. Qed.

(* keys / values / values_mut / iter_mut: every name resp. entry exactly once, tagged by suffix *)
Theorem c08_keys_typing : forall m,
  NoDup (map snd (keys m)) /\
  (forall k, In k (map snd (keys m)) <-> hm_contains m k = true) /\
  (forall t k, In (t, k) (keys m) -> t = bin_suffix k).
Proof. exact keys_typing. Qed.

Theorem c08_values_typing : forall m,
  values m = map (fun e => (bin_suffix (fst e), snd e)) m /\
  values_mut m = values m /\ iter_mut m = iter m /\
  map snd (values m) = map snd m.
Proof. exact values_typing. Qed.

Theorem c08_mut_apply : forall f m k,
  hm_get_all (values_mut_apply f m) k = map (f (bin_suffix k)) (hm_get_all m k) /\
  hm_get_all (iter_mut_apply f m) k = map (f (bin_suffix k)) (hm_get_all m k).
Proof. exact mut_apply_spec. Qed.

Theorem c08_get_mut_typing : forall m raw v,
  get_mut m raw = get m raw /\ get_bin_mut m raw = get_bin m raw /\
  (bin_suffix raw = true -> get_mut_set m raw v = m) /\
  (bin_suffix raw = false -> get_bin_mut_set m raw v = m) /\
  (forall k k', hn_norm raw = Some k -> bin_suffix k = false ->
     hm_get_all (get_mut_set m raw v) k' =
     if bytes_eqb k k' then match hm_get_all m k with [] => [] | _ :: t => v :: t end else hm_get_all m k') /\
  (forall k k', hn_norm raw = Some k -> bin_suffix k = true ->
     hm_get_all (get_bin_mut_set m raw v) k' =
     if bytes_eqb k k' then match hm_get_all m k with [] => [] | _ :: t => v :: t end else hm_get_all m k').
Proof. exact get_mut_typing. Qed.

(* Entry API: a handle of encoding [bin] exists only on a name whose suffix is [bin] *)
Theorem c08_entry_typing : forall bin m raw,
  (bin_suffix raw = negb bin -> entry_str bin m raw = None) /\
  (forall e, entry_str bin m raw = Some e ->
     entry_bin_of e = bin /\ hn_norm raw = Some (entry_key e) /\ bin_suffix (entry_key e) = bin /\
     match e with Occupied _ k => hm_contains m k = true | Vacant _ k => hm_contains m k = false end).
Proof. exact entry_typing. Qed.

(* VacantEntry::insert_entry keeps the encoding of the handle (F-C08b) *)
Theorem c08_insert_entry_typing : forall bin m k v,
  let '(m', e) := vacant_insert_entry bin m k v in
  entry_bin_of e = bin /\ entry_key e = k /\
  (forall k', hm_get_all m' k' = (hm_get_all m k' ++ (if bytes_eqb k k' then [v] else []))%list).
Proof. exact insert_entry_typing. Qed.

Theorem c08_occ_values_typed : forall m k v w,
  (occ_get m k = Some v \/ In v (occ_iter m k) \/
   snd (occ_insert m k w) = Some v \/
   (exists m' olds, occ_insert_mult m k w = Val (m', olds) /\ In v olds) \/
   snd (occ_remove m k) = Some v \/ In v (snd (snd (occ_remove_entry_mult m k)))) ->
  In (k, v) m.
Proof. exact occ_values_typed. Qed.

(* OccupiedEntry::insert_mult panics (inside crate http 1.5.0) exactly when the name has three
   or more values; otherwise it replaces them and returns the old ones *)
Theorem c08_insert_mult : forall m k v,
  (occ_insert_mult m k v = Panic <-> (3 <= List.length (hm_get_all m k))%nat) /\
  (forall m' olds, occ_insert_mult m k v = Val (m', olds) ->
     olds = hm_get_all m k /\
     forall k', hm_get_all m' k' = (if bytes_eqb k k' then [v] else hm_get_all m k')).
Proof. exact insert_mult_spec. Qed.

Theorem c08_entry_ops : forall m k v k',
  hm_get_all (vacant_insert m k v) k' = (hm_get_all m k' ++ (if bytes_eqb k k' then [v] else []))%list /\
  hm_get_all (fst (occ_insert m k v)) k' = (if bytes_eqb k k' then [v] else hm_get_all m k') /\
  hm_get_all (occ_append m k v) k' = (hm_get_all m k' ++ (if bytes_eqb k k' then [v] else []))%list /\
  hm_get_all (fst (occ_remove m k)) k' = (if bytes_eqb k k' then [] else hm_get_all m k') /\
  hm_get_all (fst (occ_remove_entry_mult m k)) k' = (if bytes_eqb k k' then [] else hm_get_all m k').
Proof. exact entry_ops_spec. Qed.

(* binary values end to end: append_bin(key, from_bytes(b_i)) -> client request / server
   response -> the peer's get_all_bin (key in any case) -> to_bytes = the b_i, in order *)
Theorem c08_binary_end_to_end : forall raw_s raw_r k bs md0,
  mk_key true raw_s = Some k -> hn_norm raw_r = Some k ->
  forallb bytes_ok bs = true -> hm_get_all md0 k = [] ->
  let md := fold_left (fun m b => append m k (enc false b)) bs md0 in
  (forall send accept, (send = None \/ k <> hdr_grpc_encoding) -> (accept = None \/ k <> hdr_grpc_accept_encoding) ->
     map bin_decode (get_all_bin (from_headers (client_request_headers send accept md)) raw_r) = map Some bs) /\
  (forall encoding, (encoding = None \/ k <> hdr_grpc_encoding) ->
     map bin_decode (get_all_bin (from_headers (server_response_headers encoding md)) raw_r) = map Some bs).
Proof. exact binary_end_to_end. Qed.

(* ... and from a peer that pads each value or not as it likes *)
Theorem c08_binary_from_peer : forall raw k (pbs : list (bool * list N)) h,
  hn_norm raw = Some k -> bin_suffix k = true ->
  forallb (fun pb => bytes_ok (snd pb)) pbs = true ->
  hm_get_all h k = map (fun pb => enc (fst pb) (snd pb)) pbs ->
  map bin_decode (get_all_bin (from_headers h) raw) = map (fun pb => Some (snd pb)) pbs.
Proof. exact binary_from_peer. Qed.

(* ---- literal keys and values (from_static, &'static str keys) ---- *)
Theorem c08_static_key_typing : forall bin raw,
  (forall k, mk_key_static bin raw = Val k -> k = raw /\ bin_suffix k = bin /\ hn_static_ok raw = true) /\
  (mk_key_static bin raw = Panic <-> hn_static_ok raw = false \/ bin_suffix raw = negb bin).
Proof. exact mk_key_static_spec. Qed.

Theorem c08_static_key_is_from_bytes : forall bin raw k,
  mk_key_static bin raw = Val k -> existsb (N.eqb 34) raw = false -> mk_key bin raw = Some k.
Proof. exact static_key_is_from_bytes. Qed.

Theorem c08_static_binary_value : forall v,
  (forall v', bin_from_static v = Val v' -> v' = v /\ exists b, bin_decode v' = Some b) /\
  (bin_from_static v = Panic <-> bin_decode v = None) /\
  (forall pad b, bytes_ok b = true ->
     bin_from_static (enc pad b) = Val (enc pad b) /\ bin_decode (enc pad b) = Some b).
Proof. exact bin_from_static_spec. Qed.

Theorem c08_static_ascii_value : forall v,
  (forall v', ascii_from_static v = Val v' -> v' = v /\ ascii_from_bytes v = Some v) /\
  (ascii_from_static v = Panic <-> forallb hv_static_byte v = false).
Proof. exact ascii_from_static_spec. Qed.

Theorem c08_static_insert : forall bin m raw v,
  (forall m', insert_static bin m raw v = Val m' ->
     bin_suffix raw = bin /\ forall k, hm_get_all m' k = if bytes_eqb raw k then [v] else hm_get_all m k) /\
  (forall m', append_static bin m raw v = Val m' ->
     bin_suffix raw = bin /\ forall k, hm_get_all m' k = (hm_get_all m k ++ (if bytes_eqb raw k then [v] else []))%list) /\
  (insert_static bin m raw v = Panic <-> mk_key_static bin raw = Panic) /\
  (append_static bin m raw v = Panic <-> mk_key_static bin raw = Panic).
Proof. exact insert_static_spec. Qed.

(* ---- MetadataMap::merge and the trailers it folds ---- *)
Theorem c08_merge_pointwise : forall m o k,
  hm_get_all (merge m o) k = match hm_get_all o k with [] => hm_get_all m k | l => l end.
Proof. exact merge_pointwise. Qed.

(* response trailers of a successful unary / client-streaming call in Response::metadata(), and
   request trailers in the handler's Request::metadata(): every name of the trailers with all
   its values in order; a header name the trailers do not use keeps its values *)
Theorem c08_trailers_merged : forall hdrs t k,
  (hm_get_all t k <> [] ->
     hm_get_all (client_unary_response_metadata hdrs (Some t)) k = hm_get_all t k /\
     hm_get_all (server_unary_request_metadata hdrs (Some t)) k = hm_get_all t k) /\
  (hm_get_all t k = [] ->
     hm_get_all (client_unary_response_metadata hdrs (Some t)) k = hm_get_all hdrs k /\
     hm_get_all (server_unary_request_metadata hdrs (Some t)) k = hm_get_all hdrs k) /\
  hm_get_all (client_unary_response_metadata hdrs None) k = hm_get_all hdrs k /\
  hm_get_all (server_unary_request_metadata hdrs None) k = hm_get_all hdrs k.
Proof. exact trailers_merged. Qed.

Theorem c08_trailers_binary_received : forall hdrs t raw k (pbs : list (bool * list N)),
  hn_norm raw = Some k -> bin_suffix k = true -> pbs <> [] ->
  forallb (fun pb => bytes_ok (snd pb)) pbs = true ->
  hm_get_all t k = map (fun pb => enc (fst pb) (snd pb)) pbs ->
  map bin_decode (get_all_bin (client_unary_response_metadata hdrs (Some t)) raw) =
  map (fun pb => Some (snd pb)) pbs.
Proof. exact trailers_binary_received. Qed.

Theorem c08_error_fold : forall hdrs t m k,
  client_unary_error_metadata hdrs t = Some m ->
  hm_get_all m k =
  match hm_get_all hdrs k with
  | [] => if bytes_eqb k hdr_grpc_status || bytes_eqb k hdr_grpc_message || bytes_eqb k hdr_grpc_status_details
          then [] else hm_get_all t k
  | l => l
  end.
Proof. exact error_fold_pointwise. Qed.

(* ---- non-vacuity: a map with a repeated key, a binary key, a forged te / grpc-status and a
   user grpc-encoding, sent by a client configured for gzip ---- *)

Example c08_example_client :
  let ex_md : metadata :=
  [ (bytes_of_string "x-a", [49]); (bytes_of_string "te", [120]);
    (bytes_of_string "x-p-bin", enc false [0; 255; 7]); (bytes_of_string "x-a", [50]);
    (bytes_of_string "grpc-status", [48]); (bytes_of_string "grpc-encoding", [122]) ] in
  let h := client_request_headers (Some (bytes_of_string "gzip")) None ex_md in
  hm_get_all h (bytes_of_string "x-a") = [[49]; [50]] /\
  hm_get_all h (bytes_of_string "te") = [val_trailers] /\
  hm_get_all h (bytes_of_string "grpc-status") = [] /\
  hm_get_all h (bytes_of_string "grpc-encoding") = [bytes_of_string "gzip"] /\
  map bin_decode (get_all_bin (from_headers h) (bytes_of_string "X-P-Bin")) = [Some [0; 255; 7]] /\
  get (from_headers h) (bytes_of_string "X-P-BIN") = None.
Proof. vm_compute. repeat split; reflexivity. Qed.

Example c08_example_status_premises :
  let ex_md : metadata :=
  [ (bytes_of_string "x-a", [49]); (bytes_of_string "te", [120]);
    (bytes_of_string "x-p-bin", enc false [0; 255; 7]); (bytes_of_string "x-a", [50]);
    (bytes_of_string "grpc-status", [48]); (bytes_of_string "grpc-encoding", [122]) ] in
  let st := mkStatus 7 [110; 111] [1; 2] ex_md in
  well_formed st /\ is_reserved (bytes_of_string "x-a") = false /\ is_reserved (bytes_of_string "te") = true.
Proof. repeat split; reflexivity. Qed.

(* F-C08b in the model: entry_bin on a vacant name, insert_entry, the handle is a binary one and
   shows the stored bytes *)
Example c08_example_insert_entry :
  let k := bytes_of_string "x-data-bin" in
  entry_str true [] (bytes_of_string "X-Data-BIN") = Some (Vacant true k) /\
  entry_str false [] (bytes_of_string "X-Data-BIN") = None /\
  let '(m', e) := vacant_insert_entry true [] k (enc false [104; 105]) in
  entry_bin_of e = true /\ option_map bin_decode (occ_get m' (entry_key e)) = Some (Some [104; 105]).
Proof. vm_compute. repeat split; reflexivity. Qed.

Print Assumptions c08_client_wire.
Print Assumptions c08_server_wire.
Print Assumptions c08_status_wire.
Print Assumptions c08_bin_value_roundtrip.
Print Assumptions c08_accessor_typing_some.
Print Assumptions c08_iter_typing.
Print Assumptions c08_entry_typing.
Print Assumptions c08_insert_entry_typing.
Print Assumptions c08_keys_typing.
Print Assumptions c08_binary_end_to_end.
Print Assumptions c08_status_metadata_received.
Print Assumptions c08_status_details_received.
Print Assumptions c08_trailers_merged.
Print Assumptions c08_static_key_typing.
