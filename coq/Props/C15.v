(* C15 - TLS channels and servers authenticate the peer and insist on HTTP/2.

   PARTIAL: all cryptographic verification (chain building, signatures, validity, name
   matching, the TLS state machine itself) is rustls'.  rustls appears as two handshake
   oracles [rc] (client side) and [ra] (server side) and three predicates [chain_ok roots cert],
   [name_ok domain cert], [client_cert_ok ca cert]; what is assumed of the oracles is the
   explicit premise [connect_sound] / [accept_sound] of each theorem (Model/Tls.v).  The
   theorems are about tonic's WIRING: which root store, which name, which ALPN rule, which
   client verifier, what happens without TLS configuration, what the handler gets to see.
   In the finite matrix the three predicates are determined by the certificate facts of the
   test PKI and the oracles are the reference handshake, which the harness compares with real
   rustls handshakes cell by cell.

   BUILD ASSUMPTION: the client-side theorems hold for builds with a TLS feature
   ([f_tls f = true], cargo feature _tls-any via tls-ring / tls-aws-lc): the [is_https] branch
   of Connector::call is cfg-gated, and [c15_build_without_tls_is_plaintext] states what a build
   without it does (every endpoint, https included, is a plaintext connection).  The harness
   build has tls-ring, tls-native-roots and tls-webpki-roots ([t_features]).

   Statements only: each theorem is closed by [exact] of a lemma proved in Proofs/Tls.v. *)
From Coq Require Import List Bool NArith.
From Verif Require Import Lib.Obs Model.Tls Proofs.Tls.
Import ListNotations.
Open Scope N_scope.

(* Over an https endpoint a call is transmitted only after the server presented a certificate
   that chains to the connector's roots and matches its domain, and h2 was negotiated unless
   the caller opted out. *)
Theorem c15_call_sent_implies_authenticated :
  forall (cert ca dname : Type) (chain_ok : list ca -> cert -> bool) (name_ok : dname -> cert -> bool)
         (rc : @TlsConnector cert ca dname -> @server cert ca -> hs_client),
  connect_sound chain_ok name_ok rc ->
  forall (f : features) (e : Endpoint) (srv : server),
  f_tls f = true -> is_https (e_scheme e) = true ->
  call_transmitted (connect_outcome rc f e srv) = true ->
  exists (t : TlsConnector) (a : TlsAcceptor) (alpn : option proto),
    e_tls e = Some t /\ srv = STls a /\ connect_outcome rc f e srv = ConnTls alpn /\
    chain_ok (tc_roots t) (a_cert a) = true /\
    name_ok (tc_domain t) (a_cert a) = true /\
    (alpn = Some ALPN_H2 \/ tc_assume_http2 t = true).
Proof. exact @call_sent_implies_authenticated. Qed.

(* the connector's roots are exactly the configured ones, its name is the configured domain or
   else the URI host, it offers h2 only *)
Theorem c15_tls_config_wiring :
  forall (cert ca dname : Type) (valid_name : dname -> bool) (native_certs webpki_roots : list ca)
         (f : features) (s : scheme) (h : option dname) (c : @ClientTlsConfig cert ca dname) (e : Endpoint),
  endpoint_tls_config valid_name native_certs webpki_roots f (endpoint_from_uri s h) c = inr e ->
  e_scheme e = s /\
  exists (t : TlsConnector) (d : dname),
    e_tls e = Some t /\
    effective_domain c h = Some d /\ valid_name d = true /\ tc_domain t = d /\
    tc_roots t = configured_roots native_certs webpki_roots f c /\
    tc_identity t = c_identity c /\ tc_assume_http2 t = c_assume_http2 c /\
    tc_alpn t = [ALPN_H2].
Proof. exact @tls_config_wiring. Qed.

(* the verified name is the configured domain or else the host of the endpoint URI - never the
   host of the origin override, whether Endpoint::origin was called before tls_config (any
   starting endpoint [e0], its [e_origin] arbitrary) ... *)
Theorem c15_verified_name_never_from_origin :
  forall (cert ca dname : Type) (valid_name : dname -> bool) (native_certs webpki_roots : list ca)
         (f : features) (e0 : @Endpoint cert ca dname) (c : ClientTlsConfig) (e : Endpoint),
  endpoint_tls_config valid_name native_certs webpki_roots f e0 c = inr e ->
  e_scheme e = e_scheme e0 /\ e_host e = e_host e0 /\ e_origin e = e_origin e0 /\
  exists (t : TlsConnector) (d : dname),
    e_tls e = Some t /\
    effective_domain c (e_host e0) = Some d /\ valid_name d = true /\ tc_domain t = d /\
    tc_roots t = configured_roots native_certs webpki_roots f c /\
    tc_identity t = c_identity c /\ tc_assume_http2 t = c_assume_http2 c /\
    tc_alpn t = [ALPN_H2].
Proof. exact @tls_config_wiring_gen. Qed.

(* ... or after it: the origin changes nothing about who is reached and who is served *)
Theorem c15_origin_irrelevant :
  forall (cert ca dname : Type) (rc : @TlsConnector cert ca dname -> @server cert ca -> hs_client)
         (ra : TlsAcceptor -> option cert -> hs_server) (f : features)
         (o : option (scheme * option dname)) (e : Endpoint) (srv : server),
  connect_outcome rc f (apply_origin o e) srv = connect_outcome rc f e srv /\
  request_reaches_handler rc ra f (apply_origin o e) srv = request_reaches_handler rc ra f e srv /\
  peer_certs_exposed rc ra f (apply_origin o e) srv = peer_certs_exposed rc ra f e srv.
Proof.
  exact (fun cert ca dname rc ra f o e srv =>
           conj (origin_irrelevant_connect rc f o e srv)
             (conj (origin_irrelevant_handler rc ra f o e srv)
                   (origin_irrelevant_peer_certs rc ra f o e srv))).
Qed.

(* root store only from configured CAs; platform / webpki roots only with their feature AND flag *)
Theorem c15_roots_only_configured :
  forall (cert ca dname : Type) (native_certs webpki_roots : list ca) (f : features)
         (c : @ClientTlsConfig cert ca dname) (r : ca),
  In r (configured_roots native_certs webpki_roots f c) ->
  In r (c_trust_anchors c) \/ In r (c_certs c) \/
  (f_native_roots f = true /\ c_with_native_roots c = true /\ In r native_certs) \/
  (f_webpki_roots f = true /\ c_with_webpki_roots c = true /\ In r webpki_roots).
Proof. exact @configured_roots_origin. Qed.

(* in particular, with neither flag set the platform / webpki sets are irrelevant even in a
   build that contains them *)
Theorem c15_roots_without_flags :
  forall (cert ca dname : Type) (native_certs webpki_roots : list ca) (f : features)
         (c : @ClientTlsConfig cert ca dname),
  c_with_native_roots c = false -> c_with_webpki_roots c = false ->
  configured_roots native_certs webpki_roots f c = c_trust_anchors c ++ c_certs c.
Proof. exact @configured_roots_no_flags. Qed.

(* https without TLS configuration: the error, nothing transmitted, no handler *)
Theorem c15_https_without_tls_fails :
  forall (cert ca dname : Type) (rc : @TlsConnector cert ca dname -> @server cert ca -> hs_client)
         (ra : TlsAcceptor -> option cert -> hs_server) (f : features) (e : Endpoint) (srv : server),
  f_tls f = true -> is_https (e_scheme e) = true -> e_tls e = None ->
  connect_outcome rc f e srv = ConnErr HttpsUriWithoutTlsSupport /\
  call_transmitted (connect_outcome rc f e srv) = false /\
  request_reaches_handler rc ra f e srv = false.
Proof. exact @https_without_tls_fails. Qed.

(* never a fallback to plaintext, whatever rustls answers (no premise on the oracles), in a
   build with a TLS feature *)
Theorem c15_no_plaintext_fallback :
  forall (cert ca dname : Type) (rc : @TlsConnector cert ca dname -> @server cert ca -> hs_client)
         (f : features) (e : Endpoint) (srv : server),
  f_tls f = true -> is_https (e_scheme e) = true -> connect_outcome rc f e srv <> ConnPlain.
Proof. exact @no_plaintext_fallback. Qed.

(* ... and the build assumption is necessary: without _tls-any the connector has no https
   branch at all *)
Theorem c15_build_without_tls_is_plaintext :
  forall (cert ca dname : Type) (rc : @TlsConnector cert ca dname -> @server cert ca -> hs_client)
         (f : features) (e : Endpoint) (srv : server),
  f_tls f = false -> connect_outcome rc f e srv = ConnPlain.
Proof. exact @build_without_tls_is_plaintext. Qed.

(* otherwise connecting fails and no request reaches any handler *)
Theorem c15_connect_failure_reaches_no_handler :
  forall (cert ca dname : Type) (rc : @TlsConnector cert ca dname -> @server cert ca -> hs_client)
         (ra : TlsAcceptor -> option cert -> hs_server) (f : features) (e : Endpoint) (srv : server)
         (x : conn_err),
  connect_outcome rc f e srv = ConnErr x -> request_reaches_handler rc ra f e srv = false.
Proof. exact @connect_failure_reaches_no_handler. Qed.

(* a handler runs only if BOTH the listener yielded the connection (its handshake completed)
   and the client transmitted a request; the server's handshake may complete for a call the
   client then refuses to send (H2NotNegotiated): Example c15_server_handshake_without_request *)
Theorem c15_handler_needs_both :
  forall (cert ca dname : Type) (rc : @TlsConnector cert ca dname -> @server cert ca -> hs_client)
         (ra : TlsAcceptor -> option cert -> hs_server) (f : features) (e : Endpoint) (srv : server),
  request_reaches_handler rc ra f e srv = true ->
  call_transmitted (connect_outcome rc f e srv) = true /\
  exists pc : option cert, server_handshake rc ra f e srv = SrvAccept pc.
Proof. exact @reaches_needs_both. Qed.

(* a TLS listener never runs a handler for a plaintext client *)
Theorem c15_plaintext_client_not_served_by_tls_listener :
  forall (cert ca dname : Type) (rc : @TlsConnector cert ca dname -> @server cert ca -> hs_client)
         (ra : TlsAcceptor -> option cert -> hs_server) (f : features) (e : Endpoint) (a : TlsAcceptor),
  f_tls f && is_https (e_scheme e) = false ->
  request_reaches_handler rc ra f e (STls a) = false.
Proof. exact @plaintext_client_not_served_by_tls_listener. Qed.

(* the server's verifier is exactly what was configured: none without a client CA,
   allow_unauthenticated only when client auth was made optional; ALPN is h2 *)
Theorem c15_acceptor_wiring :
  forall (cert ca : Type) (ca_usable : ca -> bool) (s : @ServerTlsConfig cert ca) (a : TlsAcceptor),
  tls_acceptor ca_usable s = AccOk a ->
  s_identity s = Some (a_cert a) /\ a_alpn a = [ALPN_H2] /\
  a_verifier a = match s_client_ca_root s with
                 | Some root => WebPki root (s_client_auth_optional s)
                 | None => NoClientAuth
                 end.
Proof. exact @tls_acceptor_spec. Qed.

(* Server::tls_config followed or preceded by any other builder calls (layer rebuilds the struct
   field by field; timeout, limits, windows, ... use struct update): the listener is the TLS
   listener of that configuration *)
Theorem c15_builder_preserves_tls :
  forall (cert ca : Type) (ca_usable : ca -> bool) (before after : list (@builder_op cert ca))
         (c : ServerTlsConfig) (a : TlsAcceptor),
  Forall not_tls_op before -> Forall not_tls_op after ->
  tls_acceptor ca_usable c = AccOk a ->
  exists sv : Server,
    server_build ca_usable server_builder (before ++ OpTls c :: after) = BuildOk sv /\
    server_listener sv = STls a.
Proof. exact @builder_preserves_tls. Qed.

(* ... so a server built that way with a client CA serves only TLS clients with a certificate
   of that CA (or none, if optional) *)
Theorem c15_built_server_enforces_client_auth :
  forall (cert ca dname : Type) (client_cert_ok : ca -> cert -> bool) (ca_usable : ca -> bool)
         (rc : @TlsConnector cert ca dname -> @server cert ca -> hs_client)
         (ra : TlsAcceptor -> option cert -> hs_server),
  accept_sound client_cert_ok ra ->
  forall (f : features) (before after : list builder_op) (c : ServerTlsConfig) (a : TlsAcceptor)
         (root : ca) (sv : Server) (e : Endpoint),
  Forall not_tls_op before -> Forall not_tls_op after ->
  tls_acceptor ca_usable c = AccOk a -> s_client_ca_root c = Some root ->
  server_build ca_usable server_builder (before ++ OpTls c :: after) = BuildOk sv ->
  request_reaches_handler rc ra f e (server_listener sv) = true ->
  f_tls f && is_https (e_scheme e) = true /\
  ((exists ci : cert, endpoint_identity e = Some ci /\ client_cert_ok root ci = true) \/
   (s_client_auth_optional c = true /\ endpoint_identity e = None)).
Proof. exact @built_server_enforces_client_auth. Qed.

(* a server configured with a client CA serves only clients presenting a certificate issued by
   it, unless client authentication was made optional and none was presented *)
Theorem c15_client_auth_enforced :
  forall (cert ca dname : Type) (client_cert_ok : ca -> cert -> bool)
         (rc : @TlsConnector cert ca dname -> @server cert ca -> hs_client)
         (ra : TlsAcceptor -> option cert -> hs_server),
  accept_sound client_cert_ok ra ->
  forall (ca_usable : ca -> bool) (f : features) (s : ServerTlsConfig) (a : TlsAcceptor) (root : ca)
         (e : Endpoint),
  tls_acceptor ca_usable s = AccOk a -> s_client_ca_root s = Some root ->
  request_reaches_handler rc ra f e (STls a) = true ->
  (exists c : cert, endpoint_identity e = Some c /\ client_cert_ok root c = true) \/
  (s_client_auth_optional s = true /\ endpoint_identity e = None).
Proof. exact (fun cert ca dname cco rc ra H cu => @client_auth_enforced cert ca dname cco cu rc ra H). Qed.

(* Session resumption cannot carry a client past another server's client authentication.
   Every tls_acceptor call builds a ServerConfig with a session store of its own
   ([spawn_servers]); rustls resumes a session only out of the store that holds it
   ([resume_sound], premise).  Then, for a client with a fixed identity and an initially empty
   session cache that visits listeners of the process in ANY order, every connection a listener
   yields satisfies that listener's own verifier: its peer certificates are the client's
   certificate verified against THIS listener's client CA (or none, if optional / no client auth) *)
Theorem c15_no_cross_server_resumption :
  forall (cert ca : Type) (client_cert_ok : ca -> cert -> bool) (ca_usable : ca -> bool)
         (ra : @TlsAcceptor cert ca -> option cert -> hs_server),
  accept_sound client_cert_ok ra ->
  forall rr : listener -> ticket -> option (option cert),
  resume_sound rr ->
  forall (cfgs : list ServerTlsConfig) (ident : option cert) (ls : list listener)
         (l : listener) (pc : option cert),
  Forall (fun l0 => In l0 (listeners (spawn_servers ca_usable cfgs))) ls ->
  In (l, SrvAccept pc) (combine ls (visits ra rr ident None ls)) ->
  match a_verifier (l_acc l) with
  | NoClientAuth => pc = None
  | WebPki root allow =>
      (exists c : cert, ident = Some c /\ pc = Some c /\ client_cert_ok root c = true) \/
      (allow = true /\ ident = None /\ pc = None)
  end.
Proof.
  exact (fun cert ca cco cu ra Ha rr Hr =>
           @no_cross_server_resumption_spawned cert ca cco cu ra Ha rr Hr).
Qed.

(* ... indeed what a listener yields does not depend on where the client has been before *)
Theorem c15_resumption_transparent :
  forall (cert ca : Type) (ca_usable : ca -> bool)
         (ra : @TlsAcceptor cert ca -> option cert -> hs_server)
         (rr : listener -> ticket -> option (option cert)),
  resume_sound rr ->
  forall (cfgs : list ServerTlsConfig) (ident : option cert) (ls : list listener),
  Forall (fun l => In l (listeners (spawn_servers ca_usable cfgs))) ls ->
  visits ra rr ident None ls = map (fun l => ra (l_acc l) ident) ls.
Proof.
  exact (fun cert ca cu ra rr Hr => @resumption_transparent_spawned cert ca cu ra rr Hr).
Qed.

(* the listeners of one process never share a store *)
Theorem c15_spawned_servers_own_their_stores :
  forall (cert ca : Type) (ca_usable : ca -> bool) (cfgs : list (@ServerTlsConfig cert ca)),
  store_injective (listeners (spawn_servers ca_usable cfgs)).
Proof. exact @spawn_servers_store_injective. Qed.

(* optional + a certificate that does not verify: rejected, not treated as anonymous *)
Theorem c15_bad_client_cert_always_rejected :
  forall (cert ca dname : Type) (client_cert_ok : ca -> cert -> bool)
         (rc : @TlsConnector cert ca dname -> @server cert ca -> hs_client)
         (ra : TlsAcceptor -> option cert -> hs_server),
  accept_sound client_cert_ok ra ->
  forall (f : features) (e : Endpoint) (a : TlsAcceptor) (root : ca) (allow : bool) (c : cert),
  a_verifier a = WebPki root allow ->
  endpoint_identity e = Some c -> client_cert_ok root c = false ->
  request_reaches_handler rc ra f e (STls a) = false.
Proof. exact @bad_client_cert_always_rejected. Qed.

(* handlers see peer certificates iff a client certificate was presented and verified *)
Theorem c15_peer_certs_iff_presented :
  forall (cert ca dname : Type) (client_cert_ok : ca -> cert -> bool)
         (rc : @TlsConnector cert ca dname -> @server cert ca -> hs_client)
         (ra : TlsAcceptor -> option cert -> hs_server),
  accept_sound client_cert_ok ra ->
  forall (f : features) (e : Endpoint) (a : TlsAcceptor),
  request_reaches_handler rc ra f e (STls a) = true ->
  forall c : cert,
  peer_certs_exposed rc ra f e (STls a) = Some c <->
  exists (root : ca) (allow : bool),
    a_verifier a = WebPki root allow /\ endpoint_identity e = Some c /\ client_cert_ok root c = true.
Proof. exact @peer_certs_iff_presented. Qed.

(* Request::peer_certs finds them only behind a TcpConnectInfo; without a handler there is
   nothing to see *)
Theorem c15_request_peer_certs :
  forall (cert : Type) (io_is_tcp : bool) (pc : option cert),
  request_peer_certs io_is_tcp pc = if io_is_tcp then pc else None.
Proof. exact @request_peer_certs_spec. Qed.

(* end to end from the two configurations: a handler ran for an https endpoint => everything *)
Theorem c15_served_over_https_implies_all :
  forall (cert ca dname : Type) (chain_ok : list ca -> cert -> bool) (name_ok : dname -> cert -> bool)
         (client_cert_ok : ca -> cert -> bool) (valid_name : dname -> bool)
         (native_certs webpki_roots : list ca)
         (rc : @TlsConnector cert ca dname -> @server cert ca -> hs_client)
         (ra : TlsAcceptor -> option cert -> hs_server),
  connect_sound chain_ok name_ok rc -> accept_sound client_cert_ok ra ->
  forall (f : features) (h : option dname) (c : ClientTlsConfig) (e : Endpoint) (srv : server),
  f_tls f = true ->
  endpoint_tls_config valid_name native_certs webpki_roots f (endpoint_from_uri Https h) c = inr e ->
  request_reaches_handler rc ra f e srv = true ->
  exists (a : TlsAcceptor) (d : dname) (alpn : option proto),
    srv = STls a /\ effective_domain c h = Some d /\
    chain_ok (configured_roots native_certs webpki_roots f c) (a_cert a) = true /\
    name_ok d (a_cert a) = true /\
    connect_outcome rc f e srv = ConnTls alpn /\
    (alpn = Some ALPN_H2 \/ c_assume_http2 c = true) /\
    match a_verifier a with
    | NoClientAuth => peer_certs_exposed rc ra f e srv = None
    | WebPki root allow =>
        (exists ci : cert, c_identity c = Some ci /\ client_cert_ok root ci = true /\
                           peer_certs_exposed rc ra f e srv = Some ci) \/
        (allow = true /\ c_identity c = None /\ peer_certs_exposed rc ra f e srv = None)
    end.
Proof.
  exact (fun cert ca dname ck nk cco vn nat web rc ra Hc Ha =>
           @served_over_https_implies_all cert ca dname ck nk cco vn nat web rc ra Hc Ha).
Qed.

(* the same with Endpoint::origin called before and/or after tls_config: the certificate is
   matched against the configured domain or the URI host [h], whatever the origins are *)
Theorem c15_served_over_https_implies_all_with_origin :
  forall (cert ca dname : Type) (chain_ok : list ca -> cert -> bool) (name_ok : dname -> cert -> bool)
         (client_cert_ok : ca -> cert -> bool) (valid_name : dname -> bool)
         (native_certs webpki_roots : list ca)
         (rc : @TlsConnector cert ca dname -> @server cert ca -> hs_client)
         (ra : TlsAcceptor -> option cert -> hs_server),
  connect_sound chain_ok name_ok rc -> accept_sound client_cert_ok ra ->
  forall (f : features) (o_before o_after : option (scheme * option dname)) (h : option dname)
         (c : ClientTlsConfig) (e0 : Endpoint) (srv : server),
  f_tls f = true ->
  endpoint_tls_config valid_name native_certs webpki_roots f
    (apply_origin o_before (endpoint_from_uri Https h)) c = inr e0 ->
  let e := apply_origin o_after e0 in
  request_reaches_handler rc ra f e srv = true ->
  exists (a : TlsAcceptor) (d : dname) (alpn : option proto),
    srv = STls a /\ effective_domain c h = Some d /\
    chain_ok (configured_roots native_certs webpki_roots f c) (a_cert a) = true /\
    name_ok d (a_cert a) = true /\
    connect_outcome rc f e srv = ConnTls alpn /\
    (alpn = Some ALPN_H2 \/ c_assume_http2 c = true) /\
    match a_verifier a with
    | NoClientAuth => peer_certs_exposed rc ra f e srv = None
    | WebPki root allow =>
        (exists ci : cert, c_identity c = Some ci /\ client_cert_ok root ci = true /\
                           peer_certs_exposed rc ra f e srv = Some ci) \/
        (allow = true /\ c_identity c = None /\ peer_certs_exposed rc ra f e srv = None)
    end.
Proof.
  exact (fun cert ca dname ck nk cco vn nat web rc ra Hc Ha =>
           @served_over_https_implies_all_o cert ca dname ck nk cco vn nat web rc ra Hc Ha).
Qed.

(* The complete matrix (finite domain, bound in the statement: every value of the record
   [cell] = 3 roots x 3 domain configurations x 2 URI hosts x 2 server certificates x 3 server
   ALPN lists x assume_http2 x 4 client-auth configurations x 3 client identities = 2592 cells,
   a superset of the 3x3x3x2x3x3 matrix of the property):
   the wiring model run on the cell serves the call exactly when the declarative reading of the
   property says so, exposes exactly the verified client certificate, never goes plaintext. *)
Theorem c15_matrix_forallb : forallb cell_ok all_cells = true /\ length all_cells = 2592%nat.
Proof. exact (conj matrix_forallb all_cells_count). Qed.

Theorem c15_matrix_complete : forall x : cell,
  In x all_cells /\
  cell_served x = spec_served x /\ cell_peer_certs x = spec_peer_certs x /\ cell_plaintext x = false.
Proof. exact (fun x => conj (all_cells_complete x) (matrix_complete x)). Qed.

(* the premises are satisfiable: the reference handshake obeys both contracts *)
Theorem c15_contract_satisfiable :
  connect_sound t_chain_ok t_name_ok t_connect /\ accept_sound t_client_cert_ok t_accept /\
  @resume_sound certid caid ref_resume.
Proof. exact (conj t_connect_sound (conj t_accept_sound (ref_resume_sound certid caid))). Qed.

(* the separate stores are necessary: one store behind an open and a strict listener lets a
   client without certificate into the strict one (first line), separate stores do not (second) *)
Example c15_shared_store_breaks_client_auth :
  let open_a := {| a_cert := SrvExample; a_verifier := NoClientAuth; a_alpn := [ALPN_H2] |} in
  let strict_a := {| a_cert := SrvExample; a_verifier := WebPki CA2 false; a_alpn := [ALPN_H2] |} in
  visits t_accept ref_resume None None
    [ {| l_store := 0; l_acc := open_a |}; {| l_store := 0; l_acc := strict_a |} ]
    = [SrvAccept None; SrvAccept None] /\
  visits t_accept ref_resume None None
    [ {| l_store := 0; l_acc := open_a |}; {| l_store := 1; l_acc := strict_a |} ]
    = [SrvAccept None; SrvReject].
Proof. exact shared_store_breaks_client_auth. Qed.

(* non-vacuity: a served cell with an exposed certificate, and the single deviations from it *)
Example c15_served_cell :
  let x := mkCell RightCA DomFromUri HostExample SCertExample AlpnH2 false CaRequired IdValid in
  cell_served x = true /\ cell_peer_certs x = Some CliCA2.
Proof. split; reflexivity. Qed.
Example c15_optional_other_ca_rejected :
  cell_served (mkCell RightCA DomFromUri HostExample SCertExample AlpnH2 false CaOptional IdOtherCA) = false /\
  cell_served (mkCell RightCA DomFromUri HostExample SCertExample AlpnH2 false CaOptional IdNone) = true.
Proof. split; reflexivity. Qed.
Example c15_no_alpn_needs_opt_out :
  cell_served (mkCell RightCA DomFromUri HostExample SCertExample AlpnNone false CaNone IdNone) = false /\
  cell_served (mkCell RightCA DomFromUri HostExample SCertExample AlpnNone true CaNone IdNone) = true.
Proof. split; reflexivity. Qed.
Example c15_server_handshake_without_request :
  let x := mkCell RightCA DomFromUri HostExample SCertExample AlpnNone false CaNone IdNone in
  exists srv ep, cell_server x = Some srv /\ cell_endpoint x = inr ep /\
    t_srv_handshake ep srv = SrvAccept None /\
    t_outcome ep srv = ConnErr H2NotNegotiated /\ t_reaches ep srv = false.
Proof. exact server_handshake_without_request. Qed.
(* the platform trusting the server's CA changes nothing unless the flag is set *)
Example c15_native_roots_need_the_flag :
  obs_call [CA1] true Https (Some DExample) (Some (ca_certificate cfg0 CA2)) (mk_srv SrvExample None false)
    = Nd [Nn 3; Nn 0; Nd []; Nd []; Nn 1] /\
  obs_call [CA1] true Https (Some DExample) (Some (with_native_roots (ca_certificate cfg0 CA2)))
    (mk_srv SrvExample None false) = Nd [Nn 0; Nn 1; Nd []; Nd []; Nn 1].
Proof. split; reflexivity. Qed.
Example c15_transmitted_is_reachable :
  exists e srv, is_https (e_scheme e) = true /\ call_transmitted (t_outcome e srv) = true /\
                t_reaches e srv = true.
Proof.
  exists {| e_scheme := Https; e_host := Some DExample; e_origin := None;
            e_tls := Some {| tc_roots := [CA1]; tc_identity := None; tc_alpn := [ALPN_H2];
                             tc_domain := DExample; tc_assume_http2 := false |} |},
         (mk_srv SrvExample None false).
  repeat split; reflexivity.
Qed.

Print Assumptions c15_call_sent_implies_authenticated.
Print Assumptions c15_https_without_tls_fails.
Print Assumptions c15_client_auth_enforced.
Print Assumptions c15_peer_certs_iff_presented.
Print Assumptions c15_served_over_https_implies_all.
Print Assumptions c15_verified_name_never_from_origin.
Print Assumptions c15_served_over_https_implies_all_with_origin.
Print Assumptions c15_no_cross_server_resumption.
Print Assumptions c15_builder_preserves_tls.
Print Assumptions c15_built_server_enforces_client_auth.
Print Assumptions c15_matrix_complete.
