(* C15 - TLS channels and servers authenticate the peer and insist on HTTP/2.

   PARTIAL: all cryptographic verification (chain building, signatures, validity, name
   matching, the TLS state machine itself) is rustls'.  rustls appears as two handshake
   oracles [rc] (client side) and [ra] (server side) and three predicates [chain_ok roots cert],
   [name_ok domain cert], [client_cert_ok ca cert]; what is assumed of the oracles is the
   explicit premise [connect_sound] / [accept_sound] of each theorem (Model/Tls.v).  The
   theorems are about tonic's WIRING: which root store, which name, which ALPN rule, which
   client verifier, what happens without TLS configuration, what the handler gets to see.
   In the finite matrix the three predicates are determined by the certificate facts of the
   test PKI and the oracles are the reference handshake, which the harness compares with real
   rustls handshakes cell by cell.

   BUILD ASSUMPTION: the client-side theorems hold for builds with a TLS feature
   ([f_tls f = true], cargo feature _tls-any via tls-ring / tls-aws-lc): the [is_https] branch
   of Connector::call is cfg-gated, and [c15_build_without_tls_is_plaintext] states what a build
   without it does (every endpoint, https included, is a plaintext connection).  The harness
   build has tls-ring, tls-native-roots and tls-webpki-roots ([t_features]).

   INPUTS: tonic's [Certificate] / [Identity] are PEM blobs; a blob is the list of its CERTIFICATE
   sections ([pem_sec]: a certificate, decodable junk, or an undecodable section), so a CA blob
   may hold any number of CAs ([s_client_ca_root] is ONE blob, [c_certs] a list of blobs).

   Statements only: each theorem is closed by [exact] of a lemma proved in Proofs/Tls.v. *)
From Coq Require Import List Bool NArith.
From Verif Require Import Lib.Obs Model.Tls Proofs.Tls.
Import ListNotations.
Open Scope N_scope.

(* Over an https endpoint a call is transmitted only after the server presented a certificate
   that chains to the connector's roots and matches its domain, and h2 was negotiated unless
   the caller opted out. *)
Theorem c15_call_sent_implies_authenticated :
  forall (cert ca dname : Type) (chain_ok : list ca -> cert -> bool) (name_ok : dname -> cert -> bool)
         (rc : @TlsConnector cert ca dname -> @server cert ca -> hs_client),
  connect_sound chain_ok name_ok rc ->
  forall (f : features) (e : Endpoint) (srv : server),
  f_tls f = true -> is_https (e_scheme e) = true ->
  call_transmitted (connect_outcome rc f e srv) = true ->
  exists (t : TlsConnector) (a : TlsAcceptor) (alpn : option proto),
    e_tls e = Some t /\ srv = STls a /\ connect_outcome rc f e srv = ConnTls alpn /\
    chain_ok (tc_roots t) (a_cert a) = true /\
    name_ok (tc_domain t) (a_cert a) = true /\
    (alpn = Some ALPN_H2 \/ tc_assume_http2 t = true).
Proof. exact @call_sent_implies_authenticated. Qed.

(* the connector's roots are exactly the configured ones, its name is the configured domain or
   else the URI host, it offers h2 only *)
Theorem c15_tls_config_wiring :
  forall (cert ca dname : Type) (valid_name : dname -> bool) (key_matches : cert -> cert -> bool)
         (native_certs webpki_roots : list ca)
         (f : features) (s : scheme) (h : option dname) (c : @ClientTlsConfig cert ca dname) (e : Endpoint),
  endpoint_tls_config valid_name key_matches native_certs webpki_roots f (endpoint_from_uri s h) c = inr e ->
  e_scheme e = s /\
  exists (t : TlsConnector) (d : dname),
    e_tls e = Some t /\
    effective_domain c h = Some d /\ valid_name d = true /\ tc_domain t = d /\
    tc_roots t = configured_roots native_certs webpki_roots f c /\
    tc_identity t = identity_leaf key_matches (c_identity c) /\
    tc_assume_http2 t = c_assume_http2 c /\
    tc_alpn t = [ALPN_H2].
Proof. exact @tls_config_wiring. Qed.

(* the verified name is the configured domain or else the host of the endpoint URI - never the
   host of the origin override, whether Endpoint::origin was called before tls_config (any
   starting endpoint [e0]: its [e_origin] arbitrary, an earlier tls_config's connector in
   [e_tls] or none - the new connector replaces it) ...
   Also: it is a Uri endpoint (tls_config on a unix-socket endpoint is an error), every CA blob
   decodes, a configured identity is presented (never silently dropped). *)
Theorem c15_verified_name_never_from_origin :
  forall (cert ca dname : Type) (valid_name : dname -> bool) (key_matches : cert -> cert -> bool)
         (native_certs webpki_roots : list ca)
         (f : features) (e0 : @Endpoint cert ca dname) (c : ClientTlsConfig) (e : Endpoint),
  endpoint_tls_config valid_name key_matches native_certs webpki_roots f e0 c = inr e ->
  e_uds e0 = false /\
  e_uds e = e_uds e0 /\ e_scheme e = e_scheme e0 /\ e_host e = e_host e0 /\ e_origin e = e_origin e0 /\
  exists (t : TlsConnector) (d : dname),
    e_tls e = Some t /\
    effective_domain c (e_host e0) = Some d /\ valid_name d = true /\ tc_domain t = d /\
    tc_roots t = configured_roots native_certs webpki_roots f c /\
    forallb pem_decodes (c_certs c) = true /\
    tc_identity t = identity_leaf key_matches (c_identity c) /\
    (c_identity c <> None -> tc_identity t <> None) /\
    tc_assume_http2 t = c_assume_http2 c /\
    tc_alpn t = [ALPN_H2].
Proof. exact @tls_config_wiring_gen. Qed.

Theorem c15_tls_config_on_uds_is_refused :
  forall (cert ca dname : Type) (valid_name : dname -> bool) (key_matches : cert -> cert -> bool)
         (native_certs webpki_roots : list ca)
         (f : features) (e0 : @Endpoint cert ca dname) (c : ClientTlsConfig),
  e_uds e0 = true ->
  endpoint_tls_config valid_name key_matches native_certs webpki_roots f e0 c = inl EInvalidTlsConfigForUds.
Proof. exact @tls_config_uds. Qed.

(* an identity is accepted (client and server side alike) only if its certificate blob decodes
   and starts with a certificate and the key blob holds that certificate's key; that
   certificate is the one presented *)
Theorem c15_identity_wiring :
  forall (cert : Type) (key_matches : cert -> cert -> bool) (id : Identity cert) (leaf : cert),
  certified_key key_matches id = inr leaf ->
  pem_decodes (id_cert id) = true /\
  (exists rest, id_cert id = SecCert leaf :: rest) /\
  exists k, id_key id = Some k /\ key_matches k leaf = true.
Proof. exact @certified_key_spec. Qed.

(* ... or after it.  The origin IS read by the model where the code reads it: it becomes the
   scheme and authority of the requests ([request_target], AddOrigin); the connector is called
   with the endpoint URI ([connect_uri], Reconnect), so who is reached, what is verified and who
   is served do not change *)
Theorem c15_origin_irrelevant :
  forall (cert ca dname : Type) (rc : @TlsConnector cert ca dname -> @server cert ca -> hs_client)
         (ra : TlsAcceptor -> option cert -> hs_server) (f : features)
         (o : scheme * option dname) (e : Endpoint) (srv : server),
  request_target (apply_origin (Some o) e) = o /\
  connect_uri (apply_origin (Some o) e) = connect_uri e /\
  connect_outcome rc f (apply_origin (Some o) e) srv = connect_outcome rc f e srv /\
  request_reaches_handler rc ra f (apply_origin (Some o) e) srv = request_reaches_handler rc ra f e srv /\
  peer_certs_exposed rc ra f (apply_origin (Some o) e) srv = peer_certs_exposed rc ra f e srv /\
  wire_of f (apply_origin (Some o) e) = wire_of f e.
Proof. exact @origin_only_names_requests. Qed.

(* root store only from configured CAs; platform / webpki roots only with their feature AND flag *)
Theorem c15_roots_only_configured :
  forall (cert ca dname : Type) (native_certs webpki_roots : list ca) (f : features)
         (c : @ClientTlsConfig cert ca dname) (r : ca),
  In r (configured_roots native_certs webpki_roots f c) ->
  In r (c_trust_anchors c) \/
  (exists blob, In blob (c_certs c) /\ In (SecCert r) blob) \/
  (f_native_roots f = true /\ c_with_native_roots c = true /\ In r native_certs) \/
  (f_webpki_roots f = true /\ c_with_webpki_roots c = true /\ In r webpki_roots).
Proof. exact @configured_roots_origin. Qed.

(* in particular, with neither flag set the platform / webpki sets are irrelevant even in a
   build that contains them *)
Theorem c15_roots_without_flags :
  forall (cert ca dname : Type) (native_certs webpki_roots : list ca) (f : features)
         (c : @ClientTlsConfig cert ca dname),
  c_with_native_roots c = false -> c_with_webpki_roots c = false ->
  configured_roots native_certs webpki_roots f c = c_trust_anchors c ++ flat_map pem_certs (c_certs c).
Proof. exact @configured_roots_no_flags. Qed.

(* https without TLS configuration: the error, nothing transmitted, no handler *)
Theorem c15_https_without_tls_fails :
  forall (cert ca dname : Type) (rc : @TlsConnector cert ca dname -> @server cert ca -> hs_client)
         (ra : TlsAcceptor -> option cert -> hs_server) (f : features) (e : Endpoint) (srv : server),
  f_tls f = true -> is_https (e_scheme e) = true -> e_tls e = None ->
  connect_outcome rc f e srv = ConnErr HttpsUriWithoutTlsSupport /\
  call_transmitted (connect_outcome rc f e srv) = false /\
  request_reaches_handler rc ra f e srv = false /\
  wire_of f e = 0.
Proof. exact @https_without_tls_fails. Qed.

(* never a fallback to plaintext, whatever rustls answers (no premise on the oracles), in a
   build with a TLS feature *)
Theorem c15_no_plaintext_fallback :
  forall (cert ca dname : Type) (rc : @TlsConnector cert ca dname -> @server cert ca -> hs_client)
         (f : features) (e : Endpoint) (srv : server),
  f_tls f = true -> is_https (e_scheme e) = true ->
  connect_outcome rc f e srv <> ConnPlain /\
  request_channel (connect_outcome rc f e srv) <> Some ChPlain /\
  wire_of f e <> 2.
Proof. exact @no_plaintext_fallback. Qed.

(* every way Connector::call can end for an https URI (TLS build): no TLS configuration, a failed
   handshake, a completed handshake without h2 and without the opt-out, or the TLS io *)
Theorem c15_https_connect_cases :
  forall (cert ca dname : Type) (rc : @TlsConnector cert ca dname -> @server cert ca -> hs_client)
         (f : features) (e : Endpoint) (srv : server),
  f_tls f = true -> is_https (e_scheme e) = true ->
  (e_tls e = None /\ connect_outcome rc f e srv = ConnErr HttpsUriWithoutTlsSupport) \/
  (exists t x, e_tls e = Some t /\ rc t srv = HsErr x /\
               connect_outcome rc f e srv = ConnErr (TlsHandshake x)) \/
  (exists t alpn, e_tls e = Some t /\ rc t srv = HsOk alpn /\ alpn <> Some ALPN_H2 /\
                  tc_assume_http2 t = false /\
                  connect_outcome rc f e srv = ConnErr H2NotNegotiated) \/
  (exists t alpn, e_tls e = Some t /\ rc t srv = HsOk alpn /\
                  (alpn = Some ALPN_H2 \/ tc_assume_http2 t = true) /\
                  connect_outcome rc f e srv = ConnTls alpn).
Proof. exact @https_connect_cases. Qed.

(* ... and the build assumption is necessary: without _tls-any the connector has no https
   branch at all *)
Theorem c15_build_without_tls_is_plaintext :
  forall (cert ca dname : Type) (rc : @TlsConnector cert ca dname -> @server cert ca -> hs_client)
         (f : features) (e : Endpoint) (srv : server),
  f_tls f = false -> connect_outcome rc f e srv = ConnPlain.
Proof. exact @build_without_tls_is_plaintext. Qed.

(* otherwise connecting fails and no request reaches any handler: after ANY connect error
   Connector::call hands no io to hyper ([request_channel] = None), so - whatever the listener is
   and whatever it yielded ([ra] arbitrary) - no connection carries a request, no handler runs,
   no certificate is exposed, no extension is built *)
Theorem c15_connect_failure_reaches_no_handler :
  forall (cert ca dname : Type) (rc : @TlsConnector cert ca dname -> @server cert ca -> hs_client)
         (ra : TlsAcceptor -> option cert -> hs_server) (f : features) (e : Endpoint) (srv : server)
         (x : conn_err),
  connect_outcome rc f e srv = ConnErr x ->
  request_channel (connect_outcome rc f e srv) = None /\
  call_transmitted (connect_outcome rc f e srv) = false /\
  handler_io rc ra f e srv = None /\
  request_reaches_handler rc ra f e srv = false /\
  peer_certs_exposed rc ra f e srv = None /\
  forall t : info_ty, handler_exts rc ra t f e srv = [].
Proof. exact @connect_failure_reaches_no_handler. Qed.

(* a handler runs EXACTLY when the listener yielded the connection (ServerIoStream) and the
   client wrote its request to its end of the same channel *)
Theorem c15_handler_iff :
  forall (cert ca dname : Type) (rc : @TlsConnector cert ca dname -> @server cert ca -> hs_client)
         (ra : TlsAcceptor -> option cert -> hs_server) (f : features) (e : Endpoint) (srv : server),
  request_reaches_handler rc ra f e srv = true <->
  exists io : server_io,
    listener_yields rc ra f e srv = Some io /\
    request_channel (connect_outcome rc f e srv) = Some (io_chan io).
Proof. exact @reaches_iff. Qed.

(* a handler runs only if BOTH the listener yielded the connection (its handshake completed)
   and the client transmitted a request; the server's handshake may complete for a call the
   client then refuses to send (H2NotNegotiated): Example c15_server_handshake_without_request *)
Theorem c15_handler_needs_both :
  forall (cert ca dname : Type) (rc : @TlsConnector cert ca dname -> @server cert ca -> hs_client)
         (ra : TlsAcceptor -> option cert -> hs_server) (f : features) (e : Endpoint) (srv : server),
  request_reaches_handler rc ra f e srv = true ->
  call_transmitted (connect_outcome rc f e srv) = true /\
  exists pc : option cert, server_handshake rc ra f e srv = SrvAccept pc.
Proof. exact @reaches_needs_both. Qed.

(* a TLS listener never runs a handler for a plaintext client *)
Theorem c15_plaintext_client_not_served_by_tls_listener :
  forall (cert ca dname : Type) (rc : @TlsConnector cert ca dname -> @server cert ca -> hs_client)
         (ra : TlsAcceptor -> option cert -> hs_server) (f : features) (e : Endpoint) (a : TlsAcceptor),
  f_tls f && is_https (e_scheme e) = false ->
  listener_yields rc ra f e (STls a) = None /\
  request_reaches_handler rc ra f e (STls a) = false.
Proof. exact @plaintext_client_not_served_by_tls_listener. Qed.

(* the server's verifier is exactly what was configured: none without a client CA blob; with one,
   EVERY certificate of the blob is a root (a bundle of several CAs), the blob decodes and is
   not empty of certificates; allow_unauthenticated only when client auth was made optional;
   ALPN is h2; the presented certificate is the identity's leaf *)
Theorem c15_acceptor_wiring :
  forall (cert ca : Type) (key_matches : cert -> cert -> bool) (s : @ServerTlsConfig cert ca) (a : TlsAcceptor),
  tls_acceptor key_matches s = AccOk a ->
  (exists id, s_identity s = Some id /\ certified_key key_matches id = inr (a_cert a)) /\
  a_alpn a = [ALPN_H2] /\
  a_verifier a = match s_client_ca_root s with
                 | None => NoClientAuth
                 | Some blob => WebPki (pem_certs blob) (s_client_auth_optional s)
                 end /\
  match s_client_ca_root s with
  | None => True
  | Some blob => pem_decodes blob = true /\ pem_certs blob <> []
  end.
Proof. exact @tls_acceptor_spec. Qed.

(* a client CA blob in which nothing is a certificate never yields a server (nobody could be
   verified against it) *)
Theorem c15_acceptor_needs_a_root :
  forall (cert ca : Type) (key_matches : cert -> cert -> bool) (s : @ServerTlsConfig cert ca)
         (blob : list (pem_sec ca)),
  s_client_ca_root s = Some blob -> pem_certs blob = [] ->
  forall a : TlsAcceptor, tls_acceptor key_matches s <> AccOk a.
Proof. exact @tls_acceptor_needs_a_root. Qed.

(* Server::tls_config followed or preceded by any other builder calls (layer rebuilds the struct
   field by field; timeout, limits, windows, ... use struct update): the listener is the TLS
   listener of that configuration *)
Theorem c15_builder_preserves_tls :
  forall (cert ca : Type) (key_matches : cert -> cert -> bool) (before after : list (@builder_op cert ca))
         (c : ServerTlsConfig) (a : TlsAcceptor),
  Forall not_tls_op before -> Forall not_tls_op after ->
  tls_acceptor key_matches c = AccOk a ->
  exists sv : Server,
    server_build key_matches server_builder (before ++ OpTls c :: after) = BuildOk sv /\
    server_listener sv = STls a.
Proof. exact @builder_preserves_tls. Qed.

(* ANY sequence of builder calls, tls_config any number of times: a build that succeeds listens
   with the acceptor of the LAST tls_config call, in plaintext if there was none *)
Theorem c15_builder_last_tls_wins :
  forall (cert ca : Type) (key_matches : cert -> cert -> bool) (ops : list (@builder_op cert ca))
         (sv : Server),
  server_build key_matches server_builder ops = BuildOk sv ->
  match last_tls ops with
  | None => server_listener sv = SPlain
  | Some c => exists a, tls_acceptor key_matches c = AccOk a /\ server_listener sv = STls a
  end.
Proof. exact @builder_last_tls_wins. Qed.

(* ... so a server built in any way whose last tls_config names a client CA blob serves only TLS
   clients with a certificate issued by a CA of that blob (or none, if optional) *)
Theorem c15_built_server_enforces_client_auth :
  forall (cert ca dname : Type) (client_cert_ok : ca -> cert -> bool) (key_matches : cert -> cert -> bool)
         (rc : @TlsConnector cert ca dname -> @server cert ca -> hs_client)
         (ra : TlsAcceptor -> option cert -> hs_server),
  accept_sound client_cert_ok ra ->
  forall (f : features) (ops : list builder_op) (c : ServerTlsConfig) (blob : list (pem_sec ca))
         (sv : Server) (e : Endpoint),
  server_build key_matches server_builder ops = BuildOk sv ->
  last_tls ops = Some c -> s_client_ca_root c = Some blob ->
  request_reaches_handler rc ra f e (server_listener sv) = true ->
  f_tls f && is_https (e_scheme e) = true /\
  ((exists (ci : cert) (r : ca), endpoint_identity e = Some ci /\ In (SecCert r) blob /\
                                 client_cert_ok r ci = true) \/
   (s_client_auth_optional c = true /\ endpoint_identity e = None)).
Proof.
  exact (fun cert ca dname cco km rc ra H => @built_server_enforces_client_auth cert ca dname cco km rc ra H).
Qed.

(* a server configured with a client CA blob serves only clients presenting a certificate issued
   by one of the CAs in it, unless client authentication was made optional and none was
   presented; and the handler's TlsConnectInfo holds exactly that certificate *)
Theorem c15_client_auth_enforced :
  forall (cert ca dname : Type) (client_cert_ok : ca -> cert -> bool)
         (rc : @TlsConnector cert ca dname -> @server cert ca -> hs_client)
         (ra : TlsAcceptor -> option cert -> hs_server),
  accept_sound client_cert_ok ra ->
  forall (key_matches : cert -> cert -> bool) (f : features) (s : ServerTlsConfig) (a : TlsAcceptor)
         (blob : list (pem_sec ca)) (e : Endpoint),
  tls_acceptor key_matches s = AccOk a -> s_client_ca_root s = Some blob ->
  request_reaches_handler rc ra f e (STls a) = true ->
  (exists (c : cert) (r : ca), endpoint_identity e = Some c /\ In (SecCert r) blob /\
                               client_cert_ok r c = true /\
                               peer_certs_exposed rc ra f e (STls a) = Some c) \/
  (s_client_auth_optional s = true /\ endpoint_identity e = None /\
   peer_certs_exposed rc ra f e (STls a) = None).
Proof. exact (fun cert ca dname cco rc ra H km => @client_auth_enforced cert ca dname cco km rc ra H). Qed.

(* The listener over time (io_stream.rs as a state machine; schedules are data).  An event is:
   the incoming stream yields connection k / an error / ends, or the accept task of connection k
   finishes; [accept k] is what that task produced.  For EVERY event list:
   a connection is handed to serve_internal only if it came in and ITS OWN accept task
   succeeded, with the stream that task produced - whatever the other connections do ... *)
Theorem c15_listener_yield_sound :
  forall (io : Type) (accept : nat -> option io) (evs : list sio_event) (tasks : list nat)
         (k : nat) (x : io),
  In (OutIo k x) (sio_run accept tasks evs) ->
  accept k = Some x /\ (In k tasks \/ In k (arrivals evs)).
Proof. exact @sio_yield_sound. Qed.

(* ... at most once ... *)
Theorem c15_listener_yield_once :
  forall (io : Type) (accept : nat -> option io) (evs : list sio_event) (tasks : list nat),
  NoDup (tasks ++ arrivals evs) -> NoDup (yielded (sio_run accept tasks evs)).
Proof. exact @sio_yield_once. Qed.

(* ... and it IS handed on once its accept task has succeeded, whatever happens in between (other
   connections coming in, handshakes that fail or never finish, non-fatal accept errors), unless
   the incoming stream ended first *)
Theorem c15_listener_yield_complete :
  forall (io : Type) (accept : nat -> option io) (pre mid post : list sio_event) (k : nat) (x : io),
  accept k = Some x -> no_end pre -> no_end mid ->
  In (OutIo k x) (sio_run accept [] (pre ++ EvIncoming k :: mid ++ EvTaskDone k :: post)).
Proof. exact @sio_yield_complete. Qed.

(* with the accept tasks of the TLS model: client k's connection reaches serve_internal, in any
   schedule, only as what [listener_yields] says for client k alone *)
Theorem c15_listener_any_schedule :
  forall (cert ca dname : Type) (rc : @TlsConnector cert ca dname -> @server cert ca -> hs_client)
         (ra : TlsAcceptor -> option cert -> hs_server) (f : features) (a : TlsAcceptor)
         (clients : nat -> Endpoint) (evs : list sio_event) (k : nat) (x : server_io),
  In (OutIo k x) (sio_run (fun j => listener_yields rc ra f (clients j) (STls a)) [] evs) ->
  listener_yields rc ra f (clients k) (STls a) = Some x /\ In k (arrivals evs).
Proof.
  exact (fun cert ca dname rc ra f a clients evs k x H =>
           match @sio_yield_sound _ (fun j => listener_yields rc ra f (clients j) (STls a)) evs [] k x H with
           | conj A (or_introl B) => match B with end
           | conj A (or_intror B) => conj A B
           end).
Qed.

(* A configuration value is immutable data: clone / derive shares no state.  A process is any list
   of steps on named values ([VNew] = ::new(), [VSet] = src[.clone()].setter(..), [VUse] =
   tls_config(src[.clone()]), [VNop] = anything else: servers serving, handshakes, calls).  For
   ALL such histories - values derived from values that were already used, the same value used
   for several servers, any order of building and using -: every value handed to tls_config is
   the evaluation of the chain of setter calls that made it ([vuses] over the symbolic values
   XNew / XSet) and of nothing else *)
Theorem c15_config_values_are_data :
  forall (V S : Type) (vnew : V) (vapp : V -> S -> V) (h : list vstep),
  vuses vnew vapp h = map (option_map (veval vnew vapp)) (vuses XNew (@XSet S) h).
Proof. exact @vuses_are_their_chains. Qed.

(* ... and what else happens in the process between the steps is irrelevant to the values *)
Theorem c15_other_activity_is_irrelevant_to_values :
  forall (V S : Type) (vnew : V) (vapp : V -> S -> V) (h : list vstep) (st : vstore),
  vrun vnew vapp st (filter (fun x => negb (is_nop x)) h) = vrun vnew vapp st h.
Proof. exact @vrun_nops_irrelevant. Qed.

(* for tonic's two configuration types, with calls to the servers built so far / through the
   endpoints built so far in between: the k-th server (endpoint) of the process is configured by
   the value its own setter chain evaluates to ([srv_history_run] / [cli_history_run] are what
   the correspondence run evaluates for the kinds sequence.derived_config) - hence the behaviour
   of a built server is a function of its own final configuration only *)
Theorem c15_built_servers_follow_their_own_chain :
  forall (native : list caid) (h : list sh_step),
  fst (srv_history_run native [] [] h) =
  map (option_map (veval server_tls_config_new apply_srv_setter)) (vuses XNew (@XSet _) (sh_vals h)).
Proof. exact srv_history_servers_are_their_chains. Qed.

Theorem c15_endpoints_follow_their_own_chain :
  forall (native : list caid) (s : scheme) (hh : option dn) (h : list ch_step),
  fst (cli_history_run native s hh [] [] h) =
  map (option_map (veval client_tls_config_new apply_cli_setter)) (vuses XNew (@XSet _) (ch_vals h)).
Proof. exact cli_history_endpoints_are_their_chains. Qed.

(* Session resumption cannot carry a client past another server's client authentication.
   Every tls_acceptor call builds a ServerConfig with a session store of its own
   ([spawn_servers]); rustls resumes a session only out of the store that holds it
   ([resume_sound], premise).  Then, for a client with a fixed identity and an initially empty
   session cache that visits listeners of the process in ANY order, every connection a listener
   yields satisfies that listener's own verifier: its peer certificates are the client's
   certificate verified against THIS listener's client CA (or none, if optional / no client auth) *)
Theorem c15_no_cross_server_resumption :
  forall (cert ca : Type) (client_cert_ok : ca -> cert -> bool) (key_matches : cert -> cert -> bool)
         (ra : @TlsAcceptor cert ca -> option cert -> hs_server),
  accept_sound client_cert_ok ra ->
  forall rr : listener -> ticket -> option (option cert),
  resume_sound rr ->
  forall (cfgs : list ServerTlsConfig) (ident : option cert) (ls : list listener)
         (l : listener) (pc : option cert),
  Forall (fun l0 => In l0 (listeners (spawn_servers key_matches cfgs))) ls ->
  In (l, SrvAccept pc) (combine ls (visits ra rr ident None ls)) ->
  match a_verifier (l_acc l) with
  | NoClientAuth => pc = None
  | WebPki roots allow =>
      (exists (c : cert) (r : ca), ident = Some c /\ pc = Some c /\ In r roots /\
                                   client_cert_ok r c = true) \/
      (allow = true /\ ident = None /\ pc = None)
  end.
Proof.
  exact (fun cert ca cco cu ra Ha rr Hr =>
           @no_cross_server_resumption_spawned cert ca cco cu ra Ha rr Hr).
Qed.

(* ... indeed what a listener yields does not depend on where the client has been before *)
Theorem c15_resumption_transparent :
  forall (cert ca : Type) (key_matches : cert -> cert -> bool)
         (ra : @TlsAcceptor cert ca -> option cert -> hs_server)
         (rr : listener -> ticket -> option (option cert)),
  resume_sound rr ->
  forall (cfgs : list ServerTlsConfig) (ident : option cert) (ls : list listener),
  Forall (fun l => In l (listeners (spawn_servers key_matches cfgs))) ls ->
  visits ra rr ident None ls = map (fun l => ra (l_acc l) ident) ls.
Proof.
  exact (fun cert ca cu ra rr Hr => @resumption_transparent_spawned cert ca cu ra rr Hr).
Qed.

(* the listeners of one process never share a store *)
Theorem c15_spawned_servers_own_their_stores :
  forall (cert ca : Type) (key_matches : cert -> cert -> bool) (cfgs : list (@ServerTlsConfig cert ca)),
  store_injective (listeners (spawn_servers key_matches cfgs)).
Proof. exact @spawn_servers_store_injective. Qed.

(* optional + a certificate that does not verify: rejected, not treated as anonymous *)
Theorem c15_bad_client_cert_always_rejected :
  forall (cert ca dname : Type) (client_cert_ok : ca -> cert -> bool)
         (rc : @TlsConnector cert ca dname -> @server cert ca -> hs_client)
         (ra : TlsAcceptor -> option cert -> hs_server),
  accept_sound client_cert_ok ra ->
  forall (f : features) (e : Endpoint) (a : TlsAcceptor) (roots : list ca) (allow : bool) (c : cert),
  a_verifier a = WebPki roots allow ->
  endpoint_identity e = Some c -> (forall r : ca, In r roots -> client_cert_ok r c = false) ->
  request_reaches_handler rc ra f e (STls a) = false.
Proof. exact @bad_client_cert_always_rejected. Qed.

(* handlers see peer certificates iff a client certificate was presented and verified *)
Theorem c15_peer_certs_iff_presented :
  forall (cert ca dname : Type) (client_cert_ok : ca -> cert -> bool)
         (rc : @TlsConnector cert ca dname -> @server cert ca -> hs_client)
         (ra : TlsAcceptor -> option cert -> hs_server),
  accept_sound client_cert_ok ra ->
  forall (f : features) (e : Endpoint) (a : TlsAcceptor),
  request_reaches_handler rc ra f e (STls a) = true ->
  forall c : cert,
  peer_certs_exposed rc ra f e (STls a) = Some c <->
  exists (roots : list ca) (allow : bool) (r : ca),
    a_verifier a = WebPki roots allow /\ endpoint_identity e = Some c /\ In r roots /\
    client_cert_ok r c = true.
Proof. exact @peer_certs_iff_presented. Qed.

(* What the handler finds in its request ([handler_exts]: ServerIo::connect_info + ConnectInfo::call,
   the function the correspondence run evaluates).  Over a TLS listener: the io's own connect
   info and the TlsConnectInfo around it holding the session's peer certificates;
   Request::peer_certs (a lookup of TlsConnectInfo<TcpConnectInfo>) returns them iff the io's
   connect info is TcpConnectInfo - over any other IO type it answers None although the
   certificates are in the extensions *)
Theorem c15_handler_sees_peer_certs :
  forall (cert ca dname : Type) (rc : @TlsConnector cert ca dname -> @server cert ca -> hs_client)
         (ra : TlsAcceptor -> option cert -> hs_server) (f : features) (e : Endpoint) (a : TlsAcceptor)
         (t : info_ty),
  request_reaches_handler rc ra f e (STls a) = true ->
  let exts := handler_exts rc ra t f e (STls a) in
  exts = [ExtConn t; ExtTls t (peer_certs_exposed rc ra f e (STls a))] /\
  ext_tls_certs t exts = Some (peer_certs_exposed rc ra f e (STls a)) /\
  request_peer_certs exts = match t with
                            | InfoTcp => peer_certs_exposed rc ra f e (STls a)
                            | InfoOther => None
                            end.
Proof. exact @handler_sees_peer_certs. Qed.

(* over a plaintext listener there is no TlsConnectInfo of any type *)
Theorem c15_plaintext_handler_sees_no_tls_info :
  forall (cert ca dname : Type) (rc : @TlsConnector cert ca dname -> @server cert ca -> hs_client)
         (ra : TlsAcceptor -> option cert -> hs_server) (f : features) (e : Endpoint) (t t' : info_ty),
  ext_tls_certs t' (handler_exts rc ra t f e SPlain) = None /\
  request_peer_certs (handler_exts rc ra t f e SPlain) = None.
Proof. exact @plaintext_handler_sees_no_tls_info. Qed.

(* whatever Request::peer_certs returns is the verified certificate of a connection on which a
   handler runs *)
Theorem c15_request_peer_certs :
  forall (cert ca dname : Type) (rc : @TlsConnector cert ca dname -> @server cert ca -> hs_client)
         (ra : TlsAcceptor -> option cert -> hs_server) (f : features) (e : Endpoint) (srv : server)
         (t : info_ty) (c : cert),
  request_peer_certs (handler_exts rc ra t f e srv) = Some c ->
  t = InfoTcp /\ request_reaches_handler rc ra f e srv = true /\
  peer_certs_exposed rc ra f e srv = Some c.
Proof. exact @request_peer_certs_sound. Qed.

(* end to end from the two configurations: a handler ran for an https endpoint => everything *)
Theorem c15_served_over_https_implies_all :
  forall (cert ca dname : Type) (chain_ok : list ca -> cert -> bool) (name_ok : dname -> cert -> bool)
         (client_cert_ok : ca -> cert -> bool) (valid_name : dname -> bool)
         (key_matches : cert -> cert -> bool) (native_certs webpki_roots : list ca)
         (rc : @TlsConnector cert ca dname -> @server cert ca -> hs_client)
         (ra : TlsAcceptor -> option cert -> hs_server),
  connect_sound chain_ok name_ok rc -> accept_sound client_cert_ok ra ->
  forall (f : features) (h : option dname) (c : ClientTlsConfig) (e : Endpoint) (srv : server),
  f_tls f = true ->
  endpoint_tls_config valid_name key_matches native_certs webpki_roots f (endpoint_from_uri Https h) c = inr e ->
  request_reaches_handler rc ra f e srv = true ->
  exists (a : TlsAcceptor) (d : dname) (alpn : option proto),
    srv = STls a /\ effective_domain c h = Some d /\
    chain_ok (configured_roots native_certs webpki_roots f c) (a_cert a) = true /\
    name_ok d (a_cert a) = true /\
    connect_outcome rc f e srv = ConnTls alpn /\
    (alpn = Some ALPN_H2 \/ c_assume_http2 c = true) /\
    match a_verifier a with
    | NoClientAuth => peer_certs_exposed rc ra f e srv = None
    | WebPki roots allow =>
        (exists (ci : cert) (r : ca), identity_leaf key_matches (c_identity c) = Some ci /\
                           In r roots /\ client_cert_ok r ci = true /\
                           peer_certs_exposed rc ra f e srv = Some ci) \/
        (allow = true /\ c_identity c = None /\ peer_certs_exposed rc ra f e srv = None)
    end.
Proof.
  exact (fun cert ca dname ck nk cco vn km nat web rc ra Hc Ha =>
           @served_over_https_implies_all cert ca dname ck nk cco vn km nat web rc ra Hc Ha).
Qed.

(* the same with Endpoint::origin called before and/or after tls_config: the certificate is
   matched against the configured domain or the URI host [h], whatever the origins are *)
Theorem c15_served_over_https_implies_all_with_origin :
  forall (cert ca dname : Type) (chain_ok : list ca -> cert -> bool) (name_ok : dname -> cert -> bool)
         (client_cert_ok : ca -> cert -> bool) (valid_name : dname -> bool)
         (key_matches : cert -> cert -> bool) (native_certs webpki_roots : list ca)
         (rc : @TlsConnector cert ca dname -> @server cert ca -> hs_client)
         (ra : TlsAcceptor -> option cert -> hs_server),
  connect_sound chain_ok name_ok rc -> accept_sound client_cert_ok ra ->
  forall (f : features) (o_before o_after : option (scheme * option dname)) (h : option dname)
         (c : ClientTlsConfig) (e0 : Endpoint) (srv : server),
  f_tls f = true ->
  endpoint_tls_config valid_name key_matches native_certs webpki_roots f
    (apply_origin o_before (endpoint_from_uri Https h)) c = inr e0 ->
  let e := apply_origin o_after e0 in
  request_reaches_handler rc ra f e srv = true ->
  exists (a : TlsAcceptor) (d : dname) (alpn : option proto),
    srv = STls a /\ effective_domain c h = Some d /\
    chain_ok (configured_roots native_certs webpki_roots f c) (a_cert a) = true /\
    name_ok d (a_cert a) = true /\
    connect_outcome rc f e srv = ConnTls alpn /\
    (alpn = Some ALPN_H2 \/ c_assume_http2 c = true) /\
    match a_verifier a with
    | NoClientAuth => peer_certs_exposed rc ra f e srv = None
    | WebPki roots allow =>
        (exists (ci : cert) (r : ca), identity_leaf key_matches (c_identity c) = Some ci /\
                           In r roots /\ client_cert_ok r ci = true /\
                           peer_certs_exposed rc ra f e srv = Some ci) \/
        (allow = true /\ c_identity c = None /\ peer_certs_exposed rc ra f e srv = None)
    end.
Proof.
  exact (fun cert ca dname ck nk cco vn km nat web rc ra Hc Ha =>
           @served_over_https_implies_all_o cert ca dname ck nk cco vn km nat web rc ra Hc Ha).
Qed.

(* the same from ANY Uri endpoint for an https URI ([e00]: an origin set, an earlier tls_config
   done - two tls_config calls: the second configuration is the one that counts) *)
Theorem c15_served_over_https_implies_all_gen :
  forall (cert ca dname : Type) (chain_ok : list ca -> cert -> bool) (name_ok : dname -> cert -> bool)
         (client_cert_ok : ca -> cert -> bool) (valid_name : dname -> bool)
         (key_matches : cert -> cert -> bool) (native_certs webpki_roots : list ca)
         (rc : @TlsConnector cert ca dname -> @server cert ca -> hs_client)
         (ra : TlsAcceptor -> option cert -> hs_server),
  connect_sound chain_ok name_ok rc -> accept_sound client_cert_ok ra ->
  forall (f : features) (e00 : Endpoint) (o_after : option (scheme * option dname))
         (c : ClientTlsConfig) (e0 : Endpoint) (srv : server),
  f_tls f = true -> e_scheme e00 = Https ->
  endpoint_tls_config valid_name key_matches native_certs webpki_roots f e00 c = inr e0 ->
  let e := apply_origin o_after e0 in
  request_reaches_handler rc ra f e srv = true ->
  exists (a : TlsAcceptor) (d : dname) (alpn : option proto),
    srv = STls a /\ effective_domain c (e_host e00) = Some d /\
    chain_ok (configured_roots native_certs webpki_roots f c) (a_cert a) = true /\
    name_ok d (a_cert a) = true /\
    connect_outcome rc f e srv = ConnTls alpn /\
    (alpn = Some ALPN_H2 \/ c_assume_http2 c = true) /\
    match a_verifier a with
    | NoClientAuth => peer_certs_exposed rc ra f e srv = None
    | WebPki roots allow =>
        (exists (ci : cert) (r : ca), identity_leaf key_matches (c_identity c) = Some ci /\
                           In r roots /\ client_cert_ok r ci = true /\
                           peer_certs_exposed rc ra f e srv = Some ci) \/
        (allow = true /\ c_identity c = None /\ peer_certs_exposed rc ra f e srv = None)
    end.
Proof.
  exact (fun cert ca dname ck nk cco vn km nat web rc ra Hc Ha =>
           @served_over_https_implies_all_gen cert ca dname ck nk cco vn km nat web rc ra Hc Ha).
Qed.

(* For the reference handshake (what rustls does as far as the three predicates determine it; the
   instance the correspondence run compares with real handshakes) the property is an EQUIVALENCE
   for EVERY configuration, not only the cells of the matrix: over an https endpoint with a
   connector, against a TLS listener, a handler runs iff the ALPN negotiation does not abort, the
   certificate chains to the connector's roots and matches its name, h2 was selected or the
   caller opted out, and the listener's verifier admits the client's identity *)
Theorem c15_reference_served_iff :
  forall (cert ca dname : Type) (chain_ok : list ca -> cert -> bool) (name_ok : dname -> cert -> bool)
         (client_cert_ok : ca -> cert -> bool) (anchor_named : list ca -> cert -> bool)
         (f : features) (e : @Endpoint cert ca dname) (a : TlsAcceptor) (t : TlsConnector),
  f_tls f = true -> is_https (e_scheme e) = true -> e_tls e = Some t ->
  (request_reaches_handler (ref_connect chain_ok name_ok anchor_named) (ref_accept client_cert_ok)
     f e (STls a) = true <->
   ref_negotiate (tc_alpn t) (a_alpn a) <> NegAbort /\
   chain_ok (tc_roots t) (a_cert a) = true /\
   name_ok (tc_domain t) (a_cert a) = true /\
   (ref_negotiate (tc_alpn t) (a_alpn a) = NegProto ALPN_H2 \/ tc_assume_http2 t = true) /\
   ref_admits client_cert_ok a (tc_identity t) = true).
Proof. exact @ref_served_iff. Qed.

(* The complete matrix (finite domain, bound in the statement: every value of the record
   [cell] = 3 roots x 3 domain configurations x 2 URI hosts x 2 server certificates x 3 server
   ALPN lists x assume_http2 x 4 client-auth configurations x 3 client identities = 2592 cells,
   a superset of the 3x3x3x2x3x3 matrix of the property):
   the wiring model run on the cell serves the call exactly when the declarative reading of the
   property says so, exposes exactly the verified client certificate, never goes plaintext. *)
Theorem c15_matrix_forallb : forallb cell_ok all_cells = true /\ length all_cells = 2592%nat.
Proof. exact (conj matrix_forallb all_cells_count). Qed.

Theorem c15_matrix_complete : forall x : cell,
  In x all_cells /\
  cell_served x = spec_served x /\ cell_peer_certs x = spec_peer_certs x /\ cell_plaintext x = false.
Proof. exact (fun x => conj (all_cells_complete x) (matrix_complete x)). Qed.

(* the premises are satisfiable: the reference handshake obeys both contracts *)
Theorem c15_contract_satisfiable :
  connect_sound t_chain_ok t_name_ok t_connect /\ accept_sound t_client_cert_ok t_accept /\
  @resume_sound certid caid ref_resume.
Proof. exact (conj t_connect_sound (conj t_accept_sound (ref_resume_sound certid caid))). Qed.

(* the separate stores are necessary: one store behind an open and a strict listener lets a
   client without certificate into the strict one (first line), separate stores do not (second) *)
Example c15_shared_store_breaks_client_auth :
  let open_a := {| a_cert := SrvExample; a_verifier := NoClientAuth; a_alpn := [ALPN_H2] |} in
  let strict_a := {| a_cert := SrvExample; a_verifier := WebPki [CA2] false; a_alpn := [ALPN_H2] |} in
  visits t_accept ref_resume None None
    [ {| l_store := 0; l_acc := open_a |}; {| l_store := 0; l_acc := strict_a |} ]
    = [SrvAccept None; SrvAccept None] /\
  visits t_accept ref_resume None None
    [ {| l_store := 0; l_acc := open_a |}; {| l_store := 1; l_acc := strict_a |} ]
    = [SrvAccept None; SrvReject].
Proof. exact shared_store_breaks_client_auth. Qed.

(* non-vacuity: a served cell with an exposed certificate, and the single deviations from it *)
Example c15_served_cell :
  let x := mkCell RightCA DomFromUri HostExample SCertExample AlpnH2 false CaRequired IdValid in
  cell_served x = true /\ cell_peer_certs x = Some CliCA2.
Proof. split; reflexivity. Qed.
Example c15_optional_other_ca_rejected :
  cell_served (mkCell RightCA DomFromUri HostExample SCertExample AlpnH2 false CaOptional IdOtherCA) = false /\
  cell_served (mkCell RightCA DomFromUri HostExample SCertExample AlpnH2 false CaOptional IdNone) = true.
Proof. split; reflexivity. Qed.
Example c15_no_alpn_needs_opt_out :
  cell_served (mkCell RightCA DomFromUri HostExample SCertExample AlpnNone false CaNone IdNone) = false /\
  cell_served (mkCell RightCA DomFromUri HostExample SCertExample AlpnNone true CaNone IdNone) = true.
Proof. split; reflexivity. Qed.
Example c15_server_handshake_without_request :
  let x := mkCell RightCA DomFromUri HostExample SCertExample AlpnNone false CaNone IdNone in
  exists srv ep, cell_server x = Some srv /\ cell_endpoint x = inr ep /\
    t_srv_handshake ep srv = SrvAccept None /\
    t_outcome ep srv = ConnErr H2NotNegotiated /\ t_reaches ep srv = false.
Proof. exact server_handshake_without_request. Qed.
(* the platform trusting the server's CA changes nothing unless the flag is set *)
Example c15_native_roots_need_the_flag :
  obs_call [CA1] true Https (Some DExample) (Some (ca_certificate cfg0 (pem1 CA2))) (mk_srv SrvExample None false)
    = Nd [Nn 3; Nn 0; Nd []; Nd []; Nn 0; Nn 1] /\
  obs_call [CA1] true Https (Some DExample) (Some (with_native_roots (ca_certificate cfg0 (pem1 CA2))))
    (mk_srv SrvExample None false) = Nd [Nn 0; Nn 1; Nd []; Nd []; Nn 1; Nn 1].
Proof. split; reflexivity. Qed.
Example c15_transmitted_is_reachable :
  exists e srv, is_https (e_scheme e) = true /\ call_transmitted (t_outcome e srv) = true /\
                t_reaches e srv = true.
Proof.
  exists {| e_uds := false; e_scheme := Https; e_host := Some DExample; e_origin := None;
            e_tls := Some {| tc_roots := [CA1]; tc_identity := None; tc_alpn := [ALPN_H2];
                             tc_domain := DExample; tc_assume_http2 := false |} |},
         (mk_srv SrvExample None false).
  repeat split; reflexivity.
Qed.

(* a client CA blob holding two CAs admits the certificates of both and only those; junk next to
   a CA is skipped; a blob without a certificate and a blob with an undecodable section are
   refused when the server is configured *)
Example c15_client_ca_bundle :
  let srv := fun blob => mk_server_cfg_pem (Some (good_id SrvExample)) (Some blob) false in
  let cl := fun id => Some (identity (ca_certificate cfg0 (pem1 CA1)) (good_id id)) in
  obs_call_cfg [] Https (Some DExample) (cl CliCA2) (srv [SecCert CA1; SecCert CA2])
    = Nd [Nn 0; Nn 1; Nd [Nn 1]; Nd [Nn 1]; Nn 1; Nn 1] /\
  obs_call_cfg [] Https (Some DExample) (cl CliCA1) (srv [SecCert CA1; SecCert CA2])
    = Nd [Nn 0; Nn 1; Nd [Nn 2]; Nd [Nn 2]; Nn 1; Nn 1] /\
  obs_call_cfg [] Https (Some DExample) (cl CliCA1) (srv [SecJunk; SecCert CA2])
    = Nd [Nn 6; Nn 0; Nd []; Nd []; Nn 0; Nn 1] /\
  obs_acceptor (srv [SecJunk]) = Nd [Nn 2; Nn 7] /\
  obs_acceptor (srv [SecCert CA2; SecBroken]) = Nd [Nn 2; Nn 5].
Proof. repeat split; reflexivity. Qed.
(* two tls_config calls: the last one decides *)
Example c15_last_tls_config_decides :
  let strict := OpTls (mk_server_cfg (Some SrvExample) (Some CA2) false) in
  let open := OpTls (mk_server_cfg (Some SrvExample) None false) in
  let anon := Some (ca_certificate cfg0 (pem1 CA1)) in
  obs_call_built [] Https (Some DExample) anon [open; OpLayer; strict]
    = Nd [Nn 6; Nn 0; Nd []; Nd []; Nn 0; Nn 1] /\
  obs_call_built [] Https (Some DExample) anon [strict; OpLayer; open]
    = Nd [Nn 0; Nn 1; Nd []; Nd []; Nn 1; Nn 1].
Proof. split; reflexivity. Qed.
(* the origin is where the requests say they go, the URI is where the connection goes *)
Example c15_origin_names_requests_only :
  obs_call_origin [] (Some (Http, Some DOther)) None Https (Some DExample)
    (ca_certificate cfg0 (pem1 CA1)) (mk_srv SrvExample None false)
  = Nd [Nd [Nn 0; Nn 1; Nd []; Nd []; Nn 1; Nn 1]; Nd [Nn 0; Nd [Nn 2]]] /\
  obs_call_origin [] (Some (Https, Some DOther)) None Https (Some DExample)
    (ca_certificate cfg0 (pem1 CA1)) (mk_srv SrvOther None false)
  = Nd [Nd [Nn 4; Nn 0; Nd []; Nd []; Nn 0; Nn 1]; Nd []].
Proof. split; reflexivity. Qed.

(* a schedule: connection 0 never finishes its handshake, 1 fails, 2 succeeds, 3 arrives after 2 was served *)
Example c15_listener_schedule :
  sio_run (fun k => match k with 2 => Some 22 | 3 => Some 33 | _ => None end)%nat []
    [EvIncoming 0; EvIncoming 1; EvIncoming 2; EvTaskDone 1; EvIncomingErr false; EvTaskDone 2;
     EvIncoming 3; EvTaskDone 3; EvIncomingEnd; EvTaskDone 0]%nat
  = [OutIo 2 22; OutIo 3 33]%nat.
Proof. reflexivity. Qed.

(* base = new().identity(id); server A = tls_config(base.clone()) serves an anonymous client; THEN
   server B = tls_config(base.client_ca_root(CA2)): B refuses the anonymous client and the
   client of the other CA, serves and exposes the CA2 client; A still serves anonymously *)
Example c15_derived_config_after_use :
  let anon := Some (ca_certificate cfg0 (pem1 CA1)) in
  let with_id := fun c => Some (identity (ca_certificate cfg0 (pem1 CA1)) (good_id c)) in
  obs_srv_history []
    [ ShVal (VNew 0); ShVal (VSet 0 0 (SetIdentity (good_id SrvExample)) false);
      ShVal (VUse 0 true); ShCall 0 Https (Some DExample) anon;
      ShVal (VSet 1 0 (SetClientCa (pem1 CA2)) false); ShVal (VUse 1 false);
      ShCall 1 Https (Some DExample) anon; ShCall 1 Https (Some DExample) (with_id CliCA1);
      ShCall 1 Https (Some DExample) (with_id CliCA2); ShCall 0 Https (Some DExample) anon ]%nat
  = Nd [ Nd [Nn 0; Nn 1; Nd []; Nd []; Nn 1; Nn 1];
         Nd [Nn 6; Nn 0; Nd []; Nd []; Nn 0; Nn 1];
         Nd [Nn 6; Nn 0; Nd []; Nd []; Nn 0; Nn 1];
         Nd [Nn 0; Nn 1; Nd [Nn 1]; Nd [Nn 1]; Nn 1; Nn 1];
         Nd [Nn 0; Nn 1; Nd []; Nd []; Nn 1; Nn 1] ].
Proof. reflexivity. Qed.

Print Assumptions c15_call_sent_implies_authenticated.
Print Assumptions c15_https_without_tls_fails.
Print Assumptions c15_client_auth_enforced.
Print Assumptions c15_peer_certs_iff_presented.
Print Assumptions c15_served_over_https_implies_all.
Print Assumptions c15_verified_name_never_from_origin.
Print Assumptions c15_served_over_https_implies_all_with_origin.
Print Assumptions c15_no_cross_server_resumption.
Print Assumptions c15_builder_preserves_tls.
Print Assumptions c15_built_server_enforces_client_auth.
Print Assumptions c15_matrix_complete.
Print Assumptions c15_connect_failure_reaches_no_handler.
Print Assumptions c15_handler_iff.
Print Assumptions c15_https_connect_cases.
Print Assumptions c15_builder_last_tls_wins.
Print Assumptions c15_handler_sees_peer_certs.
Print Assumptions c15_request_peer_certs.
Print Assumptions c15_acceptor_wiring.
Print Assumptions c15_served_over_https_implies_all_gen.
Print Assumptions c15_reference_served_iff.
Print Assumptions c15_config_values_are_data.
Print Assumptions c15_built_servers_follow_their_own_chain.
Print Assumptions c15_endpoints_follow_their_own_chain.
Print Assumptions c15_listener_yield_sound.
Print Assumptions c15_listener_yield_once.
Print Assumptions c15_listener_yield_complete.
