(* C15 - TLS channels and servers authenticate the peer and insist on HTTP/2.

   PARTIAL: all cryptographic verification (chain building, signatures, validity, name
   matching, the TLS state machine itself) is rustls'.  rustls appears as two handshake
   oracles [rc] (client side) and [ra] (server side) and three predicates [chain_ok roots cert],
   [name_ok domain cert], [client_cert_ok ca cert]; what is assumed of the oracles is the
   explicit premise [connect_sound] / [accept_sound] of each theorem (Model/Tls.v).  The
   theorems are about tonic's WIRING: which root store, which name, which ALPN rule, which
   client verifier, what happens without TLS configuration, what the handler gets to see.
   In the finite matrix the three predicates are determined by the certificate facts of the
   test PKI and the oracles are the reference handshake, which the harness compares with real
   rustls handshakes cell by cell.

   Statements only: each theorem is closed by [exact] of a lemma proved in Proofs/Tls.v. *)
From Coq Require Import List Bool NArith.
From Verif Require Import Lib.Obs Model.Tls Proofs.Tls.
Import ListNotations.
Open Scope N_scope.

(* Over an https endpoint a call is transmitted only after the server presented a certificate
   that chains to the connector's roots and matches its domain, and h2 was negotiated unless
   the caller opted out. *)
Theorem c15_call_sent_implies_authenticated :
  forall (cert ca dname : Type) (chain_ok : list ca -> cert -> bool) (name_ok : dname -> cert -> bool)
         (rc : @TlsConnector cert ca dname -> @server cert ca -> hs_client),
  connect_sound chain_ok name_ok rc ->
  forall (e : Endpoint) (srv : server),
  is_https (e_scheme e) = true ->
  call_transmitted (connect_outcome rc e srv) = true ->
  exists (t : TlsConnector) (a : TlsAcceptor) (alpn : option proto),
    e_tls e = Some t /\ srv = STls a /\ connect_outcome rc e srv = ConnTls alpn /\
    chain_ok (tc_roots t) (a_cert a) = true /\
    name_ok (tc_domain t) (a_cert a) = true /\
    (alpn = Some ALPN_H2 \/ tc_assume_http2 t = true).
Proof. exact @call_sent_implies_authenticated. Qed.

(* the connector's roots are exactly the configured ones, its name is the configured domain or
   else the URI host, it offers h2 only *)
Theorem c15_tls_config_wiring :
  forall (cert ca dname : Type) (valid_name : dname -> bool) (native_certs webpki_roots : list ca)
         (f : features) (s : scheme) (h : option dname) (c : @ClientTlsConfig cert ca dname) (e : Endpoint),
  endpoint_tls_config valid_name native_certs webpki_roots f (endpoint_from_uri s h) c = inr e ->
  e_scheme e = s /\
  exists (t : TlsConnector) (d : dname),
    e_tls e = Some t /\
    effective_domain c h = Some d /\ valid_name d = true /\ tc_domain t = d /\
    tc_roots t = configured_roots native_certs webpki_roots f c /\
    tc_identity t = c_identity c /\ tc_assume_http2 t = c_assume_http2 c /\
    tc_alpn t = [ALPN_H2].
Proof. exact @tls_config_wiring. Qed.

(* root store only from configured CAs; platform / webpki roots only with their feature AND flag *)
Theorem c15_roots_only_configured :
  forall (cert ca dname : Type) (native_certs webpki_roots : list ca) (f : features)
         (c : @ClientTlsConfig cert ca dname) (r : ca),
  In r (configured_roots native_certs webpki_roots f c) ->
  In r (c_trust_anchors c) \/ In r (c_certs c) \/
  (f_native_roots f = true /\ c_with_native_roots c = true /\ In r native_certs) \/
  (f_webpki_roots f = true /\ c_with_webpki_roots c = true /\ In r webpki_roots).
Proof. exact @configured_roots_origin. Qed.

(* https without TLS configuration: the error, nothing transmitted, no handler *)
Theorem c15_https_without_tls_fails :
  forall (cert ca dname : Type) (rc : @TlsConnector cert ca dname -> @server cert ca -> hs_client)
         (ra : TlsAcceptor -> option cert -> hs_server) (e : Endpoint) (srv : server),
  is_https (e_scheme e) = true -> e_tls e = None ->
  connect_outcome rc e srv = ConnErr HttpsUriWithoutTlsSupport /\
  call_transmitted (connect_outcome rc e srv) = false /\
  request_reaches_handler rc ra e srv = false.
Proof. exact @https_without_tls_fails. Qed.

(* never a fallback to plaintext, whatever rustls answers (no premise on the oracles) *)
Theorem c15_no_plaintext_fallback :
  forall (cert ca dname : Type) (rc : @TlsConnector cert ca dname -> @server cert ca -> hs_client)
         (e : Endpoint) (srv : server),
  is_https (e_scheme e) = true -> connect_outcome rc e srv <> ConnPlain.
Proof. exact @no_plaintext_fallback. Qed.

(* otherwise connecting fails and no request reaches any handler *)
Theorem c15_connect_failure_reaches_no_handler :
  forall (cert ca dname : Type) (rc : @TlsConnector cert ca dname -> @server cert ca -> hs_client)
         (ra : TlsAcceptor -> option cert -> hs_server) (e : Endpoint) (srv : server) (x : conn_err),
  connect_outcome rc e srv = ConnErr x -> request_reaches_handler rc ra e srv = false.
Proof. exact @connect_failure_reaches_no_handler. Qed.

(* the server's verifier is exactly what was configured: none without a client CA,
   allow_unauthenticated only when client auth was made optional; ALPN is h2 *)
Theorem c15_acceptor_wiring :
  forall (cert ca : Type) (s : @ServerTlsConfig cert ca) (a : TlsAcceptor),
  tls_acceptor s = AccOk a ->
  s_identity s = Some (a_cert a) /\ a_alpn a = [ALPN_H2] /\
  a_verifier a = match s_client_ca_root s with
                 | Some root => WebPki root (s_client_auth_optional s)
                 | None => NoClientAuth
                 end.
Proof. exact @tls_acceptor_spec. Qed.

(* a server configured with a client CA serves only clients presenting a certificate issued by
   it, unless client authentication was made optional and none was presented *)
Theorem c15_client_auth_enforced :
  forall (cert ca dname : Type) (client_cert_ok : ca -> cert -> bool)
         (rc : @TlsConnector cert ca dname -> @server cert ca -> hs_client)
         (ra : TlsAcceptor -> option cert -> hs_server),
  accept_sound client_cert_ok ra ->
  forall (s : ServerTlsConfig) (a : TlsAcceptor) (root : ca) (e : Endpoint),
  tls_acceptor s = AccOk a -> s_client_ca_root s = Some root ->
  request_reaches_handler rc ra e (STls a) = true ->
  (exists c : cert, endpoint_identity e = Some c /\ client_cert_ok root c = true) \/
  (s_client_auth_optional s = true /\ endpoint_identity e = None).
Proof. exact @client_auth_enforced. Qed.

(* optional + a certificate that does not verify: rejected, not treated as anonymous *)
Theorem c15_bad_client_cert_always_rejected :
  forall (cert ca dname : Type) (client_cert_ok : ca -> cert -> bool)
         (rc : @TlsConnector cert ca dname -> @server cert ca -> hs_client)
         (ra : TlsAcceptor -> option cert -> hs_server),
  accept_sound client_cert_ok ra ->
  forall (e : Endpoint) (a : TlsAcceptor) (root : ca) (allow : bool) (c : cert),
  a_verifier a = WebPki root allow ->
  endpoint_identity e = Some c -> client_cert_ok root c = false ->
  request_reaches_handler rc ra e (STls a) = false.
Proof. exact @bad_client_cert_always_rejected. Qed.

(* handlers see peer certificates iff a client certificate was presented and verified *)
Theorem c15_peer_certs_iff_presented :
  forall (cert ca dname : Type) (client_cert_ok : ca -> cert -> bool)
         (rc : @TlsConnector cert ca dname -> @server cert ca -> hs_client)
         (ra : TlsAcceptor -> option cert -> hs_server),
  accept_sound client_cert_ok ra ->
  forall (e : Endpoint) (a : TlsAcceptor),
  request_reaches_handler rc ra e (STls a) = true ->
  forall c : cert,
  peer_certs_exposed rc ra e (STls a) = Some c <->
  exists (root : ca) (allow : bool),
    a_verifier a = WebPki root allow /\ endpoint_identity e = Some c /\ client_cert_ok root c = true.
Proof. exact @peer_certs_iff_presented. Qed.

(* end to end from the two configurations: a handler ran for an https endpoint => everything *)
Theorem c15_served_over_https_implies_all :
  forall (cert ca dname : Type) (chain_ok : list ca -> cert -> bool) (name_ok : dname -> cert -> bool)
         (client_cert_ok : ca -> cert -> bool) (valid_name : dname -> bool)
         (native_certs webpki_roots : list ca)
         (rc : @TlsConnector cert ca dname -> @server cert ca -> hs_client)
         (ra : TlsAcceptor -> option cert -> hs_server),
  connect_sound chain_ok name_ok rc -> accept_sound client_cert_ok ra ->
  forall (f : features) (h : option dname) (c : ClientTlsConfig) (e : Endpoint) (srv : server),
  endpoint_tls_config valid_name native_certs webpki_roots f (endpoint_from_uri Https h) c = inr e ->
  request_reaches_handler rc ra e srv = true ->
  exists (a : TlsAcceptor) (d : dname) (alpn : option proto),
    srv = STls a /\ effective_domain c h = Some d /\
    chain_ok (configured_roots native_certs webpki_roots f c) (a_cert a) = true /\
    name_ok d (a_cert a) = true /\
    connect_outcome rc e srv = ConnTls alpn /\
    (alpn = Some ALPN_H2 \/ c_assume_http2 c = true) /\
    match a_verifier a with
    | NoClientAuth => peer_certs_exposed rc ra e srv = None
    | WebPki root allow =>
        (exists ci : cert, c_identity c = Some ci /\ client_cert_ok root ci = true /\
                           peer_certs_exposed rc ra e srv = Some ci) \/
        (allow = true /\ c_identity c = None /\ peer_certs_exposed rc ra e srv = None)
    end.
Proof. exact @served_over_https_implies_all. Qed.

(* The complete matrix (finite domain, bound in the statement: every value of the record
   [cell] = 3 roots x 3 domain configurations x 2 URI hosts x 2 server certificates x 3 server
   ALPN lists x assume_http2 x 4 client-auth configurations x 3 client identities = 2592 cells,
   a superset of the 3x3x3x2x3x3 matrix of the property):
   the wiring model run on the cell serves the call exactly when the declarative reading of the
   property says so, exposes exactly the verified client certificate, never goes plaintext. *)
Theorem c15_matrix_forallb : forallb cell_ok all_cells = true /\ length all_cells = 2592%nat.
Proof. exact (conj matrix_forallb all_cells_count). Qed.

Theorem c15_matrix_complete : forall x : cell,
  In x all_cells /\
  cell_served x = spec_served x /\ cell_peer_certs x = spec_peer_certs x /\ cell_plaintext x = false.
Proof. exact (fun x => conj (all_cells_complete x) (matrix_complete x)). Qed.

(* the premises are satisfiable: the reference handshake obeys both contracts *)
Theorem c15_contract_satisfiable :
  connect_sound t_chain_ok t_name_ok t_connect /\ accept_sound t_client_cert_ok t_accept.
Proof. exact (conj t_connect_sound t_accept_sound). Qed.

(* non-vacuity: a served cell with an exposed certificate, and the single deviations from it *)
Example c15_served_cell :
  let x := mkCell RightCA DomFromUri HostExample SCertExample AlpnH2 false CaRequired IdValid in
  cell_served x = true /\ cell_peer_certs x = Some CliCA2.
Proof. split; reflexivity. Qed.
Example c15_optional_other_ca_rejected :
  cell_served (mkCell RightCA DomFromUri HostExample SCertExample AlpnH2 false CaOptional IdOtherCA) = false /\
  cell_served (mkCell RightCA DomFromUri HostExample SCertExample AlpnH2 false CaOptional IdNone) = true.
Proof. split; reflexivity. Qed.
Example c15_no_alpn_needs_opt_out :
  cell_served (mkCell RightCA DomFromUri HostExample SCertExample AlpnNone false CaNone IdNone) = false /\
  cell_served (mkCell RightCA DomFromUri HostExample SCertExample AlpnNone true CaNone IdNone) = true.
Proof. split; reflexivity. Qed.
Example c15_transmitted_is_reachable :
  exists e srv, is_https (e_scheme e) = true /\ call_transmitted (t_outcome e srv) = true.
Proof.
  exists {| e_scheme := Https; e_host := Some DExample;
            e_tls := Some {| tc_roots := [CA1]; tc_identity := None; tc_alpn := [ALPN_H2];
                             tc_domain := DExample; tc_assume_http2 := false |} |},
         (mk_srv SrvExample None false).
  split; reflexivity.
Qed.

Print Assumptions c15_call_sent_implies_authenticated.
Print Assumptions c15_https_without_tls_fails.
Print Assumptions c15_client_auth_enforced.
Print Assumptions c15_peer_certs_iff_presented.
Print Assumptions c15_served_over_https_implies_all.
Print Assumptions c15_matrix_complete.
