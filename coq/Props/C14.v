(* C14 - a channel always answers and recovers when the peer comes back.
   Statements only: each theorem is closed by [exact] of a lemma proved in Proofs/Reconnect.v.

   Reading guide.  [run_with cpr sreq fuel is_lazy lat prl net0 h] builds a channel (lazy:
   Channel::new, eager: Channel::connect = ready_oneshot on the fresh Reconnect), then plays the
   history [h] over {Env (ConnectFails r), Env ConnectSucceeds, Env ConnectionDropped, Calls k} against
   the transcription of Reconnect::{poll_ready, call} driven by the tower Buffer worker.  [h] is
   arbitrary (any length, calls anywhere, several in a row or none between faults); [Calls k] are k
   calls issued together, i.e. queued in the Buffer and served by the worker one after the other
   without a quiescent point in between ([Call] = [Calls 1]); [lat] is the
   number of Pending polls of every connect future; [net0] the initial reachability.  hyper's
   SendRequest ([cpr], [sreq]) is ASSUMED to satisfy [stack_contract]; the connector is part of the
   modelled environment: its poll_ready answers Pending [prl] times per cycle, and a `call` without
   a Ready poll_ready since the previous call is an explicit outcome (ConnectorMisuse / RoMisuse); the Buffer worker protocol and the waker contract are built into [serve].
   [EnvRacyDrop false] (a call racing with a dying connection) is outside the property's
   quantifier: theorems that need quiescent points say [quiescent h = true].
   Two further connector outcomes are modelled as the real stack behaves (audit M4):
   [Env ConnectSucceedsDead] / [UpDead]: the transport connects, the peer closes at once, hyper's
   handshake fails - a connect failure like a refusal (since fix 4d59edca it carries ConnectError,
   finding F-C14a), part of the property's alphabet;
   [Env ConnectSucceedsGarbage] / [UpGarbage]: the peer is not HTTP/2; hyper's handshake only
   writes, so a connection IS established and then dies under the first request (CANCELLED).  Like
   the racy drop this is a call in flight on a dying connection, outside the quantifier; it is
   excluded by [plain h] / [plain_net net0] where a theorem speaks about UNAVAILABLE, and described
   exactly by [c14_handshake_failure_outcome].

   WHICH TRANSPORT EACH CLAUSE IS TIED ON (harness h_reconnect, see checks/C14.json).
   * tokio duplex pipes + scripted connector (all kinds except tcp.loopback): everything - the
     Reconnect / Buffer-worker state machine, attempt attribution, queued calls, connector protocol,
     error shapes, eager/lazy construction, peer drops, the UpDead and UpGarbage outcomes.
   * real TCP on 127.0.0.1 through Endpoint::connect()/connect_lazy() (kind tcp.loopback, codes
     only): refusal (nothing listening) is UNAVAILABLE for calls and for an eager connect, strictly;
     recovery without rebuilding the channel after the server is shut down and restarted on the same
     port; a healthy peer answers.  Over TCP hyper's write-only client handshake cannot fail
     synchronously, so a peer that ACCEPTS AND CLOSES is an established connection that dies with
     the request in flight: it is [UpGarbage] there (eager connect Ok, calls CANCELLED), NOT [UpDead].
     [UpDead] (handshake fails, UNAVAILABLE since fix 4d59edca) is realisable on duplex only (a
     synchronous write error) - the clauses about it are duplex-specific.  accept-and-close and
     accept-and-garbage belong to the in-flight-drop class, outside the quantifier (calls at quiescent
     points of established connections): CANCELLED or UNAVAILABLE accepted (a garbage peer over TCP
     also yields UNKNOWN "h2 protocol error", what C04's HTTP/2 table makes of FRAME_SIZE_ERROR).
   OBSERVATION, not part of the property: a connector whose poll_ready returns Err
   ([run_breaking], kind observe.connector_not_ready) - by tower's contract such a service is dead:
   the request that needed it gets the ConnectError (UNAVAILABLE), requests already queued get the
   same error, every later call is refused ("Service was not ready", UNKNOWN), for good
   ([c14_obs_worker_failure_is_permanent]).  All property theorems are about a sound connector. *)
From Coq Require Import List NArith Sorted.
From Verif Require Import Lib.Obs Gen.StatusTables Model.Reconnect Proofs.Reconnect.
Import ListNotations.
Open Scope N_scope.

(* Reconnect::call is never reached outside Connected (its panic!), a finished connect future is
   never polled again, neither while building the channel nor in any call of any history *)
Theorem c14_call_never_panics :
  forall cpr sreq, stack_contract cpr sreq ->
  forall fuel is_lazy lat prl net0, enough_fuel lat prl fuel -> forall h,
    r_eager (run_with cpr sreq fuel is_lazy lat prl net0 h) <> Some RoPanic /\
    Forall (fun c => rec_outcome c <> Panic) (r_calls (run_with cpr sreq fuel is_lazy lat prl net0 h)).
Proof. exact call_never_panics. Qed.

(* the tower Service protocol towards the connector is respected: the connector (a strict one:
   tower::limit::ConcurrencyLimit panics otherwise) is only ever `call`ed after its poll_ready has
   returned Ready since its previous call - by the eager connect and in every call of every
   history, whatever number of Pending answers ([prl]) its poll_ready gives first.  Every reconnect
   goes through State::Idle, the only place where make_service is invoked. *)
Theorem c14_connector_protocol_respected :
  forall cpr sreq, stack_contract cpr sreq ->
  forall fuel is_lazy lat prl net0, enough_fuel lat prl fuel -> forall h,
    r_eager (run_with cpr sreq fuel is_lazy lat prl net0 h) <> Some RoMisuse /\
    Forall (fun c => rec_outcome c <> ConnectorMisuse) (r_calls (run_with cpr sreq fuel is_lazy lat prl net0 h)) /\
    misuses (run_with cpr sreq fuel is_lazy lat prl net0 h) = 0.
Proof. exact connector_protocol_respected. Qed.

(* every call completes with a definite result: never stuck (the fuel [lat + 4] of the drivers is
   never exhausted, for any larger fuel the result is the same by [c14_run_characterised]), one
   outcome per call issued (queued calls included); on the property's alphabet at quiescent
   points the outcome is a response or a ConnectError (connector refused / handshake failed),
   which Status::from_error maps to UNAVAILABLE *)
Theorem c14_call_definite :
  forall cpr sreq, stack_contract cpr sreq ->
  forall fuel is_lazy lat prl net0, enough_fuel lat prl fuel -> forall h,
    r_eager (run_with cpr sreq fuel is_lazy lat prl net0 h) <> Some RoHang /\
    r_eager (run_with cpr sreq fuel is_lazy lat prl net0 h) <> Some RoPanic /\
    (built is_lazy net0 ->
     length (r_calls (run_with cpr sreq fuel is_lazy lat prl net0 h)) = count_calls h) /\
    Forall (fun c => rec_outcome c <> OutOfFuel /\ rec_outcome c <> Panic /\
                     rec_outcome c <> WorkerClosed /\ rec_outcome c <> ConnectorMisuse /\
                     forall e, rec_outcome c <> ServiceFailed e)
           (r_calls (run_with cpr sreq fuel is_lazy lat prl net0 h)) /\
    (quiescent h = true -> plain h = true -> plain_net net0 = true ->
     Forall (fun c => rec_outcome c = Response \/
                      exists e, rec_outcome c = ConnectErr e /\
                                outcome_code (rec_outcome c) = Some Code_Unavailable)
            (r_calls (run_with cpr sreq fuel is_lazy lat prl net0 h))).
Proof. exact call_definite. Qed.

(* every outcome of every history (racy steps, handshake faults, batches) with its gRPC code *)
Theorem c14_call_outcome_classes :
  forall cpr sreq, stack_contract cpr sreq ->
  forall fuel is_lazy lat prl net0, enough_fuel lat prl fuel -> forall h,
    Forall (fun c => rec_outcome c = Response \/
                     (rec_outcome c = Canceled /\ outcome_code (rec_outcome c) = Some Code_Cancelled) \/
                     (exists e, rec_outcome c = ConnectErr e /\
                                outcome_code (rec_outcome c) = Some Code_Unavailable))
           (r_calls (run_with cpr sreq fuel is_lazy lat prl net0 h)).
Proof. exact call_outcome_classes. Qed.

(* the whole run is a function of the environment only (spec_result never looks at Reconnect's
   state and has no fuel): in particular more fuel changes nothing *)
Theorem c14_run_characterised :
  forall cpr sreq, stack_contract cpr sreq ->
  forall fuel is_lazy lat prl net0, enough_fuel lat prl fuel -> forall h,
    run_with cpr sreq fuel is_lazy lat prl net0 h = spec_result is_lazy net0 h.
Proof. exact R_spec. Qed.

(* an eager channel whose first connect is refused: connect() itself returns that error after
   exactly one connector invocation, no channel exists, nothing is deferred to a call *)
Theorem c14_eager_initial_failure_immediate :
  forall cpr sreq, stack_contract cpr sreq ->
  forall fuel lat prl reason h, enough_fuel lat prl fuel ->
    run_with cpr sreq fuel false lat prl (Down reason) h =
      mkRun (Some (RoErr (mkErr 1 reason Refused))) [] 1 None.
Proof. exact eager_initial_failure_immediate. Qed.

(* the same when the transport connects but the HTTP/2 handshake fails *)
Theorem c14_eager_handshake_failure_immediate :
  forall cpr sreq, stack_contract cpr sreq ->
  forall fuel lat prl reason h, enough_fuel lat prl fuel ->
    run_with cpr sreq fuel false lat prl (UpDead reason) h =
      mkRun (Some (RoErr (mkErr 1 reason Handshake))) [] 1 None.
Proof. exact eager_handshake_failure_immediate. Qed.

Theorem c14_eager_initial_success :
  forall cpr sreq, stack_contract cpr sreq ->
  forall fuel lat prl h, enough_fuel lat prl fuel ->
    r_eager (run_with cpr sreq fuel false lat prl Up h) = Some RoOk.
Proof. exact eager_initial_success. Qed.

Theorem c14_lazy_reports_nothing_at_construction :
  forall cpr sreq, stack_contract cpr sreq ->
  forall fuel is_lazy lat prl net0, enough_fuel lat prl fuel -> forall h,
    is_lazy = true -> r_eager (run_with cpr sreq fuel is_lazy lat prl net0 h) = None.
Proof. exact lazy_reports_nothing_at_construction. Qed.

(* that error is UNAVAILABLE (find_status_in_source_chain: ConnectError) WHATEVER lies beneath the
   ConnectError: [e] ranges over every reason, and the reason fixes the underlying error
   ([cause_of_reason]: every io::ErrorKind, a custom error type, a boxed String, wrapped 0..2
   levels deep), for refusals and for handshake failures alike.  Proved from Model/Status.v's
   Status::from_error ([from_error_skips_unknown_wrappers], [from_error_connect]). *)
Theorem c14_connect_error_is_unavailable : forall e,
  outcome_code (ConnectErr e) = Some Code_Unavailable /\
  code_from_error (chain_of_err e) = Code_Unavailable.
Proof. exact connect_error_is_unavailable. Qed.

(* once the endpoint is reachable again (whatever happened before: [h1] is arbitrary), the next
   call on the same channel succeeds *)
Theorem c14_recovers_without_rebuild :
  forall cpr sreq, stack_contract cpr sreq ->
  forall fuel is_lazy lat prl net0, enough_fuel lat prl fuel -> forall h1 h2,
    built is_lazy net0 -> quiescent h1 = true -> net_after net0 h1 = Up ->
    exists b a,
      nth_error (r_calls (run_with cpr sreq fuel is_lazy lat prl net0 (h1 ++ Call :: h2)))
                (count_calls h1) = Some (b, Response, a).
Proof. exact recovers_without_rebuild. Qed.

(* conversely the connector's error is only reported while the endpoint refuses, and it carries
   the reason of the refusal in force, not an older one; a handshake error only while the peer
   closes at once *)
Theorem c14_unavailable_only_while_unreachable :
  forall cpr sreq, stack_contract cpr sreq ->
  forall fuel is_lazy lat prl net0, enough_fuel lat prl fuel -> forall h1 h2 c e,
    nth_error (r_calls (run_with cpr sreq fuel is_lazy lat prl net0 (h1 ++ Call :: h2)))
              (count_calls h1) = Some c ->
    rec_outcome c = ConnectErr e ->
    (net_after net0 h1 = Down (e_reason e) /\ e_kind e = Refused) \/
    (net_after net0 h1 = UpDead (e_reason e) /\ e_kind e = Handshake).
Proof. exact unavailable_only_while_unreachable. Qed.

(* the two further connector outcomes, exactly: a call that finds no live connection gets the
   handshake's ConnectError (UNAVAILABLE) while the peer closes at once; while the peer is not
   HTTP/2 the connection is established and dies under the request (CANCELLED, as for a racy drop) *)
Theorem c14_handshake_failure_outcome :
  forall cpr sreq, stack_contract cpr sreq ->
  forall fuel is_lazy lat prl net0, enough_fuel lat prl fuel -> forall h1 h2 c,
    nth_error (r_calls (run_with cpr sreq fuel is_lazy lat prl net0 (h1 ++ Call :: h2)))
              (count_calls h1) = Some c -> quiescent h1 = true ->
    (forall r, net_after net0 h1 = UpDead r ->
     rec_outcome c = Response \/
     exists e, rec_outcome c = ConnectErr e /\ e_kind e = Handshake /\ e_reason e = r /\
               outcome_code (rec_outcome c) = Some Code_Unavailable) /\
    (net_after net0 h1 = UpGarbage ->
     rec_outcome c = Response \/
     (rec_outcome c = Canceled /\ outcome_code (rec_outcome c) = Some Code_Cancelled)).
Proof. exact handshake_failure_outcome. Qed.

(* off the quiescent points: at the latest the second call after the endpoint is reachable succeeds *)
Theorem c14_recovers_after_racy_drop :
  forall cpr sreq, stack_contract cpr sreq ->
  forall fuel is_lazy lat prl net0, enough_fuel lat prl fuel -> forall h1 h2,
    built is_lazy net0 -> net_after net0 h1 = Up ->
    exists b a,
      nth_error (r_calls (run_with cpr sreq fuel is_lazy lat prl net0 (h1 ++ Call :: Call :: h2)))
                (S (count_calls h1)) = Some (b, Response, a).
Proof. exact recovers_after_racy_drop. Qed.

(* a connect failure is reported to the call whose poll_ready triggered the attempt (the attempt
   number in the error is the connector's count right after this call, which this call raised by
   one) and to no other call: the reported attempt numbers strictly increase, the Buffer worker
   never fails, so no later call is refused on account of an old failure.  Holds for every
   history: quiescent or not, and in particular for QUEUED calls - each of the k requests of
   [Calls k] does its own poll_ready, hence its own attempt, and gets exactly that attempt's
   failure (the records of a batch are consecutive entries of [r_calls]). *)
Theorem c14_error_reported_once :
  forall cpr sreq, stack_contract cpr sreq ->
  forall fuel is_lazy lat prl net0, enough_fuel lat prl fuel -> forall h,
    Forall (fun c => forall e, rec_outcome c = ConnectErr e ->
                     rec_after c = rec_before c + 1 /\ e_attempt e = rec_after c)
           (r_calls (run_with cpr sreq fuel is_lazy lat prl net0 h)) /\
    StronglySorted N.lt (err_ids (r_calls (run_with cpr sreq fuel is_lazy lat prl net0 h))) /\
    NoDup (err_ids (r_calls (run_with cpr sreq fuel is_lazy lat prl net0 h))) /\
    Forall (fun c => rec_outcome c <> WorkerClosed /\ forall e, rec_outcome c <> ServiceFailed e)
           (r_calls (run_with cpr sreq fuel is_lazy lat prl net0 h)).
Proof. exact error_reported_once. Qed.

(* connector invocations = Idle -> Connecting transitions of the surviving Reconnect; they happen
   only inside calls (and once in an eager connect), at most one per call *)
Theorem c14_attempts_counted :
  forall cpr sreq, stack_contract cpr sreq ->
  forall fuel is_lazy lat prl net0, enough_fuel lat prl fuel -> forall h,
    (built is_lazy net0 ->
     r_i2c (run_with cpr sreq fuel is_lazy lat prl net0 h) =
       Some (r_attempts (run_with cpr sreq fuel is_lazy lat prl net0 h))) /\
    (built is_lazy net0 ->
     chained (if is_lazy then 0 else 1)
             (r_calls (run_with cpr sreq fuel is_lazy lat prl net0 h))
             (r_attempts (run_with cpr sreq fuel is_lazy lat prl net0 h))) /\
    r_attempts (run_with cpr sreq fuel is_lazy lat prl net0 h)
      <= (if is_lazy then 0 else 1) + N.of_nat (count_calls h).
Proof. exact attempts_counted. Qed.

(* ---------------------------------------------------------------- poll_ready more than once *)
(* tower's contract allows poll_ready to be called any number of times before `call`; tower's p2c
   Balance (Channel::balance_list / balance_channel) polls the chosen endpoint again right before
   dispatch.  For ALL states and worlds, with NO assumption about hyper:
   once Reconnect::poll_ready has answered Ready(Ok), every further poll_ready (any number [n],
   any fuel) answers Ready(Ok) and changes neither Reconnect nor the world - in particular the
   connector is not invoked, no new attempt is started *)
Theorem c14_repeated_poll_ready_idempotent :
  forall cpr fuel rc w rc' w',
    poll_ready cpr fuel rc w = (rc', w', PrReadyOk) ->
    forall n fuel2, ready_n cpr (S fuel2) n rc' w' = (rc', w', PrReadyOk).
Proof. intros cpr fuel rc w rc' w' H n fuel2. eapply ready_n_stable; exact H. Qed.

(* a connect failure parked by poll_ready (`self.error = Some(e)`): Reconnect is Idle; however often
   poll_ready is called, the answer is Ready(Ok) with state and world untouched; the next `call`
   receives exactly that error; afterwards no error is parked and the state is Idle, so the error
   cannot be handed out again (a `call` without a new poll_ready is the panic of Reconnect::call,
   a new poll_ready starts a fresh attempt) *)
Theorem c14_parked_error_is_stable :
  forall cpr fuel rc w rc' w' e,
    rc_error rc = None ->
    poll_ready cpr fuel rc w = (rc', w', PrReadyOk) -> rc_error rc' = Some e ->
    rc_state rc' = Idle /\
    (forall n fuel2, ready_n cpr fuel2 n rc' w' = (rc', w', PrReadyOk)) /\
    call rc' = (set_error rc' None, CoErr e) /\
    rc_error (set_error rc' None) = None /\ rc_state (set_error rc' None) = Idle /\
    snd (call (set_error rc' None)) = CoPanic.
Proof. exact parked_error_is_stable. Qed.

(* Buffer worker + Balance over one endpoint ([n] re-polls before every call) serves a request
   exactly like the plain Buffer worker - same Reconnect, same world, same outcome - except that a
   poll_ready ERROR (only a broken connector produces one on a lazy endpoint) evicts the endpoint
   instead of failing the worker *)
Theorem c14_balanced_serve_is_plain_serve :
  forall cpr sreq n fuel ch w,
    serve_again cpr sreq n fuel ch w = evict (serve cpr sreq fuel ch w).
Proof. exact serve_again_eq. Qed.

(* hence, for every history, the calls on a balanced channel with one endpoint have the records
   of the plain lazy channel: c14_call_definite, c14_recovers_without_rebuild,
   c14_error_reported_once, c14_attempts_counted .. speak about balanced channels too
   ([run_balanced] is what kind balance.list1 evaluates against the real Channel::balance_list) *)
Theorem c14_balanced_channel_is_lazy_channel :
  forall cpr sreq, stack_contract cpr sreq ->
  forall n fuel lat prl net0, enough_fuel lat prl fuel -> forall h,
    run_balanced_with cpr sreq n fuel lat prl net0 h = r_calls (run_with cpr sreq fuel true lat prl net0 h).
Proof. exact balanced_run_eq. Qed.

Example c14_balanced_example :
  obs_balance_codes 1 (Down 2) [Call; Call; Env ConnectSucceeds; Call; Env ConnectionDropped; Env (ConnectFails 2); Call; Env ConnectSucceeds; Call]
  = Nd [Nn 14; Nn 14; Nn 0; Nn 14; Nn 0]
  /\ obs_balance_set_codes [true; true] [false; false] [BCall; BUp 1; BCall; BDown 1; BCall; BRemove 0; BInsert 0; BCall]
  = Nd [Nn 14; Nn 0; Nn 14; Nn 14].
Proof. split; vm_compute; reflexivity. Qed.

(* ---------------------------------------------------------------- observation: broken connector *)
(* a request that needs the connector while its poll_ready errs gets that error (a ConnectError,
   UNAVAILABLE) and the Buffer worker is failed; the connector is not invoked *)
Theorem c14_obs_broken_connector_fails_worker :
  forall cpr sreq p fuel rc w r,
    rc_state rc = Idle -> rc_error rc = None ->
    w_break w = Some (O, r) -> w_pr_left w = p -> (p + 1 <= fuel)%nat ->
    exists w',
      serve cpr sreq fuel (mkChan rc None) w =
        (mkChan rc (Some (mkErr 0 r NotReady)), w', ServiceFailed (mkErr 0 r NotReady)) /\
      w_attempts w' = w_attempts w.
Proof. exact broken_connector_fails_worker. Qed.

(* and it stays failed whatever happens afterwards: every later call of every history is refused *)
Theorem c14_obs_worker_failure_is_permanent :
  forall cpr sreq h fuel ch w e,
    ch_failed ch = Some e ->
    Forall (fun c => rec_outcome c = WorkerClosed) (fst (fst (run_steps cpr sreq fuel h ch w))) /\
    ch_failed (snd (fst (run_steps cpr sreq fuel h ch w))) = Some e /\
    length (fst (fst (run_steps cpr sreq fuel h ch w))) = count_calls h.
Proof. exact worker_failure_is_permanent. Qed.

Theorem c14_obs_service_failed_codes : forall e,
  outcome_code (ServiceFailed e) = Some Code_Unavailable /\ outcome_code WorkerClosed = Some Code_Unknown.
Proof. exact service_failed_codes. Qed.

Example c14_obs_broken_connector_example :
  map rec_outcome (r_calls (run_breaking true 0 1 1 9 Up [Call; Env ConnectionDropped; Calls 2; Env ConnectSucceeds; Call])) =
    [Response; ServiceFailed (mkErr 0 9 NotReady); ServiceFailed (mkErr 0 9 NotReady); WorkerClosed] /\
  r_attempts (run_breaking true 0 1 1 9 Up [Call; Env ConnectionDropped; Calls 2; Env ConnectSucceeds; Call]) = 1.
Proof. split; reflexivity. Qed.

(* ---------------------------------------------------------------- non-vacuity *)
(* the assumed contract is satisfiable: by the instance the correspondence run evaluates against
   the real stack, with the fuel [run] uses *)
Example c14_contract_satisfiable :
  stack_contract real_conn_poll_ready real_send_request /\
  forall lat prl, enough_fuel lat prl (fuel_for lat prl).
Proof. split; [exact real_stack_contract | exact fuel_for_enough]. Qed.

(* a history that exercises everything: refusals (two calls, two distinct attempts), recovery, a
   peer drop, a refusal after the drop, recovery again; connector latency 2 *)
Example c14_history_example :
  let h1 := [Call; Call; Env ConnectSucceeds; Call; Env ConnectionDropped; Env (ConnectFails 9);
             Call; Env ConnectSucceeds] in
  built true (Down 3) /\ quiescent h1 = true /\ net_after (Down 3) h1 = Up /\
  r_calls (run true 2 1 (Down 3) (h1 ++ [Call])) =
    [(0, ConnectErr (mkErr 1 3 Refused), 1); (1, ConnectErr (mkErr 2 3 Refused), 2); (2, Response, 3);
     (3, ConnectErr (mkErr 4 9 Refused), 4); (4, Response, 5)] /\
  r_attempts (run true 2 1 (Down 3) (h1 ++ [Call])) = 5.
Proof. repeat split; try reflexivity. left; reflexivity. Qed.

(* queued calls: three calls queued while the endpoint refuses get the failures of three distinct
   attempts, one each; three queued while it accepts share the one connection the first one made *)
Example c14_queued_calls_example :
  plain [Calls 3; Env ConnectSucceeds; Calls 3] = true /\
  r_calls (run true 2 1 (Down 3) [Calls 3; Env ConnectSucceeds; Calls 3]) =
    [(0, ConnectErr (mkErr 1 3 Refused), 1); (1, ConnectErr (mkErr 2 3 Refused), 2);
     (2, ConnectErr (mkErr 3 3 Refused), 3);
     (3, Response, 4); (4, Response, 4); (4, Response, 4)].
Proof. split; reflexivity. Qed.

(* the outcomes the theorems exclude are real outcomes of the model when the protocol the proofs
   rely on is broken: call without poll_ready panics; a never-connected NON-lazy Reconnect put
   under the worker (i.e. without Channel::connect's ready_oneshot) makes the worker fail for good:
   every later call is refused although the endpoint may be back; a finished connect future polled again
   panics; too little fuel reports a hang *)
Example c14_excluded_outcomes_are_reachable :
  snd (call (new_reconnect true)) = CoPanic /\
  fst (run_steps real_conn_poll_ready real_send_request 4 [Call; Call]
         (mkChan (new_reconnect false) None) (init_world (Down 7) 0 0)) =
    ([(0, ServiceFailed (mkErr 1 7 Refused), 1); (1, WorkerClosed, 1)],
     mkChan (mkRc (Connecting FutDone) None false false 1) (Some (mkErr 1 7 Refused))) /\
  snd (pr_loop real_conn_poll_ready 4
         (mkRc (Connecting FutDone) None false false 1) (init_world Up 0 0)) = PrPanic /\
  snd (serve real_conn_poll_ready real_send_request 2
         (mkChan (new_reconnect true) None) (init_world Up 5 0)) = OutOfFuel /\
  (* the connector refuses a call that was not preceded by a Ready poll_ready, accepts it after *)
  make_service (init_world Up 0 0) = None /\
  fst (mk_poll_ready (init_world Up 0 1)) = mkWorld Up 0 0 false 0 1 None /\
  make_service (fst (mk_poll_ready (init_world Up 0 0))) <> None.
Proof. repeat split; try reflexivity. discriminate. Qed.

(* the racy step: one CANCELLED, then recovery *)
Example c14_racy_example :
  map rec_outcome (r_calls (run true 0 2 Up [Call; EnvRacyDrop false; Call; Call])) =
    [Response; Canceled; Response] /\
  outcome_code Canceled = Some Code_Cancelled.
Proof. split; reflexivity. Qed.

(* the two further connector outcomes on a concrete history (F-C14a fixed: the failed handshake is
   UNAVAILABLE; the non-HTTP/2 peer: an established connection dying under the request, CANCELLED);
   one attempt each, recovery afterwards *)
Example c14_handshake_failure_example :
  quiescent [Call; Env ConnectSucceedsGarbage; Call; Env ConnectSucceeds; Call] = true /\
  plain [Call; Env (ConnectSucceedsDead 13); Call; Env ConnectSucceeds; Call] = true /\
  plain_net (UpDead 13) = true /\
  map (fun c => outcome_code (rec_outcome c))
      (r_calls (run true 0 1 (UpDead 77) [Call; Env ConnectSucceedsGarbage; Call; Env ConnectSucceeds; Call])) =
    [Some Code_Unavailable; Some Code_Cancelled; None] /\
  r_attempts (run true 0 1 (UpDead 77) [Call; Env ConnectSucceedsGarbage; Call; Env ConnectSucceeds; Call]) = 3.
Proof. repeat split; reflexivity. Qed.

(* the reason fixes the underlying error: reason 45 = io::ErrorKind::TimedOut (13) wrapped once,
   reason 84 = a custom error type (20) wrapped twice; both UNAVAILABLE, as a refusal and as a
   handshake failure *)
Example c14_error_kind_example :
  cause_of_reason 45 = mkCause 13 1 /\ cause_of_reason 84 = mkCause 20 2 /\
  map (fun c => outcome_code (rec_outcome c))
      (r_calls (run true 1 1 (Down 45) [Call; Env (ConnectSucceedsDead 84); Call; Env (ConnectFails 0); Call])) =
    [Some Code_Unavailable; Some Code_Unavailable; Some Code_Unavailable].
Proof. repeat split; reflexivity. Qed.

Print Assumptions c14_call_never_panics.
Print Assumptions c14_connector_protocol_respected.
Print Assumptions c14_connect_error_is_unavailable.
Print Assumptions c14_call_definite.
Print Assumptions c14_eager_initial_failure_immediate.
Print Assumptions c14_recovers_without_rebuild.
Print Assumptions c14_error_reported_once.
Print Assumptions c14_attempts_counted.
Print Assumptions c14_handshake_failure_outcome.
Print Assumptions c14_repeated_poll_ready_idempotent.
Print Assumptions c14_parked_error_is_stable.
Print Assumptions c14_balanced_channel_is_lazy_channel.
