(* C11 - generated clients and servers agree with each other (and, by the correspondence run,
   with the committed generated sources).
   Statements only: each theorem is closed by [exact] of a lemma proved in Proofs/Codegen.v.

   Reading guide (Model/Codegen.v mirrors tonic-build function by function).
   [svc]/[method]: what a tonic_build::Service / Method implementation reports ([s_name]/[m_name]
   are the Rust names, [s_ident]/[m_ident] the .proto spellings, [m_types] is
   request_response_name); [manual_service] / [prost_service] are the two descriptor types with
   their trait impls [manual_service_view] / [prost_service_view].
   [client_generate_internal] = client::generate_internal, [server_generate_internal] =
   server::generate_internal; each takes ITS OWN emit_package argument, as in the source.
   [generate_client b]/[generate_server b] = CodeGenBuilder; [prost_compile b] / [manual_compile b] =
   ServiceGenerator::generate + finalize of prost.rs / manual.rs for every Builder value [b].
   A result [None] is a panic of the generator (format_ident!, parse_str(..).unwrap(), expect).
   [client_mod]: one [client_fn] per generated `pub async fn` (signature, path literal, GrpcMethod
   pair, Grpc call); [server_mod]: SERVICE_NAME, NamedService::NAME, one [trait_fn] per trait method
   and one [server_arm] per arm of the generated `call` (literal, <Kind>Service impl, `fn call`
   argument, ResponseStream, handler called, grpc call).  [method_path S M] = "/" ++ S ++ "/" ++ M.
   [agreement n c sv] is spelled out by [c11_agreement_meaning].
   All statements are for every descriptor: any package (absent, nested), any byte strings as
   names (so also names that prost-build re-cases: [s_name] and [s_ident] are independent), any
   number of methods, every streaming combination, every option value. *)
From Verif Require Import Lib.Bytes Lib.Obs.
From Verif Require Import Gen.StatusTables Model.Router Proofs.Router Model.Codegen Proofs.Codegen.
From Coq Require Import String.
Open Scope N_scope.
Local Notation length := Datatypes.length.

(* what "agree" means: per method, the client's path literal is the server's match-arm literal and
   is "/" NAME "/" method with NAME = NamedService::NAME = SERVICE_NAME = the GrpcMethod service;
   the streaming shape is the same in the client signature, the client Grpc call, the
   <Kind>Service impl, its `fn call` argument / ResponseStream, the server Grpc call and the trait
   signature; the message types are the same in all of these; the arm calls the trait method that
   has the client method's name, with the receiver convention and stream type the trait declares *)
Theorem c11_agreement_meaning : forall n c sv,
  agreement n c sv <->
  (length (cm_fns c) = n /\ length (sm_trait_fns sv) = n /\ length (sm_arms sv) = n /\
   sm_named sv = sm_service_name sv /\
   forall i f t a,
     nth_error (cm_fns c) i = Some f -> nth_error (sm_trait_fns sv) i = Some t ->
     nth_error (sm_arms sv) i = Some a ->
     c_path f = a_literal a /\
     a_literal a = method_path (sm_named sv) (snd (c_grpc_method f)) /\
     fst (c_grpc_method f) = sm_named sv /\
     c_call f = shape_of (c_req_streaming f) (c_resp_streaming f) /\
     a_kind a = c_call f /\
     a_grpc_call a = c_call f /\
     shape_of (a_call_req_streaming a) (is_some (a_response_stream a)) = c_call f /\
     shape_of (t_req_streaming t) (resp_is_stream (t_resp t)) = c_call f /\
     c_input f = a_input a /\ t_input t = a_input a /\
     c_output f = a_output a /\ trait_resp_item t = Some (a_output a) /\
     a_trait a = sm_trait sv /\ a_fn a = t_fn t /\ c_fn f = t_fn t /\
     a_inner_by_value a = t_arc_self t /\ stream_fits t a).
Proof. exact agreement_unfold. Qed.

(* the two generators, each with its own emit_package argument, agree whenever the arguments are
   equal (or the service has no package) - for every descriptor and all other options *)
Theorem c11_internal_generators_agree : forall s ec es pp cw arc stubs c sv,
  client_generate_internal s ec pp cw = Some c ->
  server_generate_internal s es pp cw arc stubs = Some sv ->
  ec = es \/ s_package s = [] ->
  agreement (length (s_methods s)) c sv.
Proof. exact internal_generators_agree. Qed.

(* .. and only then: with different arguments the paths differ as soon as there is a package and a
   method *)
Theorem c11_paths_agree_iff : forall s ec es pp cw arc stubs c sv,
  client_generate_internal s ec pp cw = Some c ->
  server_generate_internal s es pp cw arc stubs = Some sv ->
  (map c_path (cm_fns c) = map a_literal (sm_arms sv) <->
   ec = es \/ s_package s = [] \/ s_methods s = []).
Proof. exact paths_agree_iff. Qed.

(* the three ways the generators are reached all pass one flag to both sides *)
Theorem c11_codegen_builder_agrees : forall b s pp c sv,
  generate_client b s pp = Some c -> generate_server b s pp = Some sv ->
  agreement (length (s_methods s)) c sv.
Proof. exact codegen_builder_agrees. Qed.

Theorem c11_prost_builder_agrees : forall b s g c sv,
  prost_compile b s = Some g -> g_client g = Some c -> g_server g = Some sv ->
  agreement (length (ps_methods s)) c sv.
Proof. exact prost_builder_agrees. Qed.

Theorem c11_manual_builder_agrees : forall b s g c sv,
  manual_compile b s = Some g -> g_client g = Some c -> g_server g = Some sv ->
  agreement (length (ms_methods s)) c sv.
Proof. exact manual_builder_agrees. Qed.

(* /package.Service/Method with the .proto spellings: the names prost-build derives (ps_name,
   pm_name - re-cased, snake-cased, raw identifiers) never enter a wire string *)
Theorem c11_prost_wire_names : forall b s g,
  prost_compile b s = Some g ->
  let name := wire_name (pb_emit_package b) (ps_package s) (ps_proto_name s) in
  (forall sv, g_server g = Some sv ->
     sm_service_name sv = name /\ sm_named sv = name /\
     map a_literal (sm_arms sv) = map (fun m => method_path name (pm_proto_name m)) (ps_methods s)) /\
  (forall c, g_client g = Some c ->
     map c_path (cm_fns c) = map (fun m => method_path name (pm_proto_name m)) (ps_methods s) /\
     map c_grpc_method (cm_fns c) = map (fun m => (name, pm_proto_name m)) (ps_methods s)).
Proof. exact prost_wire_names. Qed.

(* tonic_build::manual: NAME = package "." name, the route names; types modulo white space *)
Theorem c11_manual_wire_names : forall b s g,
  manual_compile b s = Some g ->
  let name := wire_name true (ms_package s) (ms_name s) in
  (forall sv, g_server g = Some sv ->
     sm_service_name sv = name /\ sm_named sv = name /\
     map a_literal (sm_arms sv) = map (fun m => method_path name (mm_route_name m)) (ms_methods s) /\
     map (fun a => (a_input a, a_output a)) (sm_arms sv) =
       map (fun m => (strip_ws (mm_input_type m), strip_ws (mm_output_type m))) (ms_methods s)) /\
  (forall c, g_client g = Some c ->
     map c_path (cm_fns c) = map (fun m => method_path name (mm_route_name m)) (ms_methods s) /\
     map (fun f => (c_input f, c_output f)) (cm_fns c) =
       map (fun m => (strip_ws (mm_input_type m), strip_ws (mm_output_type m))) (ms_methods s)).
Proof. exact manual_wire_names. Qed.

Theorem c11_service_name_spec : forall s emit,
  format_service_name s emit =
  if emit then match s_package s with [] => s_ident s | p => p ++ dot :: s_ident s end
  else s_ident s.
Proof. exact service_name_spec. Qed.

(* the message types of a prost method: the same convert_type result on both sides *)
Theorem c11_prost_message_types : forall b s g,
  prost_compile b s = Some g ->
  let ty := fun m => (convert_type (pb_proto_path b) (pb_compile_well_known_types b)
                                   (pm_input_proto_type m) (pm_input_type m),
                      convert_type (pb_proto_path b) (pb_compile_well_known_types b)
                                   (pm_output_proto_type m) (pm_output_type m)) in
  (forall sv, g_server g = Some sv ->
     map (fun a => (a_input a, a_output a)) (sm_arms sv) = map ty (ps_methods s)) /\
  (forall c, g_client g = Some c ->
     map (fun f => (c_input f, c_output f)) (cm_fns c) = map ty (ps_methods s)).
Proof. exact prost_message_types. Qed.

(* every combination of client and server streaming gets its own shape, in every place *)
Theorem c11_shape_table : forall s ec es pp cw arc stubs m f t a,
  client_generate_method s ec pp cw m = Some f ->
  generate_trait_method pp cw arc stubs m = Some t ->
  server_generate_method s es pp cw arc stubs m = Some a ->
  match m_client_streaming m, m_server_streaming m with
  | false, false => shape_everywhere Unary false false f t a
  | false, true => shape_everywhere ServerStreaming false true f t a
  | true, false => shape_everywhere ClientStreaming true false f t a
  | true, true => shape_everywhere Streaming true true f t a
  end.
Proof. exact shape_table. Qed.

(* what each side emits for a method, in terms of the descriptor and the options (use_arc_self and
   generate_default_stubs included) *)
Theorem c11_client_method_spec : forall s e pp cw m f,
  client_generate_method s e pp cw m = Some f ->
  c_fn f = m_name m /\
  c_path f = format_method_path s m e /\
  c_grpc_method f = (format_service_name s e, m_ident m) /\
  c_req_streaming f = m_client_streaming m /\
  c_resp_streaming f = m_server_streaming m /\
  c_call f = shape_of (m_client_streaming m) (m_server_streaming m) /\
  m_types m pp cw = Some (c_input f, c_output f).
Proof. exact client_method_spec. Qed.

Theorem c11_trait_method_spec : forall pp cw arc stubs m t,
  generate_trait_method pp cw arc stubs m = Some t ->
  t_fn t = m_name m /\
  t_arc_self t = arc /\
  t_req_streaming t = m_client_streaming m /\
  t_default_body t = stubs /\
  exists i o, m_types m pp cw = Some (i, o) /\ t_input t = i /\
    (t_resp t, t_assoc t) =
    if m_server_streaming m
    then if stubs then (RBox o, None) else (RAssoc (stream_ident m), Some (stream_ident m, o))
    else (RPlain o, None).
Proof. exact trait_method_spec. Qed.

Theorem c11_server_arm_spec : forall s e pp cw arc stubs m a,
  server_generate_method s e pp cw arc stubs m = Some a ->
  a_literal a = format_method_path s m e /\
  a_kind a = shape_of (m_client_streaming m) (m_server_streaming m) /\
  a_grpc_call a = shape_of (m_client_streaming m) (m_server_streaming m) /\
  a_call_req_streaming a = m_client_streaming m /\
  a_trait a = s_name s /\
  a_fn a = m_name m /\
  a_inner_by_value a = arc /\
  exists i o, m_types m pp cw = Some (i, o) /\ a_input a = i /\ a_output a = o /\
    a_response_stream a =
    if m_server_streaming m
    then Some (if stubs then RBox o else RAssoc (stream_ident m))
    else None.
Proof. exact server_method_spec. Qed.

(* distinct method identifiers get distinct arms, so no arm is shadowed *)
Theorem c11_paths_injective : forall s e pp cw arc stubs sv,
  server_generate_internal s e pp cw arc stubs = Some sv ->
  NoDup (map m_ident (s_methods s)) -> NoDup (map a_literal (sm_arms sv)).
Proof. exact paths_injective. Qed.

(* the generated `call` takes, for the literal the i-th client method sends, the i-th arm *)
Theorem c11_client_path_takes_its_arm : forall s ec es pp cw arc stubs c sv i f a,
  client_generate_internal s ec pp cw = Some c ->
  server_generate_internal s es pp cw arc stubs = Some sv ->
  ec = es \/ s_package s = [] ->
  NoDup (map m_ident (s_methods s)) ->
  nth_error (cm_fns c) i = Some f -> nth_error (sm_arms sv) i = Some a ->
  call_arm sv (c_path f) = Some a.
Proof. exact client_path_takes_its_arm. Qed.

(* the advertised service name is the path prefix the router registers *)
Theorem c11_service_name_is_prefix : forall s ec es pp cw arc stubs c sv i f m,
  client_generate_internal s ec pp cw = Some c ->
  server_generate_internal s es pp cw arc stubs = Some sv ->
  ec = es \/ s_package s = [] ->
  nth_error (cm_fns c) i = Some f -> nth_error (s_methods s) i = Some m -> m_ident m <> [] ->
  match_route (sm_named sv) (c_path f) = Some (m_ident m).
Proof. exact service_name_is_prefix. Qed.

(* what Routes sees of a generated server *)
Theorem c11_registered_generated : forall s e pp cw arc stubs sv,
  server_generate_internal s e pp cw arc stubs = Some sv ->
  registered sv = mkSvc (format_service_name s e) (map m_ident (s_methods s)).
Proof. exact registered_generated. Qed.

(* with C10: a generated client method sent to Routes carrying generated servers runs exactly that
   method's handler *)
Theorem c11_generated_client_reaches_handler : forall e gens r s sv pp cw c i f m,
  Forall (generated_server e) gens ->
  build (map (fun p => registered (snd p)) gens) = Some r ->
  names_ok (map (fun p => registered (snd p)) gens) ->
  In (s, sv) gens ->
  client_generate_internal s e pp cw = Some c ->
  nth_error (cm_fns c) i = Some f -> nth_error (s_methods s) i = Some m -> m_ident m <> [] ->
  serve r (c_path f) = Handler (sm_named sv) (m_ident m).
Proof. exact generated_client_reaches_handler. Qed.

Theorem c11_emit_package_skew : forall s m, s_package s <> [] ->
  format_method_path s m true <> format_method_path s m false.
Proof. exact emit_package_skew. Qed.

(* panics: none on well-formed descriptors; each generator panics exactly for the listed reasons
   (so e.g. a route name that is no identifier breaks the server generator only) *)
Theorem c11_no_panic_on_well_formed : forall s ec es pp cw arc stubs,
  service_wf pp cw s ->
  (exists c, client_generate_internal s ec pp cw = Some c) /\
  (exists sv, server_generate_internal s es pp cw arc stubs = Some sv).
Proof. exact no_panic_on_well_formed. Qed.

Theorem c11_client_panics_iff : forall s e pp cw,
  client_generate_internal s e pp cw = None <->
  mk_ident (s_name s ++ str "Client") = None \/
  mk_ident (naive_snake_case (s_name s) ++ str "_client") = None \/
  exists m, In m (s_methods s) /\
    (m_codec_ok m = false \/ mk_ident (m_name m) = None \/ m_types m pp cw = None).
Proof. exact client_panics_iff. Qed.

Theorem c11_server_panics_iff : forall s e pp cw arc stubs,
  server_generate_internal s e pp cw arc stubs = None <->
  mk_ident (s_name s) = None \/
  mk_ident (s_name s ++ str "Server") = None \/
  mk_ident (naive_snake_case (s_name s) ++ str "_server") = None \/
  exists m, In m (s_methods s) /\
    (mk_ident (m_name m) = None \/ m_codec_ok m = false \/
     mk_ident (m_ident m ++ str "Svc") = None \/ m_types m pp cw = None \/
     (m_server_streaming m = true /\ stubs = false /\ mk_ident (m_ident m ++ str "Stream") = None)).
Proof. exact server_panics_iff. Qed.

(* ---- non-vacuity / worked examples ---- *)
Definition b (s : string) : list N := bytes_of_string s.
Definition pmeth (name proto : string) (cs ss : bool) : prost_method :=
  mkPM (b name) (b proto) (b "In") (b "()") (b ".a.b.c.In") (b ".google.protobuf.Empty") cs ss.
(* service HTTPEcho_service in package a.b.c: prost-build calls it HttpEchoService *)
Definition ex_prost : prost_service :=
  mkPS (b "HttpEchoService") (b "HTTPEcho_service") (b "a.b.c")
       [ pmeth "get" "Get" false false; pmeth "list" "List" false true;
         pmeth "put" "Put" true false; pmeth "r#type" "type" true true ].
Definition ex_pb := mkPB true true (b "super") true false true true.

Example c11_prost_example :
  exists g c sv,
    prost_compile ex_pb ex_prost = Some g /\ g_client g = Some c /\ g_server g = Some sv /\
    sm_named sv = b "a.b.c.HTTPEcho_service" /\
    sm_trait sv = b "HttpEchoService" /\ cm_mod c = b "http_echo_service_client" /\
    map c_path (cm_fns c) =
      [b "/a.b.c.HTTPEcho_service/Get"; b "/a.b.c.HTTPEcho_service/List";
       b "/a.b.c.HTTPEcho_service/Put"; b "/a.b.c.HTTPEcho_service/type"] /\
    map c_call (cm_fns c) = [Unary; ServerStreaming; ClientStreaming; Streaming] /\
    map a_kind (sm_arms sv) = [Unary; ServerStreaming; ClientStreaming; Streaming] /\
    map c_fn (cm_fns c) = [b "get"; b "list"; b "put"; b "r#type"] /\
    map (fun f => (c_input f, c_output f)) (cm_fns c) =
      [(b "super::In", b "()"); (b "super::In", b "()"); (b "super::In", b "()"); (b "super::In", b "()")] /\
    NoDup (map m_ident (s_methods (prost_service_view ex_prost))).
Proof.
  eexists _, _, _. split; [vm_compute; reflexivity|]. split; [reflexivity|]. split; [reflexivity|].
  repeat split; try reflexivity.
  repeat (constructor; [vm_compute; intuition discriminate|]). constructor.
Qed.

(* without package emission, and a descriptor on which the generator panics *)
Definition mmeth (name route : string) (cs ss : bool) : manual_method :=
  mkMM (b name) (b route) (b "crate :: In") (b "crate::Out") cs ss true true true.
Definition ex_manual (name : string) : manual_service :=
  mkMS (b name) (b "pkg") [mmeth "get" "Get" false false; mmeth "chat" "Chat" true true].
Example c11_manual_example :
  (exists g c sv, manual_compile (mkMB true true) (ex_manual "Svc") = Some g /\
     g_client g = Some c /\ g_server g = Some sv /\ sm_named sv = b "pkg.Svc" /\
     map c_input (cm_fns c) = [b "crate::In"; b "crate::In"]) /\
  (exists sv, generate_server (mkCGB false false true false) (manual_service_view (ex_manual "Svc")) [] = Some sv /\
     sm_named sv = b "Svc" /\ map a_literal (sm_arms sv) = [b "/Svc/Get"; b "/Svc/Chat"] /\
     map a_inner_by_value (sm_arms sv) = [true; true]) /\
  manual_compile (mkMB true true) (ex_manual "my-service") = None /\
  manual_compile (mkMB true false) (ex_manual "type") <> None /\
  manual_compile (mkMB false true) (ex_manual "type") = None.
Proof.
  split; [|split; [|split; [|split]]].
  - eexists _, _, _. split; [vm_compute; reflexivity|]. repeat split; reflexivity.
  - eexists. split; [vm_compute; reflexivity|]. repeat split; reflexivity.
  - vm_compute. reflexivity.
  - vm_compute. discriminate.
  - vm_compute. reflexivity.
Qed.

Example c11_e2e_premises_hold :
  exists sv1 sv2,
    manual_server (ex_manual "Svc") = Some sv1 /\ manual_server (ex_manual "SvcX") = Some sv2 /\
    build (map registered [sv1; sv2]) = Some (map registered [sv1; sv2]) /\
    names_ok (map registered [sv1; sv2]).
Proof.
  eexists _, _. split; [vm_compute; reflexivity|]. split; [vm_compute; reflexivity|].
  split; [vm_compute; reflexivity | repeat constructor].
Qed.

Print Assumptions c11_internal_generators_agree.
Print Assumptions c11_paths_agree_iff.
Print Assumptions c11_prost_builder_agrees.
Print Assumptions c11_prost_wire_names.
Print Assumptions c11_generated_client_reaches_handler.
Print Assumptions c11_no_panic_on_well_formed.
