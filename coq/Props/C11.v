(* C11 - generated clients and servers agree with each other (and, by the correspondence run,
   with the committed generated sources).
   Statements only: each theorem is closed by [exact] of a lemma proved in Proofs/Codegen.v.

   Reading guide.  [svc]/[method]: what a tonic_build::Service / Method descriptor reports;
   [opts]: emit_package, use_arc_self, default stubs, client/server only;
   [gen_client o s]: one record per generated `pub async fn` (path literal, Grpc call used,
   GrpcMethod pair, types); [gen_server o s]: SERVICE_NAME (= NamedService::NAME) and one record
   per match arm of the generated `call`; [method_path S M] = "/" ++ S ++ "/" ++ M.
   All statements are for every descriptor: any package (absent, nested), any identifiers, any
   number of methods, every streaming combination, every option value. *)
From Verif Require Import Lib.Bytes Lib.Obs.
From Verif Require Import Gen.StatusTables Model.Router Proofs.Router Model.Codegen Proofs.Codegen.
From Coq Require Import String.
Open Scope N_scope.

(* client literal = server match literal = "/" ++ SERVICE_NAME ++ "/" ++ method *)
Theorem c11_paths_agree : forall o s,
  map c_path (gen_client o s) = map a_literal (sv_arms (gen_server o s)) /\
  map a_literal (sv_arms (gen_server o s)) =
  map (fun m => method_path (sv_service_name (gen_server o s)) (m_ident m)) (s_methods s).
Proof. exact paths_agree. Qed.

(* same streaming shape, same message types, same trait method - method by method *)
Theorem c11_shapes_agree : forall o s,
  map c_shape (gen_client o s) = map a_shape (sv_arms (gen_server o s)) /\
  map c_input (gen_client o s) = map a_input (sv_arms (gen_server o s)) /\
  map c_output (gen_client o s) = map a_output (sv_arms (gen_server o s)) /\
  map c_fn (gen_client o s) = map a_fn (sv_arms (gen_server o s)).
Proof. exact shapes_agree. Qed.

(* every combination of client and server streaming gets its own shape *)
Theorem c11_shape_spec : forall m,
  server_shape m =
  match m_client_streaming m, m_server_streaming m with
  | false, false => Unary | false, true => ServerStreaming
  | true, false => ClientStreaming | true, true => Streaming
  end.
Proof. exact shape_spec. Qed.

(* distinct method identifiers get distinct arms, so no arm is shadowed *)
Theorem c11_paths_injective : forall o s, NoDup (map m_ident (s_methods s)) ->
  NoDup (map a_literal (sv_arms (gen_server o s))).
Proof. exact paths_injective. Qed.

Theorem c11_client_path_takes_its_arm : forall o s m, In m (s_methods s) ->
  dispatch (registered o s) (c_path (gen_client_fn o s m)) = Some (m_ident m).
Proof. exact client_path_takes_its_arm. Qed.

(* the advertised service name is the path prefix the router registers *)
Theorem c11_service_name_is_prefix : forall o s m, m_ident m <> [] ->
  match_route (sv_service_name (gen_server o s)) (c_path (gen_client_fn o s m)) = Some (m_ident m).
Proof. exact service_name_is_prefix. Qed.

Theorem c11_service_name_spec : forall s emit,
  format_service_name s emit =
  if emit then match s_package s with [] => s_ident s | p => p ++ dot :: s_ident s end
  else s_ident s.
Proof. exact service_name_spec. Qed.

Theorem c11_grpc_method_agrees : forall o s m,
  let c := gen_client_fn o s m in
  c_path c = method_path (fst (c_grpc_method c)) (snd (c_grpc_method c)) /\
  fst (c_grpc_method c) = sv_service_name (gen_server o s).
Proof. exact grpc_method_agrees. Qed.

(* with C10: a generated client method sent to Routes carrying the generated servers runs
   exactly that method's handler *)
Theorem c11_generated_client_reaches_handler : forall o regs r s m,
  build (map (registered o) regs) = Some r -> names_ok (map (registered o) regs) ->
  In s regs -> In m (s_methods s) -> m_ident m <> [] ->
  serve r (c_path (gen_client_fn o s m)) = Handler (sv_service_name (gen_server o s)) (m_ident m).
Proof. exact generated_client_reaches_handler. Qed.

(* the agreement needs the SAME emit_package on both sides *)
Theorem c11_emit_package_skew : forall s m, s_package s <> [] ->
  format_method_path s m true <> format_method_path s m false.
Proof. exact emit_package_skew. Qed.

(* ---- non-vacuity / worked examples ---- *)
Definition b (s : string) : list N := bytes_of_string s.
Definition ex_methods : list method :=
  [ mkMethod (b "get") (b "Get") false false (b "crate::In") (b "crate::Out");
    mkMethod (b "list") (b "List") false true (b "crate::In") (b "crate::Out");
    mkMethod (b "put") (b "Put") true false (b "crate::In") (b "crate::Out");
    mkMethod (b "r#type") (b "type") true true (b "crate::In") (b "crate::Out") ].
Definition ex_nested := mkService (b "Svc") (b "a.b.c") (b "Svc") ex_methods.
Definition ex_nopkg := mkService (b "Svc") [] (b "Svc") ex_methods.
Definition ex_opts := mkOpts true false false true true.

Example c11_examples :
  sv_service_name (gen_server ex_opts ex_nested) = b "a.b.c.Svc" /\
  sv_service_name (gen_server ex_opts ex_nopkg) = b "Svc" /\
  sv_service_name (gen_server (mkOpts false false false true true) ex_nested) = b "Svc" /\
  map c_path (gen_client ex_opts ex_nested) =
    [b "/a.b.c.Svc/Get"; b "/a.b.c.Svc/List"; b "/a.b.c.Svc/Put"; b "/a.b.c.Svc/type"] /\
  map a_literal (sv_arms (gen_server ex_opts ex_nopkg)) =
    [b "/Svc/Get"; b "/Svc/List"; b "/Svc/Put"; b "/Svc/type"] /\
  map c_shape (gen_client ex_opts ex_nested) = [Unary; ServerStreaming; ClientStreaming; Streaming] /\
  NoDup (map m_ident (s_methods ex_nested)).
Proof.
  repeat split; try reflexivity.
  repeat (constructor; [vm_compute; intuition discriminate|]). constructor.
Qed.

Example c11_e2e_premises_hold :
  let regs := [ex_nested; mkService (b "SvcX") (b "a.b.c") (b "SvcX") ex_methods; ex_nopkg] in
  build (map (registered ex_opts) regs) = Some (map (registered ex_opts) regs) /\
  names_ok (map (registered ex_opts) regs).
Proof. split; [reflexivity | repeat constructor]. Qed.

Print Assumptions c11_paths_agree.
Print Assumptions c11_shapes_agree.
Print Assumptions c11_paths_injective.
Print Assumptions c11_service_name_is_prefix.
Print Assumptions c11_generated_client_reaches_handler.
