(* C05 - Compression is used only as negotiated and configured.
   Statements only: each theorem is closed by [exact] of a lemma proved in Proofs/Negotiate.v.
   Header values are arbitrary byte lists; configurations are arbitrary slot contents (which
   include the sixteen values the builder methods can produce, enumerated at the end);
   handler metadata, flags and payloads are arbitrary. *)
From Verif Require Import Lib.Bytes Lib.HeaderMap Model.Frame.
From Verif Require Import Gen.StatusTables Gen.CompressionTables Model.Status Model.Negotiate.
From Verif Require Import Proofs.Status Proofs.Negotiate.
From Coq Require Import String.
Open Scope list_scope.
Open Scope N_scope.

(* ---- the server's choice ---- *)
(* chosen e  =>  e is enabled for sending and e's name is one of the comma separated, trimmed
   items of the request's grpc-accept-encoding *)
Theorem c05_server_choice_sound : forall m c e,
  from_accept_encoding_header m c = Some e ->
  is_enabled c e = true /\
  exists v, hm_get m hdr_grpc_accept_encoding = Some v /\ In (as_str e) (map trim (split_on COMMA v)).
Proof. exact server_choice_sound. Qed.

(* if some item names an enabled encoding, one is chosen: the first such item *)
Theorem c05_server_choice_complete : forall m c v e,
  hm_get m hdr_grpc_accept_encoding = Some v -> forallb is_visible_ascii v = true ->
  In (as_str e) (map trim (split_on COMMA v)) -> is_enabled c e = true ->
  exists e' pre post,
    from_accept_encoding_header m c = Some e' /\ is_enabled c e' = true /\
    map trim (split_on COMMA v) = pre ++ as_str e' :: post /\
    forall e'', In (as_str e'') pre -> is_enabled c e'' = false.
Proof. exact server_choice_complete. Qed.

(* nothing is chosen exactly when the header is absent, is not visible ASCII, or offers nothing
   that is enabled *)
Theorem c05_server_choice_none : forall m c,
  from_accept_encoding_header m c = None <->
  (hm_get m hdr_grpc_accept_encoding = None \/
   (exists v, hm_get m hdr_grpc_accept_encoding = Some v /\
      (forallb is_visible_ascii v = false \/
       forall e, In (as_str e) (map trim (split_on COMMA v)) -> is_enabled c e = false))).
Proof. exact server_choice_none. Qed.

(* what "items" means: the pieces put back together with commas are the value, no piece holds
   a comma, and trim removes white space only and leaves none at the ends *)
Theorem c05_split_is_the_comma_decomposition : forall s,
  join COMMA (split_on COMMA s) = s /\ Forall (fun p => ~ In COMMA p) (split_on COMMA s) /\
  forall ps, ps <> [] -> Forall (fun p => ~ In COMMA p) ps -> split_on COMMA (join COMMA ps) = ps.
Proof. exact split_is_the_comma_decomposition. Qed.
Theorem c05_trim_removes_only_outer_white_space : forall s,
  exists a b, s = a ++ trim s ++ b /\ forallb is_ws a = true /\ forallb is_ws b = true /\
              (forall x r, trim s = x :: r -> is_ws x = false) /\
              (forall x r, trim s = r ++ [x] -> is_ws x = false).
Proof. exact trim_spec. Qed.

(* ---- what the server sends ---- *)
(* a response is compressed only with an encoding enabled for sending and offered by the
   request; it is then flagged and announced *)
Theorem c05_server_compresses_only_as_negotiated : forall sv rq h hdrs flag used e,
  server_unary sv rq h = RespOk hdrs flag used -> used = Some e ->
  is_enabled (sv_send sv) e = true /\
  (exists v, hm_get (rq_headers rq) hdr_grpc_accept_encoding = Some v /\
             In (as_str e) (map trim (split_on COMMA v))) /\
  flag = 1 /\ hm_get_all hdrs hdr_grpc_encoding = [as_str e].
Proof. exact server_compresses_only_as_negotiated. Qed.

(* grpc-encoding is announced exactly when an encoding was chosen and names it; otherwise the
   message goes out plain (flag 0).  The per-response opt-out keeps the announcement but sends
   the message plain. (Handler metadata is arbitrary except that it does not itself carry a
   grpc-encoding entry.) *)
Theorem c05_server_announce_iff : forall sv rq md ov hdrs flag used,
  server_unary sv rq (HOk md ov) = RespOk hdrs flag used ->
  hm_get_all md hdr_grpc_encoding = [] ->
  let chosen := from_accept_encoding_header (rq_headers rq) (sv_send sv) in
  (forall e, hm_get_all hdrs hdr_grpc_encoding = [as_str e] <-> chosen = Some e) /\
  (hm_get_all hdrs hdr_grpc_encoding = [] <-> chosen = None) /\
  (ov = Inherit -> used = chosen /\ (flag = 1 <-> chosen <> None) /\ (flag = 0 <-> chosen = None)) /\
  (ov = Disable -> used = None /\ flag = 0).
Proof. exact server_announce_iff. Qed.

(* with arbitrary handler metadata: tonic's own contribution to grpc-encoding *)
Theorem c05_server_response_exact : forall sv rq h hdrs flag used,
  server_unary sv rq h = RespOk hdrs flag used ->
  exists md ov, h = HOk md ov /\
    used = effective_encoding (from_accept_encoding_header (rq_headers rq) (sv_send sv)) ov /\
    flag = flag_of used /\
    hm_get_all hdrs hdr_grpc_encoding =
      match from_accept_encoding_header (rq_headers rq) (sv_send sv) with
      | Some e => [as_str e]
      | None => hm_get_all md hdr_grpc_encoding
      end.
Proof. exact server_response_exact. Qed.

(* the same on the wire, for any compressor *)
Theorem c05_server_wire : forall (compress : encoding -> list N -> list N) sv rq h hdrs flag used msg,
  server_unary sv rq h = RespOk hdrs flag used ->
  (wire_frame compress used msg = frame 0 msg /\ used = None) \/
  (exists e, wire_frame compress used msg = frame 1 (compress e msg) /\ used = Some e /\
             is_enabled (sv_send sv) e = true /\ offers (rq_headers rq) e /\
             hm_get_all hdrs hdr_grpc_encoding = [as_str e]).
Proof. exact server_wire. Qed.

(* ---- receiving: grpc-encoding of a request or a response ---- *)
Theorem c05_recv_encoding_exact : forall m c,
  match hm_get m hdr_grpc_encoding with
  | None => from_encoding_header m c = RecvOk None
  | Some v =>
      (forall e, v = as_str e -> is_enabled c e = true -> from_encoding_header m c = RecvOk (Some e)) /\
      (v = encoding_header_identity -> from_encoding_header m c = RecvOk None) /\
      ((forall e, v = as_str e -> is_enabled c e = false) -> v <> encoding_header_identity ->
       from_encoding_header m c = RecvErr (unimplemented_with_accept (refusal_value c)))
  end.
Proof. exact recv_encoding_exact. Qed.

Theorem c05_recv_accepts_iff : forall m c e,
  from_encoding_header m c = RecvOk (Some e) <->
  hm_get m hdr_grpc_encoding = Some (as_str e) /\ is_enabled c e = true.
Proof. exact recv_accepts_iff. Qed.

(* the refusal: UNIMPLEMENTED, and its grpc-accept-encoding read back item by item is exactly
   the enabled encodings in order, then identity ("identity" alone when nothing is enabled) *)
Theorem c05_recv_refuses_otherwise : forall m c v,
  hm_get m hdr_grpc_encoding = Some v ->
  (forall e, v = as_str e -> is_enabled c e = false) -> v <> encoding_header_identity ->
  exists st, from_encoding_header m c = RecvErr st /\ st_code st = Code_Unimplemented /\
    hm_get_all (st_md st) hdr_grpc_accept_encoding = [refusal_value c] /\
    map trim (split_on COMMA (refusal_value c)) = map as_str (en_list c) ++ [encoding_header_identity].
Proof. exact recv_refuses_otherwise. Qed.

Theorem c05_server_refuses_unaccepted : forall sv rq h v,
  hm_get (rq_headers rq) hdr_grpc_encoding = Some v ->
  (forall e, v = as_str e -> is_enabled (sv_accept sv) e = false) -> v <> encoding_header_identity ->
  exists st m, server_unary sv rq h = RespStatus st m /\ st_code st = Code_Unimplemented /\
    hm_get_all m hdr_grpc_status = [[49; 50]] /\
    hm_get_all m hdr_grpc_accept_encoding = [refusal_value (sv_accept sv)] /\
    map trim (split_on COMMA (refusal_value (sv_accept sv))) =
      map as_str (en_list (sv_accept sv)) ++ [encoding_header_identity] /\
    hm_get_all m hdr_grpc_encoding = [].
Proof. exact server_refuses_unaccepted. Qed.

Theorem c05_client_refuses_unaccepted : forall c hdrs v,
  hm_get hdrs hdr_grpc_encoding = Some v ->
  (forall e, v = as_str e -> is_enabled (cl_accept c) e = false) -> v <> encoding_header_identity ->
  exists st, create_response c hdrs = ClErr st /\ st_code st = Code_Unimplemented /\
    hm_get_all (st_md st) hdr_grpc_accept_encoding = [refusal_value (cl_accept c)].
Proof. exact client_refuses_unaccepted. Qed.

(* a response stream is only ever created with an encoding that is enabled and announced *)
Theorem c05_client_stream_encoding : forall c hdrs enc,
  create_response c hdrs = ClStream enc ->
  match enc with
  | Some e => hm_get hdrs hdr_grpc_encoding = Some (as_str e) /\ is_enabled (cl_accept c) e = true
  | None => hm_get hdrs hdr_grpc_encoding = None \/ hm_get hdrs hdr_grpc_encoding = Some encoding_header_identity
  end.
Proof. exact client_stream_encoding. Qed.

(* ---- the compressed-flag ---- *)
Theorem c05_flag_without_encoding_internal :
  exists st, decode_flag None 1 = FlagErr st /\ st_code st = Code_Internal.
Proof. exact flag_without_encoding_internal. Qed.

Theorem c05_decode_flag_exact : forall enc flag,
  match decode_flag enc flag with
  | FlagOk None => flag = 0
  | FlagOk (Some e) => flag = 1 /\ enc = Some e
  | FlagErr st => st_code st = Code_Internal /\ flag <> 0 /\ (flag = 1 -> enc = None)
  end.
Proof. exact decode_flag_exact. Qed.

Theorem c05_server_flag_without_encoding : forall sv rq h,
  (hm_get (rq_headers rq) hdr_grpc_encoding = None \/
   hm_get (rq_headers rq) hdr_grpc_encoding = Some encoding_header_identity) ->
  rq_flag rq = 1 ->
  exists st m, server_unary sv rq h = RespStatus st m /\ st_code st = Code_Internal /\
    hm_get_all m hdr_grpc_status = [[49; 51]] /\ hm_get_all m hdr_grpc_encoding = [].
Proof. exact server_flag_without_encoding. Qed.

Theorem c05_client_flag_without_encoding : forall c hdrs infl,
  create_response c hdrs = ClStream None ->
  exists st, client_receive c hdrs 1 infl = CrErr st /\ st_code st = Code_Internal.
Proof. exact client_flag_without_encoding. Qed.

(* ---- the client's requests ---- *)
Theorem c05_client_sends_exactly : forall c md h,
  prepare_request c md = Done h ->
  match cl_send c with
  | Some e => hm_get_all h hdr_grpc_encoding = [as_str e] /\
              client_request_encoding c = Some e /\ flag_of (client_request_encoding c) = 1
  | None => hm_get_all h hdr_grpc_encoding = hm_get_all md hdr_grpc_encoding /\
            client_request_encoding c = None /\ flag_of (client_request_encoding c) = 0
  end.
Proof. exact client_sends_exactly. Qed.

Theorem c05_client_advertises_exactly : forall c md h,
  prepare_request c md = Done h ->
  match en_list (cl_accept c) with
  | [] => hm_get_all h hdr_grpc_accept_encoding = hm_get_all md hdr_grpc_accept_encoding
  | l => hm_get_all h hdr_grpc_accept_encoding = [refusal_value (cl_accept c)] /\
         map trim (split_on COMMA (refusal_value (cl_accept c))) = map as_str l ++ [encoding_header_identity]
  end.
Proof. exact client_advertises_exactly. Qed.

Theorem c05_client_of_config : forall sends acc,
  cl_send (client_of sends acc) = last (map Some sends) None /\
  cl_accept (client_of sends acc) = config_of acc.
Proof. exact client_of_config. Qed.

(* tonic client against tonic server: the first encoding, in the client's order of acceptance,
   that the server may send *)
Theorem c05_negotiation_end_to_end : forall cl md h send,
  prepare_request cl md = Done h -> en_list (cl_accept cl) <> [] ->
  from_accept_encoding_header h send = find (is_enabled send) (en_list (cl_accept cl)).
Proof. exact negotiation_end_to_end. Qed.

(* ---- no panic site is reachable ---- *)
Theorem c05_never_panics : forall sv rq h c md hdrs flag infl,
  (forall st, h = HErr st -> well_formed st) ->
  server_unary sv rq h <> RespPanic /\ prepare_request c md <> Panic /\
  client_receive c hdrs flag infl <> CrPanic /\ accept_value (sv_accept sv) <> AvPanic.
Proof. exact never_panics. Qed.

(* ---- configurations: finite, enumerated ---- *)
(* any sequence of enable calls yields the distinct encodings in order of first call; the
   three slots always suffice *)
Theorem c05_config_of_calls : forall calls e,
  List.length (config_of calls) = 3%nat /\
  en_list (config_of calls) = order_of calls /\ NoDup (order_of calls) /\
  (is_enabled (config_of calls) e = true <-> In e calls).
Proof. exact config_of_calls. Qed.
(* and is one of the sixteen ordered duplicate-free lists over {gzip, deflate, zstd} *)
Theorem c05_sixteen_configurations : forall calls,
  exists l, In l all_configs /\ config_of calls = config_of l /\ en_list (config_of calls) = l.
Proof. exact config_of_is_one_of_sixteen. Qed.
Theorem c05_apply_compression_config_exact : forall acc snd e,
  is_enabled (sv_accept (apply_compression_config server_new acc snd)) e = is_enabled acc e /\
  is_enabled (sv_send (apply_compression_config server_new acc snd)) e = is_enabled snd e.
Proof. exact apply_compression_config_exact. Qed.

(* ---- non-vacuity ---- *)
(* the sixteen configurations exist, are pairwise different, and each reads back as itself *)
Example c05_configurations_enumerated :
  List.length all_configs = 16%nat /\
  map (fun l => en_list (config_of l)) all_configs = all_configs /\
  NoDup all_configs /\ (forall l, NoDup l -> In l all_configs).
Proof.
  split; [reflexivity|]. split; [reflexivity|]. split; [|exact all_configs_complete].
  repeat constructor; cbn; intuition discriminate.
Qed.

(* the witnesses of F-C05a: send = {gzip} and "zstd" or "deflate, gzip"; send = {zstd} and
   "identity,gzip" *)
Example c05_fixed_witnesses :
  let hdr v := [(hdr_grpc_accept_encoding, bytes_of_string v)] in
  from_accept_encoding_header (hdr "zstd"%string) (config_of [Gzip]) = None /\
  from_accept_encoding_header (hdr "deflate, gzip"%string) (config_of [Gzip]) = Some Gzip /\
  from_accept_encoding_header (hdr "identity,gzip"%string) (config_of [Zstd]) = None.
Proof. repeat split; reflexivity. Qed.

(* the hypotheses of soundness / completeness are met by an untidy header *)
Example c05_choice_premises_hold :
  let v := [32; 98; 114; 44; 9; 122; 115; 116; 100; 32; 44; 103; 122; 105; 112; 59; 113; 61; 49; 44; 103; 122; 105; 112] in
  let m := [(hdr_grpc_accept_encoding, v)] in
  forallb is_visible_ascii v = true /\
  map trim (split_on COMMA v) = [[98; 114]; as_str Zstd; [103; 122; 105; 112; 59; 113; 61; 49]; as_str Gzip] /\
  from_accept_encoding_header m (config_of [Gzip; Deflate]) = Some Gzip /\
  from_accept_encoding_header m (config_of [Gzip; Zstd]) = Some Zstd /\
  from_accept_encoding_header m (config_of [Deflate]) = None.
Proof. repeat split; reflexivity. Qed.

(* a refusal: "br" received with {zstd, gzip} enabled *)
Example c05_refusal_premises_hold :
  let m := [(hdr_grpc_encoding, [98; 114])] in
  let c := config_of [Zstd; Gzip] in
  (forall e, [98; 114] = as_str e -> is_enabled c e = false) /\ [98; 114] <> encoding_header_identity /\
  refusal_value c = bytes_of_string "zstd,gzip,identity" /\
  refusal_value (config_of []) = bytes_of_string "identity" /\
  obs_server (mkServer c c) (mkRequest m 0 []) (HOk [] Inherit) =
  obs_response (RespStatus (unimplemented_with_accept (refusal_value c))
                           [(hdr_content_type, grpc_content_type);
                            (hdr_grpc_accept_encoding, refusal_value c);
                            (hdr_grpc_status, [49; 50])]).
Proof.
  split; [intros e; destruct e; intros H; vm_compute in H; discriminate|].
  split; [intros H; vm_compute in H; discriminate|]. repeat split; reflexivity.
Qed.

(* an answered, compressed call and the opt-out *)
Example c05_announce_premises_hold :
  let rq := mkRequest [(hdr_grpc_accept_encoding, as_str Deflate)] 0 [] in
  let sv := server_of [] [Gzip; Deflate] in
  (exists hdrs, server_unary sv rq (HOk [] Inherit) = RespOk hdrs 1 (Some Deflate)) /\
  (exists hdrs, server_unary sv rq (HOk [] Disable) = RespOk hdrs 0 None /\
                hm_get_all hdrs hdr_grpc_encoding = [as_str Deflate]).
Proof. split; eexists; [|split]; reflexivity. Qed.

Print Assumptions c05_server_choice_sound.
Print Assumptions c05_server_choice_complete.
Print Assumptions c05_server_announce_iff.
Print Assumptions c05_recv_encoding_exact.
Print Assumptions c05_server_refuses_unaccepted.
Print Assumptions c05_client_sends_exactly.
Print Assumptions c05_client_advertises_exactly.
Print Assumptions c05_never_panics.
