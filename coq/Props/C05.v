(* C05 - Compression is used only as negotiated and configured.
   Statements only: each theorem is closed by [exact] of a lemma proved in Proofs/Negotiate.v.
   Header values are arbitrary byte lists; configurations are arbitrary slot contents (which
   include the sixteen values the builder methods can produce, enumerated at the end); the
   server theorems hold for each of the four entry points of server::Grpc ([shape]), the client
   theorems for each of the four call shapes; handlers, frames, flags, payloads and the
   compressor are arbitrary.
   Stated premises (tonic does not reserve these metadata names, see checks/C05.json):
   c05_server_announce_iff - the handler's own metadata has no grpc-encoding entry;
   c05_client_announce_iff - the caller's own metadata has no grpc-encoding entry; the `[]`
   branch of c05_client_advertises_exactly shows the caller's grpc-accept-encoding entries. *)
From Verif Require Import Lib.Bytes Lib.HeaderMap Model.Frame.
From Verif Require Import Gen.StatusTables Gen.CompressionTables Model.Status Model.Negotiate.
From Verif Require Import Proofs.Status Proofs.Negotiate.
From Coq Require Import String.
Open Scope list_scope.
Open Scope N_scope.

(* ---- the server's choice ---- *)
(* chosen e  =>  e is enabled for sending and e's name is one of the comma separated, trimmed
   items of the request's grpc-accept-encoding *)
Theorem c05_server_choice_sound : forall m c e,
  from_accept_encoding_header m c = Some e ->
  is_enabled c e = true /\
  exists v, hm_get m hdr_grpc_accept_encoding = Some v /\ In (as_str e) (map trim (split_on COMMA v)).
Proof. exact server_choice_sound. Qed.

(* if some item names an enabled encoding, one is chosen: the first such item *)
Theorem c05_server_choice_complete : forall m c v e,
  hm_get m hdr_grpc_accept_encoding = Some v -> forallb is_visible_ascii v = true ->
  In (as_str e) (map trim (split_on COMMA v)) -> is_enabled c e = true ->
  exists e' pre post,
    from_accept_encoding_header m c = Some e' /\ is_enabled c e' = true /\
    map trim (split_on COMMA v) = pre ++ as_str e' :: post /\
    forall e'', In (as_str e'') pre -> is_enabled c e'' = false.
Proof. exact server_choice_complete. Qed.

(* nothing is chosen exactly when the header is absent, is not visible ASCII, or offers nothing
   that is enabled *)
Theorem c05_server_choice_none : forall m c,
  from_accept_encoding_header m c = None <->
  (hm_get m hdr_grpc_accept_encoding = None \/
   (exists v, hm_get m hdr_grpc_accept_encoding = Some v /\
      (forallb is_visible_ascii v = false \/
       forall e, In (as_str e) (map trim (split_on COMMA v)) -> is_enabled c e = false))).
Proof. exact server_choice_none. Qed.

(* what "items" means: the pieces put back together with commas are the value, no piece holds
   a comma, and trim removes white space only and leaves none at the ends *)
Theorem c05_split_is_the_comma_decomposition : forall s,
  join COMMA (split_on COMMA s) = s /\ Forall (fun p => ~ In COMMA p) (split_on COMMA s) /\
  forall ps, ps <> [] -> Forall (fun p => ~ In COMMA p) ps -> split_on COMMA (join COMMA ps) = ps.
Proof. exact split_is_the_comma_decomposition. Qed.
Theorem c05_trim_removes_only_outer_white_space : forall s,
  exists a b, s = a ++ trim s ++ b /\ forallb is_ws a = true /\ forallb is_ws b = true /\
              (forall x r, trim s = x :: r -> is_ws x = false) /\
              (forall x r, trim s = r ++ [x] -> is_ws x = false).
Proof. exact trim_spec. Qed.

(* ---- what the server sends: every entry point ---- *)
(* a response frame is compressed only with an encoding enabled for sending and offered by the
   request; it is then flagged, announced, and its payload is that compressor's output *)
Theorem c05_server_compresses_only_as_negotiated :
  forall (cmp : encoding -> list N -> list N) (s : shape) sv rq (h : handler) hdrs frames f e,
  server_call cmp s sv rq h = RespOk hdrs frames -> In f frames -> wf_used f = Some e ->
  is_enabled (sv_send sv) e = true /\
  (exists v, hm_get (rq_headers rq) hdr_grpc_accept_encoding = Some v /\
             In (as_str e) (map trim (split_on COMMA v))) /\
  wf_flag f = 1 /\ hm_get_all hdrs hdr_grpc_encoding = [as_str e] /\
  exists msg, wf_bytes f = frame 1 (cmp e msg).
Proof. exact server_compresses_only_as_negotiated. Qed.

(* "otherwise sends identity": every other frame is the plain message with flag 0 *)
Theorem c05_server_plain_frames :
  forall (cmp : encoding -> list N -> list N) (s : shape) sv rq (h : handler) hdrs frames f,
  server_call cmp s sv rq h = RespOk hdrs frames -> In f frames -> wf_used f = None ->
  wf_flag f = 0 /\ exists msg, wf_bytes f = frame 0 msg.
Proof. exact server_plain_frames. Qed.

(* completeness at the level of a call: if the header offers an encoding that is enabled for
   sending, the answer of every entry point announces the first such one *)
Theorem c05_server_call_choice_complete :
  forall (cmp : encoding -> list N -> list N) (s : shape) sv rq (h : handler) hdrs frames v e,
  hm_get (rq_headers rq) hdr_grpc_accept_encoding = Some v -> forallb is_visible_ascii v = true ->
  In (as_str e) (map trim (split_on COMMA v)) -> is_enabled (sv_send sv) e = true ->
  server_call cmp s sv rq h = RespOk hdrs frames ->
  exists e' pre post,
    from_accept_encoding_header (rq_headers rq) (sv_send sv) = Some e' /\
    is_enabled (sv_send sv) e' = true /\
    map trim (split_on COMMA v) = pre ++ as_str e' :: post /\
    (forall e'', In (as_str e'') pre -> is_enabled (sv_send sv) e'' = false) /\
    hm_get_all hdrs hdr_grpc_encoding = [as_str e'].
Proof. exact server_call_choice_complete. Qed.

(* grpc-encoding is announced exactly when an encoding was chosen and names it; otherwise every
   message goes out plain (flag 0).  The per-response opt-out (honoured by unary and
   client_streaming only) keeps the announcement but sends the message plain.
   Premise: the handler's own metadata never carries a grpc-encoding entry. *)
Theorem c05_server_announce_iff :
  forall (cmp : encoding -> list N -> list N) (s : shape) sv rq (h : handler) hdrs frames,
  server_call cmp s sv rq h = RespOk hdrs frames ->
  (forall d md ov msgs, h d = HOk md ov msgs -> hm_get_all md hdr_grpc_encoding = []) ->
  let chosen := from_accept_encoding_header (rq_headers rq) (sv_send sv) in
  (forall e, hm_get_all hdrs hdr_grpc_encoding = [as_str e] <-> chosen = Some e) /\
  (hm_get_all hdrs hdr_grpc_encoding = [] <-> chosen = None) /\
  exists d md ov msgs, h d = HOk md ov msgs /\
    (override_for s ov = Inherit ->
       Forall (fun f => wf_used f = chosen /\ wf_flag f = flag_of chosen) frames) /\
    (override_for s ov = Disable ->
       response_is_unary s = true /\ ov = Disable /\
       Forall (fun f => wf_used f = None /\ wf_flag f = 0) frames).
Proof. exact server_announce_iff. Qed.

(* with arbitrary handler metadata: tonic's own contribution to grpc-encoding, and every frame *)
Theorem c05_server_response_exact :
  forall (cmp : encoding -> list N -> list N) (s : shape) sv rq (h : handler) hdrs frames,
  server_call cmp s sv rq h = RespOk hdrs frames ->
  exists d md ov msgs, h d = HOk md ov msgs /\
    frames = map (encode_item cmp (effective_encoding
                    (from_accept_encoding_header (rq_headers rq) (sv_send sv)) (override_for s ov)))
                 (response_messages s msgs) /\
    hm_get_all hdrs hdr_grpc_encoding =
      match from_accept_encoding_header (rq_headers rq) (sv_send sv) with
      | Some e => [as_str e]
      | None => hm_get_all md hdr_grpc_encoding
      end.
Proof. exact server_response_exact. Qed.

(* ---- receiving: grpc-encoding of a request or a response ---- *)
Theorem c05_recv_encoding_exact : forall m c,
  match hm_get m hdr_grpc_encoding with
  | None => from_encoding_header m c = RecvOk None
  | Some v =>
      (forall e, v = as_str e -> is_enabled c e = true -> from_encoding_header m c = RecvOk (Some e)) /\
      (v = encoding_header_identity -> from_encoding_header m c = RecvOk None) /\
      ((forall e, v = as_str e -> is_enabled c e = false) -> v <> encoding_header_identity ->
       from_encoding_header m c = RecvErr (unimplemented_with_accept (refusal_value c)))
  end.
Proof. exact recv_encoding_exact. Qed.

Theorem c05_recv_accepts_iff : forall m c e,
  from_encoding_header m c = RecvOk (Some e) <->
  hm_get m hdr_grpc_encoding = Some (as_str e) /\ is_enabled c e = true.
Proof. exact recv_accepts_iff. Qed.

(* the refusal: UNIMPLEMENTED, and its grpc-accept-encoding read back item by item is exactly
   the enabled encodings in order, then identity ("identity" alone when nothing is enabled) *)
Theorem c05_recv_refuses_otherwise : forall m c v,
  hm_get m hdr_grpc_encoding = Some v ->
  (forall e, v = as_str e -> is_enabled c e = false) -> v <> encoding_header_identity ->
  exists st, from_encoding_header m c = RecvErr st /\ st_code st = Code_Unimplemented /\
    hm_get_all (st_md st) hdr_grpc_accept_encoding = [refusal_value c] /\
    map trim (split_on COMMA (refusal_value c)) = map as_str (en_list c) ++ [encoding_header_identity].
Proof. exact recv_refuses_otherwise. Qed.

(* every entry point, every handler *)
Theorem c05_server_refuses_unaccepted :
  forall (cmp : encoding -> list N -> list N) (s : shape) sv rq (h : handler) v,
  hm_get (rq_headers rq) hdr_grpc_encoding = Some v ->
  (forall e, v = as_str e -> is_enabled (sv_accept sv) e = false) -> v <> encoding_header_identity ->
  exists st m, server_call cmp s sv rq h = RespStatus st m /\ st_code st = Code_Unimplemented /\
    hm_get_all m hdr_grpc_status = [[49; 50]] /\
    hm_get_all m hdr_grpc_accept_encoding = [refusal_value (sv_accept sv)] /\
    map trim (split_on COMMA (refusal_value (sv_accept sv))) =
      map as_str (en_list (sv_accept sv)) ++ [encoding_header_identity] /\
    hm_get_all m hdr_grpc_encoding = [].
Proof. exact server_refuses_unaccepted. Qed.

(* and only then: an absent, identity or enabled grpc-encoding with unflagged frames reaches
   the handler of every entry point *)
Theorem c05_server_accepts_enabled :
  forall (cmp : encoding -> list N -> list N) (s : shape) sv rq (h : handler),
  (hm_get (rq_headers rq) hdr_grpc_encoding = None \/
   hm_get (rq_headers rq) hdr_grpc_encoding = Some encoding_header_identity \/
   exists e, hm_get (rq_headers rq) hdr_grpc_encoding = Some (as_str e) /\ is_enabled (sv_accept sv) e = true) ->
  Forall (fun f => rf_flag f = 0) (rq_frames rq) -> rq_frames rq <> [] ->
  server_call cmp s sv rq h =
  map_response cmp s (h (List.length (rq_frames rq), inl tt))
               (from_accept_encoding_header (rq_headers rq) (sv_send sv)).
Proof. exact server_accepts_enabled. Qed.

(* every call shape of the client; nothing of a refused response is delivered *)
Theorem c05_client_refuses_unaccepted : forall (s : shape) c hdrs fs v,
  hm_get hdrs hdr_grpc_encoding = Some v ->
  (forall e, v = as_str e -> is_enabled (cl_accept c) e = false) -> v <> encoding_header_identity ->
  exists st, client_receive s c hdrs fs = CrDone O (inr st) /\ st_code st = Code_Unimplemented /\
    hm_get_all (st_md st) hdr_grpc_accept_encoding = [refusal_value (cl_accept c)].
Proof. exact client_refuses_unaccepted. Qed.

(* a response stream is only ever created with an encoding that is enabled and announced *)
Theorem c05_client_stream_encoding : forall c hdrs enc,
  create_response c hdrs = ClStream enc ->
  match enc with
  | Some e => hm_get hdrs hdr_grpc_encoding = Some (as_str e) /\ is_enabled (cl_accept c) e = true
  | None => hm_get hdrs hdr_grpc_encoding = None \/ hm_get hdrs hdr_grpc_encoding = Some encoding_header_identity
  end.
Proof. exact client_stream_encoding. Qed.

(* ---- the compressed-flag ---- *)
Theorem c05_flag_without_encoding_internal :
  exists st, decode_flag None 1 = FlagErr st /\ st_code st = Code_Internal.
Proof. exact flag_without_encoding_internal. Qed.

Theorem c05_decode_flag_exact : forall enc flag,
  match decode_flag enc flag with
  | FlagOk None => flag = 0
  | FlagOk (Some e) => flag = 1 /\ enc = Some e
  | FlagErr st => st_code st = Code_Internal /\ flag <> 0 /\ (flag = 1 -> enc = None)
  end.
Proof. exact decode_flag_exact. Qed.

(* unary / server_streaming answer INTERNAL themselves; client_streaming / streaming hand the
   INTERNAL status to the handler as the item of its request stream *)
Theorem c05_server_flag_without_encoding :
  forall (cmp : encoding -> list N -> list N) (s : shape) sv rq (h : handler) f r,
  (hm_get (rq_headers rq) hdr_grpc_encoding = None \/
   hm_get (rq_headers rq) hdr_grpc_encoding = Some encoding_header_identity) ->
  rq_frames rq = f :: r -> rf_flag f = 1 ->
  exists st, st_code st = Code_Internal /\
    if request_is_unary s then
      exists m, server_call cmp s sv rq h = RespStatus st m /\
        hm_get_all m hdr_grpc_status = [[49; 51]] /\ hm_get_all m hdr_grpc_encoding = []
    else server_call cmp s sv rq h =
         map_response cmp s (h (O, inr st)) (from_accept_encoding_header (rq_headers rq) (sv_send sv)).
Proof. exact server_flag_without_encoding. Qed.

Theorem c05_client_flag_without_encoding : forall (s : shape) c hdrs f r,
  create_response c hdrs = ClStream None -> rf_flag f = 1 ->
  exists st, client_receive s c hdrs (f :: r) = CrDone O (inr st) /\ st_code st = Code_Internal.
Proof. exact client_flag_without_encoding. Qed.

(* ---- the client's requests: every call shape ---- *)
Theorem c05_client_sends_exactly :
  forall (cmp : encoding -> list N -> list N) (s : shape) c md msgs h frames,
  client_request cmp s c md msgs = Done (h, frames) ->
  List.length frames = List.length (request_messages s msgs) /\
  match cl_send c with
  | Some e => hm_get_all h hdr_grpc_encoding = [as_str e] /\
              Forall (fun f => wf_used f = Some e /\ wf_flag f = 1 /\
                               exists m, wf_bytes f = frame 1 (cmp e m)) frames
  | None => hm_get_all h hdr_grpc_encoding = hm_get_all md hdr_grpc_encoding /\
            Forall (fun f => wf_used f = None /\ wf_flag f = 0 /\
                             exists m, wf_bytes f = frame 0 m) frames
  end.
Proof. exact client_sends_exactly. Qed.

(* premise: the caller's own metadata has no grpc-encoding entry *)
Theorem c05_client_announce_iff :
  forall (cmp : encoding -> list N -> list N) (s : shape) c md msgs h frames,
  client_request cmp s c md msgs = Done (h, frames) -> hm_get_all md hdr_grpc_encoding = [] ->
  (forall e, hm_get_all h hdr_grpc_encoding = [as_str e] <-> cl_send c = Some e) /\
  (hm_get_all h hdr_grpc_encoding = [] <-> cl_send c = None).
Proof. exact client_announce_iff. Qed.

Theorem c05_client_advertises_exactly :
  forall (cmp : encoding -> list N -> list N) (s : shape) c md msgs h frames,
  client_request cmp s c md msgs = Done (h, frames) ->
  match en_list (cl_accept c) with
  | [] => hm_get_all h hdr_grpc_accept_encoding = hm_get_all md hdr_grpc_accept_encoding
  | l => hm_get_all h hdr_grpc_accept_encoding = [refusal_value (cl_accept c)] /\
         map trim (split_on COMMA (refusal_value (cl_accept c))) = map as_str l ++ [encoding_header_identity]
  end.
Proof. exact client_advertises_exactly. Qed.

Theorem c05_client_of_config : forall sends acc,
  cl_send (client_of sends acc) = last (map Some sends) None /\
  cl_accept (client_of sends acc) = config_of acc.
Proof. exact client_of_config. Qed.

(* tonic client against tonic server: the first encoding, in the client's order of acceptance,
   that the server may send *)
Theorem c05_negotiation_end_to_end :
  forall (cmp : encoding -> list N -> list N) (s : shape) cl md msgs h frames send,
  client_request cmp s cl md msgs = Done (h, frames) -> en_list (cl_accept cl) <> [] ->
  from_accept_encoding_header h send = find (is_enabled send) (en_list (cl_accept cl)).
Proof. exact negotiation_end_to_end. Qed.

(* ---- no panic site is reachable ---- *)
Theorem c05_never_panics :
  forall (cmp : encoding -> list N -> list N) (s : shape) sv rq (h : handler) c md hdrs fs,
  (forall d st, h d = HErr st -> well_formed st) ->
  server_call cmp s sv rq h <> RespPanic /\ prepare_request c md <> Panic /\
  client_receive s c hdrs fs <> CrPanic /\ accept_value (sv_accept sv) <> AvPanic.
Proof. exact never_panics. Qed.

(* ---- configurations: finite, enumerated ---- *)
(* any sequence of enable calls yields the distinct encodings in order of first call; the
   three slots always suffice *)
Theorem c05_config_of_calls : forall calls e,
  List.length (config_of calls) = 3%nat /\
  en_list (config_of calls) = order_of calls /\ NoDup (order_of calls) /\
  (is_enabled (config_of calls) e = true <-> In e calls).
Proof. exact config_of_calls. Qed.
(* and is one of the sixteen ordered duplicate-free lists over {gzip, deflate, zstd} *)
Theorem c05_sixteen_configurations : forall calls,
  exists l, In l all_configs /\ config_of calls = config_of l /\ en_list (config_of calls) = l.
Proof. exact config_of_is_one_of_sixteen. Qed.
Theorem c05_apply_compression_config_exact : forall acc snd e,
  is_enabled (sv_accept (apply_compression_config server_new acc snd)) e = is_enabled acc e /\
  is_enabled (sv_send (apply_compression_config server_new acc snd)) e = is_enabled snd e.
Proof. exact apply_compression_config_exact. Qed.

(* ---- non-vacuity ---- *)
(* the sixteen configurations exist, are pairwise different, and each reads back as itself *)
Example c05_configurations_enumerated :
  List.length all_configs = 16%nat /\
  map (fun l => en_list (config_of l)) all_configs = all_configs /\
  NoDup all_configs /\ (forall l, NoDup l -> In l all_configs).
Proof.
  split; [reflexivity|]. split; [reflexivity|]. split; [|exact all_configs_complete].
  repeat constructor; cbn; intuition discriminate.
Qed.

(* the witnesses of F-C05a: send = {gzip} and "zstd" or "deflate, gzip"; send = {zstd} and
   "identity,gzip" *)
Example c05_fixed_witnesses :
  let hdr v := [(hdr_grpc_accept_encoding, bytes_of_string v)] in
  from_accept_encoding_header (hdr "zstd"%string) (config_of [Gzip]) = None /\
  from_accept_encoding_header (hdr "deflate, gzip"%string) (config_of [Gzip]) = Some Gzip /\
  from_accept_encoding_header (hdr "identity,gzip"%string) (config_of [Zstd]) = None.
Proof. repeat split; reflexivity. Qed.

(* the hypotheses of soundness / completeness are met by an untidy header *)
Example c05_choice_premises_hold :
  let v := [32; 98; 114; 44; 9; 122; 115; 116; 100; 32; 44; 103; 122; 105; 112; 59; 113; 61; 49; 44; 103; 122; 105; 112] in
  let m := [(hdr_grpc_accept_encoding, v)] in
  forallb is_visible_ascii v = true /\
  map trim (split_on COMMA v) = [[98; 114]; as_str Zstd; [103; 122; 105; 112; 59; 113; 61; 49]; as_str Gzip] /\
  from_accept_encoding_header m (config_of [Gzip; Deflate]) = Some Gzip /\
  from_accept_encoding_header m (config_of [Gzip; Zstd]) = Some Zstd /\
  from_accept_encoding_header m (config_of [Deflate]) = None.
Proof. repeat split; reflexivity. Qed.

(* a refusal: "br" received with {zstd, gzip} enabled *)
Example c05_refusal_premises_hold :
  let m := [(hdr_grpc_encoding, [98; 114])] in
  let c := config_of [Zstd; Gzip] in
  (forall e, [98; 114] = as_str e -> is_enabled c e = false) /\ [98; 114] <> encoding_header_identity /\
  refusal_value c = bytes_of_string "zstd,gzip,identity" /\
  refusal_value (config_of []) = bytes_of_string "identity" /\
  (forall s, obs_server [] s (mkServer c c) (mkRequest m [mkFrame 0 []]) (HOk [] Inherit [[1]]) =
     obs_response (RespStatus (unimplemented_with_accept (refusal_value c))
                              [(hdr_content_type, grpc_content_type);
                               (hdr_grpc_accept_encoding, refusal_value c);
                               (hdr_grpc_status, [49; 50])])).
Proof.
  split; [intros e; destruct e; intros H; vm_compute in H; discriminate|].
  split; [intros H; vm_compute in H; discriminate|]. repeat split; reflexivity.
Qed.

(* an answered, compressed call on every entry point, and the opt-out where it is honoured *)
Example c05_announce_premises_hold :
  let rq := mkRequest [(hdr_grpc_accept_encoding, as_str Deflate)] [mkFrame 0 []] in
  let sv := server_of [] [Gzip; Deflate] in
  let cmp := fun (_ : encoding) (m : list N) => 7 :: m in
  let used s ov := match server_call cmp s sv rq (propagate (HOk [] ov [[1]; [2]])) with
                   | RespOk h fr => (hm_get_all h hdr_grpc_encoding, map wf_used fr, map wf_bytes fr)
                   | _ => ([], [], [])
                   end in
  used Unary Inherit = ([as_str Deflate], [Some Deflate], [[1; 0; 0; 0; 2; 7; 1]]) /\
  used Unary Disable = ([as_str Deflate], [None], [[0; 0; 0; 0; 1; 1]]) /\
  used ClientStreaming Disable = ([as_str Deflate], [None], [[0; 0; 0; 0; 1; 1]]) /\
  used ServerStreaming Disable =
    ([as_str Deflate], [Some Deflate; Some Deflate], [[1; 0; 0; 0; 2; 7; 1]; [1; 0; 0; 0; 2; 7; 2]]) /\
  used Streaming Inherit =
    ([as_str Deflate], [Some Deflate; Some Deflate], [[1; 0; 0; 0; 2; 7; 1]; [1; 0; 0; 0; 2; 7; 2]]).
Proof. repeat split; reflexivity. Qed.

(* the client theorems on concrete values: a request of every shape, a refused response, a
   flagged frame without encoding *)
Example c05_client_premises_hold :
  let c := client_of [Gzip; Zstd] [Deflate; Gzip] in
  let cmp := fun (_ : encoding) (m : list N) => 7 :: m in
  (forall s, exists h fr, client_request cmp s c [] [[1]; [2]] = Done (h, fr) /\
     hm_get_all h hdr_grpc_encoding = [as_str Zstd] /\
     hm_get_all h hdr_grpc_accept_encoding = [bytes_of_string "deflate,gzip,identity"] /\
     Forall (fun f => wf_used f = Some Zstd) fr) /\
  (forall s, exists st, client_receive s c [(hdr_grpc_encoding, as_str Zstd)] [mkFrame 0 []] = CrDone O (inr st) /\
     st_code st = Code_Unimplemented) /\
  (forall s, create_response c [] = ClStream None /\
     exists st, client_receive s c [] [mkFrame 1 []] = CrDone O (inr st) /\ st_code st = Code_Internal) /\
  (forall s, client_receive s c [(hdr_grpc_encoding, as_str Gzip)] [mkFrame 1 [Gzip]] = CrDone 1 (inl tt)).
Proof.
  split; [|split; [|split]]; intros s; destruct s;
    repeat (try eexists; try split; try reflexivity; repeat constructor).
Qed.

Print Assumptions c05_server_choice_sound.
Print Assumptions c05_server_choice_complete.
Print Assumptions c05_server_call_choice_complete.
Print Assumptions c05_server_compresses_only_as_negotiated.
Print Assumptions c05_server_announce_iff.
Print Assumptions c05_recv_encoding_exact.
Print Assumptions c05_server_refuses_unaccepted.
Print Assumptions c05_client_sends_exactly.
Print Assumptions c05_client_advertises_exactly.
Print Assumptions c05_never_panics.
