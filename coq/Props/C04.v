(* C04 - Status survives the header encoding; reading any headers is total; mapping tables.
   Statements only: each theorem is closed by [exact] of a lemma proved in Proofs/Status.v. *)
From Verif Require Import Lib.Bytes Lib.Base64 Lib.Percent Lib.Utf8 Lib.HeaderMap.
From Verif Require Import Gen.StatusTables Model.Status Proofs.Status.
Open Scope N_scope.

(* any code, any UTF-8 message, any details, any metadata: written then read back is equal
   (metadata pointwise per name, minus the names the protocol reserves) *)
Theorem c04_status_roundtrip : forall st,
  well_formed st -> utf8_valid (st_msg st) = true ->
  hm_get_all (st_md st) hdr_grpc_status_details = [] ->
  exists m st',
    to_header_map st = Some m /\ from_header_map m = Some st' /\
    st_code st' = st_code st /\ st_msg st' = st_msg st /\ st_details st' = st_details st /\
    forall k, hm_get_all (st_md st') k = hm_get_all (sanitize (st_md st)) k.
Proof. exact status_roundtrip. Qed.

(* header values produced are always legal: add_header cannot fail, so into_http's unwrap
   cannot fire *)
Theorem c04_header_values_legal : forall st m, well_formed st -> exists m', add_header st m = Some m'.
Proof. exact add_header_never_fails. Qed.

Theorem c04_message_value_legal : forall l, bytes_ok l = true -> hv_ok (pct_encode in_encoding_set l) = true.
Proof. exact msg_hv. Qed.

Theorem c04_details_value_legal : forall pad l, bytes_ok l = true -> hv_ok (enc pad l) = true.
Proof. exact b64_hv. Qed.

(* reading is total: no grpc-status -> no status; otherwise a status whose code is one of the
   17, UNKNOWN for malformed codes, degraded to UNKNOWN for undecodable message / details *)
Theorem c04_from_header_map_total : forall m,
  (hm_get m hdr_grpc_status = None /\ from_header_map m = None) \/
  (exists cv st, hm_get m hdr_grpc_status = Some cv /\ from_header_map m = Some st /\
     is_code (st_code st) = true /\
     ((forall c, is_code c = true -> cv <> dec_small c) -> st_code st = Code_Unknown) /\
     (forall h, hm_get m hdr_grpc_message = Some h -> utf8_valid (pct_decode h) = false ->
        st_code st = Code_Unknown /\
        (st_msg st = msg_err_prefix \/ st_msg st = details_err_prefix)) /\
     (forall h, hm_get m hdr_grpc_status_details = Some h -> dec h = None ->
        st_code st = Code_Unknown /\ st_msg st = details_err_prefix /\ st_details st = [])).
Proof. exact from_header_map_total. Qed.

Theorem c04_code_roundtrip : forall c, is_code c = true ->
  exists v, code_to_hv c = Some v /\ code_from_bytes v = c /\ hv_ok v = true.
Proof. exact code_roundtrip. Qed.

(* all HTTP statuses 100..599 (finite domain, bound in the statement) *)
Theorem c04_http_table : forall s, 100 <= s <= 599 ->
  infer_code_from_http s = if s =? 200 then None else Some (http_spec s).
Proof. exact http_table_spec. Qed.

(* every HTTP/2 error code, named or unknown *)
Theorem c04_h2_table : forall r, h2_spec_ok r (code_from_h2 r) = true.
Proof. exact h2_table_spec. Qed.

Theorem c04_from_i32 : forall z,
  code_from_i32 z = if ((0 <=? z) && (z <=? 16))%Z then Z.to_N z else Code_Unknown.
Proof. exact from_i32_spec. Qed.


(* a stream reset by the peer with HTTP/2 error code r (hyper error whose source is the h2
   error), and an h2 error handed to Status::from_error directly: classified by the table *)
Theorem c04_reset_stream : forall r, h2_spec_ok r (reset_stream_code r) = true.
Proof. exact reset_stream_spec. Qed.

Theorem c04_from_error_h2 : forall r rest, h2_spec_ok r (from_error_code (EH2 (Some r) :: rest)) = true.
Proof. exact from_error_h2_spec. Qed.

Theorem c04_from_error_wrappers : forall l,
  from_error_code (EOther :: l) =
  match find_status_in_chain l with Some c => c | None => Code_Unknown end.
Proof. exact from_error_skips_unknown_wrappers. Qed.

(* non-vacuity: a concrete hostile-looking status meets the hypotheses of the round trip *)
Example c04_roundtrip_premises_hold :
  let st := mkStatus 5 [97; 58; 37; 32; 127; 195; 169] [0; 255; 7; 9]
                     [([120; 45; 97], [118]); ([116; 101], [120])] in
  well_formed st /\ utf8_valid (st_msg st) = true /\
  hm_get_all (st_md st) hdr_grpc_status_details = [].
Proof. repeat split; reflexivity. Qed.

Print Assumptions c04_status_roundtrip.
Print Assumptions c04_header_values_legal.
Print Assumptions c04_from_header_map_total.
Print Assumptions c04_http_table.
Print Assumptions c04_h2_table.
Print Assumptions c04_reset_stream.
