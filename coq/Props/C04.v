(* C04 - Status survives the header encoding; reading any headers is total; mapping tables.
   Statements only: each theorem is closed by [exact] of a lemma proved in Proofs/Status.v or
   Proofs/StatusExt.v.  Every statement is about a function the harness evaluates on the same
   inputs as the real code (add_header_c / to_header_map_c / into_http_c / from_header_map /
   infer_grpc_status / code_from_h2 / from_error_code / the Code tables). *)
From Verif Require Import Lib.Bytes Lib.Obs Lib.Base64 Lib.Percent Lib.Utf8 Lib.HeaderMap.
From Verif Require Import Gen.StatusTables Gen.ConstTables Model.Status Proofs.Status.
From Verif Require Import Model.StatusExt Proofs.StatusExt.
Open Scope N_scope.

(* ------------------------------------------------------------------ writing and reading back *)
(* any code, any UTF-8 message, any details, ANY metadata - entries named grpc-status-details-bin
   included, with empty and with non-empty details (finding F-C04e, fixed by commit ed827503: a
   status without details now removes that header): written to the TRAILERS of a server stream
   (Status::to_header_map) and read back, code, message and details are equal.  The metadata comes
   back pointwise per name, minus the names the protocol reserves and minus what the user filed
   under grpc-status-details-bin itself ([md_delivered]: that name is one of the three the reader
   always strips, so such an entry can never be delivered - c04_details_entry_never_delivered).
   The only bound is the capacity of http::HeaderMap itself: 24576 distinct names in the finished
   map; it is exact (c04_write_panics_iff). *)
Theorem c04_trailers_roundtrip : forall st,
  well_formed st -> utf8_valid (st_msg st) = true ->
  hm_names (sanitize (st_md st)) + n_written st <= HM_MAX_NAMES ->
  exists m st',
    to_header_map_c st = WOk m /\ from_header_map m = Some st' /\
    st_code st' = st_code st /\ st_msg st' = st_msg st /\ st_details st' = st_details st /\
    forall k, hm_get_all (st_md st') k =
              if bytes_eqb k hdr_grpc_status_details then [] else hm_get_all (sanitize (st_md st)) k.
Proof. exact trailers_roundtrip. Qed.

(* the same through Status::add_header into a fresh map *)
Theorem c04_status_roundtrip : forall st,
  well_formed st -> utf8_valid (st_msg st) = true ->
  hm_names (sanitize (st_md st)) + n_written st <= HM_MAX_NAMES ->
  exists m st',
    add_header_c st [] = WOk m /\ from_header_map m = Some st' /\
    st_code st' = st_code st /\ st_msg st' = st_msg st /\ st_details st' = st_details st /\
    forall k, hm_get_all (st_md st') k =
              if bytes_eqb k hdr_grpc_status_details then [] else hm_get_all (sanitize (st_md st)) k.
Proof. exact fresh_roundtrip. Qed.

(* the head of a Trailers-Only response (Status::into_http): content-type stays the gRPC one
   whatever the metadata says, the status is read back equal *)
Theorem c04_into_http_roundtrip : forall st,
  well_formed st -> utf8_valid (st_msg st) = true ->
  hm_names (sanitize (st_md st)) + 4 <= HM_MAX_NAMES ->
  exists m st',
    into_http_c st = Some m /\
    hm_get_all m hdr_content_type = [grpc_content_type] /\
    from_header_map m = Some st' /\
    st_code st' = st_code st /\ st_msg st' = st_msg st /\ st_details st' = st_details st /\
    forall k, hm_get_all (st_md st') k =
              if bytes_eqb k hdr_content_type then [grpc_content_type]
              else if bytes_eqb k hdr_grpc_status_details then []
              else hm_get_all (sanitize (st_md st)) k.
Proof. exact into_http_roundtrip. Qed.

(* the metadata conjunct, and only it, depends on the premise the round trips had before the
   fix: a metadata with no entry named grpc-status-details-bin comes back whole (every name of
   the sanitised metadata) ... *)
Theorem c04_metadata_whole : forall md,
  hm_get_all md hdr_grpc_status_details = [] ->
  forall k, (if bytes_eqb k hdr_grpc_status_details then [] else hm_get_all (sanitize md) k)
            = hm_get_all (sanitize md) k.
Proof. exact md_delivered_whole. Qed.

(* ... and whatever the metadata, the entry named grpc-status-details-bin itself can never be
   delivered: EVERY status the reader produces, from any header map, has no metadata under the
   three status header names *)
Theorem c04_details_entry_never_delivered : forall m st,
  from_header_map m = Some st ->
  hm_get_all (st_md st) hdr_grpc_status = [] /\
  hm_get_all (st_md st) hdr_grpc_message = [] /\
  hm_get_all (st_md st) hdr_grpc_status_details = [].
Proof. exact status_names_never_delivered. Qed.

(* F-C04e as a statement about the written map: whenever add_header succeeds, into ANY map, the
   details header of the finished map is the status's own details or absent - never the
   metadata's or the target map's entry of that name *)
Theorem c04_details_header_is_own : forall st m0 m,
  add_header_c st m0 = WOk m ->
  hm_get_all m hdr_grpc_status_details =
  match st_details st with [] => [] | _ => [enc false (st_details st)] end.
Proof. exact details_header_is_own. Qed.

(* add_header into ANY existing map without a stale grpc-message (a stale
   grpc-status-details-bin in the map no longer matters): whenever the write succeeds the status
   is read back; the other names of the map survive unless the status metadata overrides them *)
Theorem c04_add_header_roundtrip : forall st m0 m,
  well_formed st -> utf8_valid (st_msg st) = true ->
  hm_get_all m0 hdr_grpc_message = [] ->
  add_header_c st m0 = WOk m ->
  exists st', from_header_map m = Some st' /\
    st_code st' = st_code st /\ st_msg st' = st_msg st /\ st_details st' = st_details st /\
    forall k, hm_get_all (st_md st') k =
              if is_status_name k then [] else hm_get_all (hm_extend m0 (sanitize (st_md st))) k.
Proof. exact add_header_c_roundtrip. Qed.

(* ------------------------------------------------------------------ outcomes of writing *)
(* Err only for an illegal value, which a well-formed status never produces (the unwrap of
   into_http can therefore only be reached by the capacity panic below) *)
Theorem c04_add_header_never_err : forall st m, well_formed st -> add_header_c st m <> WErr.
Proof. exact add_header_c_never_err. Qed.

(* the panic of the http crate ("size overflows MAX_SIZE") is an explicit outcome; writing into
   an empty map (add_header into a fresh map, the trailers) hits it exactly when the finished map
   would need more than 24576 distinct names - metadata VALUES do not count (F-C04d) *)
Theorem c04_write_panics_iff : forall st, well_formed st ->
  (add_header_c st [] = WPanic <-> HM_MAX_NAMES < hm_names (sanitize (st_md st)) + n_written st).
Proof. exact add_header_c_empty_panics_iff. Qed.

Theorem c04_trailers_panic_iff : forall st, well_formed st ->
  (to_header_map_c st = WPanic <-> HM_MAX_NAMES < hm_names (sanitize (st_md st)) + n_written st).
Proof. exact to_header_map_c_panics_iff. Qed.

(* into any map: no panic while target + metadata + the three status headers fit *)
Theorem c04_add_header_fits : forall st m, well_formed st ->
  hm_names m + hm_names (sanitize (st_md st)) + 3 <= HM_MAX_NAMES ->
  exists m', add_header_c st m = WOk m' /\ add_header st m = Some m'.
Proof. exact add_header_c_fits. Qed.

(* outside the panic the capacity-aware model IS the multimap model other properties use *)
Theorem c04_capacity_model_refines : forall st m,
  match add_header_c st m with
  | WOk m' => add_header st m = Some m'
  | WErr => add_header st m = None
  | WPanic => True
  end.
Proof. exact add_header_c_refines. Qed.

(* ------------------------------------------------------------------ legality of what is written *)
(* every value of the finished map is a legal HTTP header value, for EVERY status, provided the
   values of the target map and of the user metadata were (those are HeaderValues already) *)
Theorem c04_header_values_legal : forall st m m',
  hm_values_ok m = true -> hm_values_ok (st_md st) = true ->
  add_header_c st m = WOk m' -> hm_values_ok m' = true.
Proof. exact add_header_c_values_legal. Qed.

Theorem c04_message_value_legal : forall l, bytes_ok l = true -> hv_ok (pct_encode in_encoding_set l) = true.
Proof. exact msg_hv. Qed.

Theorem c04_details_value_legal : forall pad l, bytes_ok l = true -> hv_ok (enc pad l) = true.
Proof. exact b64_hv. Qed.

(* the two encodings used for the message and the details, on their own: percent-encoding with
   ENCODING_SET is undone by percent-decoding; base64 is written unpadded and decoded whatever the
   padding (DecodePaddingMode::Indifferent) *)
Theorem c04_message_encoding_roundtrip : forall l,
  bytes_ok l = true -> pct_decode (pct_encode in_encoding_set l) = l.
Proof. exact message_roundtrip. Qed.

Theorem c04_base64_padding_indifferent : forall pad l, bytes_ok l = true -> dec (enc pad l) = Some l.
Proof. exact dec_enc. Qed.

Theorem c04_details_written_unpadded : forall l,
  bytes_ok l = true -> forallb is_b64_char (enc false l) = true.
Proof. exact enc_nopad_no_pad. Qed.

(* ------------------------------------------------------------------ reading arbitrary headers *)
(* reading is total: no grpc-status -> no status; otherwise a status whose code is one of the
   17, UNKNOWN for malformed codes, degraded to UNKNOWN for undecodable message / details *)
Theorem c04_from_header_map_total : forall m,
  (hm_get m hdr_grpc_status = None /\ from_header_map m = None) \/
  (exists cv st, hm_get m hdr_grpc_status = Some cv /\ from_header_map m = Some st /\
     is_code (st_code st) = true /\
     ((forall c, is_code c = true -> cv <> dec_small c) -> st_code st = Code_Unknown) /\
     (forall h, hm_get m hdr_grpc_message = Some h -> utf8_valid (pct_decode h) = false ->
        st_code st = Code_Unknown /\
        (st_msg st = msg_err_prefix \/ st_msg st = details_err_prefix)) /\
     (forall h, hm_get m hdr_grpc_status_details = Some h -> dec h = None ->
        st_code st = Code_Unknown /\ st_msg st = details_err_prefix /\ st_details st = [])).
Proof. exact from_header_map_total. Qed.

(* exactly the three status headers are stripped; every other header becomes metadata *)
Theorem c04_from_header_map_metadata : forall m st,
  from_header_map m = Some st ->
  forall k, hm_get_all (st_md st) k = if is_status_name k then [] else hm_get_all m k.
Proof. exact from_header_map_metadata. Qed.

(* decodable fields are read exactly *)
Theorem c04_from_header_map_exact : forall m cv d,
  hm_get m hdr_grpc_status = Some cv ->
  let msg := match hm_get m hdr_grpc_message with Some h => pct_decode h | None => [] end in
  utf8_valid msg = true ->
  match hm_get m hdr_grpc_status_details with Some h => dec h | None => Some [] end = Some d ->
  exists st, from_header_map m = Some st /\
    st_code st = code_from_bytes cv /\ st_msg st = msg /\ st_details st = d.
Proof. exact from_header_map_exact. Qed.

Theorem c04_code_roundtrip : forall c, is_code c = true ->
  exists v, code_to_hv c = Some v /\ code_from_bytes v = c /\ hv_ok v = true.
Proof. exact code_roundtrip. Qed.

(* ------------------------------------------------------------------ no grpc-status: HTTP table *)
(* all HTTP statuses 100..599 (finite domain, bound in the statement) *)
Theorem c04_http_table : forall s, 100 <= s <= 599 ->
  infer_code_from_http s = if s =? 200 then None else Some (http_spec s).
Proof. exact http_table_spec. Qed.

(* infer_grpc_status: trailers without a grpc-status count for nothing *)
Theorem c04_infer_without_grpc_status : forall t s,
  hm_get t hdr_grpc_status = None -> infer_grpc_status (Some t) s = infer_grpc_status None s.
Proof. exact infer_without_grpc_status. Qed.

(* a grpc-status in the trailers beats the HTTP status, whatever that is *)
Theorem c04_infer_grpc_status_wins : forall t s cv,
  hm_get t hdr_grpc_status = Some cv ->
  exists st, from_header_map t = Some st /\
    infer_grpc_status (Some t) s = (if st_code st =? Code_Ok then inl tt else inr (Some st)) /\
    forall s', infer_grpc_status (Some t) s' = infer_grpc_status (Some t) s.
Proof. exact infer_grpc_status_wins. Qed.

(* what the caller sees (None = clean end of the stream) *)
Theorem c04_infer_code_http : forall t s, 100 <= s <= 599 ->
  match t with Some t => hm_get t hdr_grpc_status = None | None => True end ->
  infer_code t s = if s =? 200 then None else Some (http_spec s).
Proof. exact infer_code_http. Qed.

Theorem c04_infer_code_trailers : forall t s c,
  is_code c = true -> hm_get t hdr_grpc_status = Some (dec_small c) ->
  (forall h, hm_get t hdr_grpc_message = Some h -> utf8_valid (pct_decode h) = true) ->
  (forall h, hm_get t hdr_grpc_status_details = Some h -> dec h <> None) ->
  infer_code (Some t) s = if c =? Code_Ok then None else Some c.
Proof. exact infer_code_trailers. Qed.

(* ------------------------------------------------------------------ HTTP/2 error codes *)
(* every HTTP/2 error code, named or unknown; FRAME_SIZE_ERROR is INTERNAL (F-C04c); only
   STREAM_CLOSED (5) and HTTP_1_1_REQUIRED (13), which the gRPC table does not map, may be
   INTERNAL or UNKNOWN *)
Theorem c04_h2_table : forall r, h2_spec_strict r (code_from_h2 r) = true.
Proof. exact h2_table_strict. Qed.

(* Status -> h2::Error (server side): CANCELLED resets with CANCEL, everything else with
   INTERNAL_ERROR *)
Theorem c04_to_h2 : forall c, to_h2_error c = if c =? Code_Cancelled then 8 else 2.
Proof. exact to_h2_spec. Qed.

Theorem c04_from_i32 : forall z,
  code_from_i32 z = if ((0 <=? z) && (z <=? 16))%Z then Z.to_N z else Code_Unknown.
Proof. exact from_i32_spec. Qed.

(* a stream reset by the peer with HTTP/2 error code r: hyper's error (neither its timeout nor
   its cancellation) whose source is the h2 error, under ANY number of wrappers tonic does not
   know and with anything below it - the harness checks that the error a real Channel returns
   has this shape (kind reset.chain) *)
Theorem c04_reset_stream_wrapped : forall ws r rest,
  forallb is_other ws = true ->
  h2_spec_strict r (from_error_code (ws ++ EHyper false false (Some (Some r)) :: rest)) = true.
Proof. exact reset_stream_wrapped. Qed.

Theorem c04_reset_stream : forall r, h2_spec_strict r (reset_stream_code r) = true.
Proof. exact (fun r => reset_stream_wrapped [] r [] eq_refl). Qed.

Theorem c04_from_error_h2 : forall r rest, h2_spec_strict r (from_error_code (EH2 (Some r) :: rest)) = true.
Proof. exact from_error_h2_strict. Qed.

(* wrappers that tonic does not know do not change the classification (any number of them) *)
Theorem c04_from_error_wrappers : forall ws l,
  forallb is_other ws = true -> ws <> [] ->
  from_error_code (ws ++ l) = match find_status_in_chain l with Some c => c | None => Code_Unknown end.
Proof. exact from_error_under_wrappers. Qed.

(* hyper's own keep-alive timeout / cancellation win over an h2 source *)
Theorem c04_hyper_timeout_cancel : forall ws h rest,
  forallb is_other ws = true ->
  from_error_code (ws ++ EHyper true false h :: rest) = Code_Unavailable /\
  from_error_code (ws ++ EHyper false true h :: rest) = Code_Cancelled.
Proof. exact hyper_timeout_cancel. Qed.

(* ------------------------------------------------------------------ non-vacuity *)
(* a concrete hostile-looking status meets the hypotheses of the round trips - its metadata
   holds an entry named grpc-status-details-bin (the shape of F-C04e) *)
Example c04_roundtrip_premises_hold :
  let st := mkStatus 5 [97; 58; 37; 32; 127; 195; 169] [0; 255; 7; 9]
                     [([120; 45; 97], [118]); (hdr_grpc_status_details, [65; 81]); ([116; 101], [120])] in
  well_formed st /\ utf8_valid (st_msg st) = true /\
  hm_get_all (st_md st) hdr_grpc_status_details <> [] /\
  hm_names (sanitize (st_md st)) + n_written st <= HM_MAX_NAMES.
Proof. repeat split; try reflexivity; vm_compute; discriminate. Qed.
(* the witness of F-C04e evaluated: no details, metadata entry grpc-status-details-bin = "AQ"
   (base64 of the byte 1): read back with EMPTY details (before the fix: [1]) *)
Example c04_f_c04e_witness :
  obs_roundtrip_c (mkStatus 3 [] [] [(hdr_grpc_status_details, [65; 81])]) =
  Nd [Nn 1; hm_canon [(hdr_grpc_status, [51])]; oopt status_obs (Some (mkStatus 3 [] [] []))].
Proof. vm_compute. reflexivity. Qed.

(* the Panic outcome is reachable (24576 metadata names) and metadata values alone never reach it
   (the witness of F-C04d: 24574 values under one name) *)
Example c04_panic_reachable : wres_size_obs (to_header_map_c (cap_status 5 [] [] 24576 0)) = Nd [Nn 99].
Proof. vm_compute. reflexivity. Qed.
Example c04_values_do_not_count :
  wres_size_obs (to_header_map_c (cap_status 5 [109] [] 0 24574)) = Nd [Nn 1; Nn 3; Nn 24576].
Proof. vm_compute. reflexivity. Qed.
(* a real reset chain as the Channel returns it (transport error > hyper error > h2 error) *)
Example c04_reset_chain_shape :
  from_error_code ([EOther] ++ EHyper false false (Some (Some 6)) :: [EH2 (Some 6)]) = Code_Internal.
Proof. reflexivity. Qed.

Print Assumptions c04_trailers_roundtrip.
Print Assumptions c04_into_http_roundtrip.
Print Assumptions c04_add_header_roundtrip.
Print Assumptions c04_details_entry_never_delivered.
Print Assumptions c04_details_header_is_own.
Print Assumptions c04_write_panics_iff.
Print Assumptions c04_header_values_legal.
Print Assumptions c04_from_header_map_total.
Print Assumptions c04_infer_code_trailers.
Print Assumptions c04_h2_table.
Print Assumptions c04_reset_stream_wrapped.
