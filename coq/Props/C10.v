(* C10 - requests reach exactly the method named by the path, else UNIMPLEMENTED; the order in
   which services were registered does not matter.
   Statements only: each theorem is closed by [exact] of a lemma proved in Proofs/Router.v.

   Reading guide.  [build l = Some r]: registering the services [l] in this order on
   Routes::default() did not panic (distinct names, no name starting with ':' or '*');
   [names_ok l]: no registered name contains '/', '{' or '}' (the pattern "/NAME/{*rest}" then
   means what the model says); [serve r path]: what happens to a request with this raw path:
   [Handler S M] | [UnimplService S] (default arm of S's generated `call`) | [UnimplFallback];
   [method_path S M] = "/" ++ S ++ "/" ++ M. *)
From Verif Require Import Lib.Bytes Lib.Obs Lib.HeaderMap.
From Verif Require Import Gen.StatusTables Model.Status Model.Router Proofs.Router.
From Coq Require Import Permutation String.
Open Scope N_scope.

(* dispatched to method M of service S iff the path is exactly /S/M (all paths, all sets of
   services; no bound) *)
Theorem c10_route_iff : forall l r path S M, build l = Some r -> names_ok l ->
  (serve r path = Handler S M <->
   (exists s, In s l /\ svc_name s = S /\ In M (svc_methods s)) /\ M <> [] /\
   path = method_path S M).
Proof. exact route_iff. Qed.

Theorem c10_route_iff_methods_ok : forall l r path S M,
  build l = Some r -> names_ok l -> methods_ok l ->
  (serve r path = Handler S M <->
   (exists s, In s l /\ svc_name s = S /\ In M (svc_methods s)) /\ path = method_path S M).
Proof. exact route_iff_methods_ok. Qed.

(* every request is answered: a handler, or grpc-status 12 and no handler *)
Theorem c10_route_total : forall r path,
  (exists S M, serve r path = Handler S M) \/
  (runs_handler (serve r path) = false /\ status_header (serve r path) = Some Code_Unimplemented).
Proof. exact route_total. Qed.

(* .. and that answer is a well-formed gRPC response (also C03): HTTP 200, content-type
   application/grpc, exactly one grpc-status "12", no grpc-message, content-length absent or 0 (axum
   writes it for the fallback's empty body), no body, no trailers; a
   client reading the headers (Status::from_header_map) sees UNIMPLEMENTED.  Holds for both the
   Routes fallback (Status::unimplemented("").into_http(), whose unwrap therefore cannot fire)
   and the default arm of every generated `call`. *)
Theorem c10_unimplemented_well_formed : forall r path, runs_handler (serve r path) = false ->
  exists rp, reply_of (serve r path) = Reply rp /\
    rp_status rp = 200 /\
    hm_get_all (rp_headers rp) hdr_content_type = [val_application_grpc] /\
    hm_get_all (rp_headers rp) hdr_grpc_status = [[49; 50]] /\
    hm_get_all (rp_headers rp) hdr_grpc_message = [] /\
    (hm_get_all (rp_headers rp) hdr_content_length = [] \/
     hm_get_all (rp_headers rp) hdr_content_length = [[48]]) /\
    rp_body rp = [] /\ rp_trailers rp = None /\
    exists st, from_header_map (rp_headers rp) = Some st /\
               st_code st = Code_Unimplemented /\ st_msg st = [] /\ st_details st = [].
Proof. exact unimplemented_well_formed. Qed.

Theorem c10_route_total_reply : forall r path,
  (exists S M, serve r path = Handler S M) \/
  (runs_handler (serve r path) = false /\
   exists rp, reply_of (serve r path) = Reply rp /\ is_unimplemented_response rp).
Proof. exact route_total_reply. Qed.

Theorem c10_status_header_in_reply : forall o rp, reply_of o = Reply rp ->
  exists c, status_header o = Some c /\ hm_get_all (rp_headers rp) hdr_grpc_status = [hv_of_i32 c].
Proof. exact status_header_in_reply. Qed.

(* any other path - whatever it looks like - is UNIMPLEMENTED and runs no handler *)
Theorem c10_unimplemented_unless_exact : forall l r path, build l = Some r -> names_ok l ->
  (forall s M, In s l -> In M (svc_methods s) -> M <> [] -> path <> method_path (svc_name s) M) ->
  runs_handler (serve r path) = false /\ status_header (serve r path) = Some Code_Unimplemented.
Proof. exact unimplemented_unless_exact. Qed.

(* a name that merely extends a registered name ("/pkg.SvcX/.." vs. registered "pkg.Svc") is
   never handed to that service - neither to a handler nor to its default arm *)
Theorem c10_prefix_sharing_not_captured : forall l r s c x rest,
  build l = Some r -> names_ok l -> In s l -> c <> slash ->
  let path := slash :: (svc_name s ++ c :: x) ++ slash :: rest in
  (forall M, serve r path <> Handler (svc_name s) M) /\ serve r path <> UnimplService (svc_name s).
Proof. exact prefix_sharing_not_captured. Qed.

(* extra segments, empty segments, doubled / trailing / missing slashes *)
Theorem c10_wrong_segment_count : forall l r path,
  build l = Some r -> names_ok l -> methods_ok l ->
  count_occ N.eq_dec path slash <> 2%nat ->
  runs_handler (serve r path) = false /\ status_header (serve r path) = Some Code_Unimplemented.
Proof. exact wrong_segment_count_unimplemented. Qed.

(* a byte that is in no registered name or method - the '%' of an escape, the same letter in
   the other case, ';' ... - anywhere in the path *)
Theorem c10_foreign_byte : forall l r path b, build l = Some r -> names_ok l ->
  b <> slash -> In b path ->
  (forall s, In s l -> ~ In b (svc_name s) /\ forall M, In M (svc_methods s) -> ~ In b M) ->
  runs_handler (serve r path) = false /\ status_header (serve r path) = Some Code_Unimplemented.
Proof. exact foreign_byte_unimplemented. Qed.

(* which UNIMPLEMENTED: the service's default arm iff the first segment is its name *)
Theorem c10_service_reached_iff : forall l r path S, build l = Some r -> names_ok l ->
  (serve r path = UnimplService S <->
   exists s rest, In s l /\ svc_name s = S /\ rest <> [] /\ path = method_path S rest /\
                  ~ In rest (svc_methods s)).
Proof. exact service_reached_iff. Qed.

Theorem c10_fallback_iff : forall l r path, build l = Some r -> names_ok l ->
  (serve r path = UnimplFallback <->
   forall s rest, In s l -> rest <> [] -> path <> method_path (svc_name s) rest).
Proof. exact fallback_iff. Qed.

(* registration order: any permutation registers as well and answers every request alike *)
Theorem c10_route_order_independent : forall l l' r,
  Permutation l l' -> build l = Some r -> names_ok l ->
  exists r', build l' = Some r' /\ forall path, serve r' path = serve r path.
Proof. exact route_order_independent. Qed.

(* [names_ok] is needed here too: for a NAME with '{' '}' or '/' axum / matchit decide (a lone
   '{' is an invalid route and panics, "{x}" and "{y}" conflict ..) and the model does not
   follow them; the evaluated observables answer [obs_outside] there (c10_guard_is_names_ok) *)
Theorem c10_build_order_independent : forall l l', names_ok l ->
  Permutation l l' -> (build l = None <-> build l' = None).
Proof. exact (fun l l' _ => build_order_independent l l'). Qed.

(* registration succeeds exactly for distinct names none of which starts with ':' or '*' *)
Theorem c10_build_spec : forall l r, names_ok l -> (build l = Some r <-> r = l /\ registrable l).
Proof. exact (fun l r _ => build_spec l r). Qed.

(* registration orders given as index lists (how the harness samples orders of 5..8 services):
   any arrangement of 0..n-1 registers as well and answers alike *)
Theorem c10_sampled_orders_agree : forall l r ix path, build l = Some r -> names_ok l ->
  Permutation (map N.of_nat (seq 0 (List.length l))) ix ->
  exists r', build (pick l ix) = Some r' /\ serve r' path = serve r path.
Proof. exact sampled_orders_agree. Qed.

(* the orders the harness enumerates are permutations *)
Theorem c10_perms_sound : forall (l p : list service), In p (perms l) -> Permutation l p.
Proof. exact perms_sound. Qed.

(* ==== generated servers and clients as functions of the tonic-build descriptor ==== *)
(* Reading guide.  [reg] = [RStub s] (the harness' transcription of a generated `call`) or
   [RGen g emit] (a server generated by tonic-build from descriptor [g] with
   CodeGenBuilder::emit_package(emit)); [ts_name g] / [tm_name m] are Service::name() /
   Method::name() (the Rust items), [ts_ident] / [tm_ident] the proto identifiers;
   [mount x]: NamedService::NAME and the literal arms of `call`; [mbuild] / [mserve]: registration
   and one request on mounted services - the functions every harness case evaluates (obs_gserve,
   obs_gorders, obs_gorders_at, obs_gbuild, obs_gclient); [regs_ok regs]: every NAME is free of
   '/', '{', '}'; [reg_name (RGen g e)] = [tb_service_name g e], [reg_methods (RGen g e)] =
   the method identifiers. *)

(* what is evaluated IS build / serve of the theorems above *)
Theorem c10_mounted_bridge : forall regs r, mbuild (map mount regs) = Some r ->
  build (map service_of regs) = Some (map service_of regs) /\
  r = map mount regs /\
  forall path, mserve r path = serve (map service_of regs) path.
Proof. exact mounted_bridge. Qed.

(* .. and the guard of the evaluated observables is the hypothesis [names_ok] *)
Theorem c10_guard_is_names_ok : forall regs,
  regs_in_model regs = true <-> names_ok (map service_of regs).
Proof. exact regs_in_model_iff. Qed.

(* THE property for generated code, for ALL descriptors (every Rust name / identifier / package /
   emit_package combination): a handler runs iff the path is exactly
   "/" ++ [package "."] identifier ++ "/" ++ method identifier *)
Theorem c10_generated_route_iff : forall regs r path S M,
  mbuild (map mount regs) = Some r -> regs_ok regs ->
  (mserve r path = Handler S M <->
   (exists x, In x regs /\ reg_name x = S /\ In M (reg_methods x)) /\ M <> [] /\
   path = method_path S M).
Proof. exact g_route_iff. Qed.

(* NAME is: the identifier; preceded by package and '.' iff the package is emitted and non-empty *)
Theorem c10_generated_name_spec : forall g,
  tb_service_name g false = ts_ident g /\
  (ts_package g = [] -> tb_service_name g true = ts_ident g) /\
  (ts_package g <> [] -> tb_service_name g true = (ts_package g ++ r_dot :: ts_ident g)%list).
Proof. exact tb_service_name_spec. Qed.

(* the Rust names never matter *)
Theorem c10_generated_rust_names_irrelevant : forall g1 g2 e,
  ts_package g1 = ts_package g2 -> ts_ident g1 = ts_ident g2 ->
  map tm_ident (ts_methods g1) = map tm_ident (ts_methods g2) ->
  mount (RGen g1 e) = mount (RGen g2 e).
Proof. exact g_rust_names_irrelevant. Qed.

(* the generated client of a registered generated server reaches exactly its method *)
Theorem c10_generated_client_reaches_its_server : forall regs r g e m,
  mbuild (map mount regs) = Some r -> regs_ok regs ->
  In (RGen g e) regs -> In m (ts_methods g) -> tm_ident m <> [] ->
  mserve r (tb_client_path g m e) = Handler (tb_service_name g e) (tm_ident m).
Proof. exact g_client_reaches_its_server. Qed.

Theorem c10_generated_unimplemented_unless_exact : forall regs r path,
  mbuild (map mount regs) = Some r -> regs_ok regs ->
  (forall x M, In x regs -> In M (reg_methods x) -> M <> [] -> path <> method_path (reg_name x) M) ->
  runs_handler (mserve r path) = false /\ status_header (mserve r path) = Some Code_Unimplemented.
Proof. exact g_unimplemented_unless_exact. Qed.

(* a first segment that is not a registered NAME (e.g. package "." Service::name() when that is
   not the identifier, the identifier without / with its package) never passes the router .. *)
Theorem c10_unregistered_name_falls_back : forall regs r S' rest,
  mbuild (map mount regs) = Some r -> regs_ok regs -> slash_free S' ->
  (forall x, In x regs -> reg_name x <> S') ->
  mserve r (method_path S' rest) = UnimplFallback.
Proof. exact g_unregistered_name_falls_back. Qed.

(* .. and a method segment that is no identifier of the service (e.g. Method::name()) gets that
   service's default arm *)
Theorem c10_unknown_method_default_arm : forall regs r x rest,
  mbuild (map mount regs) = Some r -> regs_ok regs -> In x regs -> rest <> [] ->
  ~ In rest (reg_methods x) ->
  mserve r (method_path (reg_name x) rest) = UnimplService (reg_name x).
Proof. exact g_unknown_method_default_arm. Qed.

Theorem c10_generated_order_independent : forall regs regs' r, Permutation regs regs' ->
  mbuild (map mount regs) = Some r -> regs_ok regs ->
  exists r', mbuild (map mount regs') = Some r' /\ forall path, mserve r' path = mserve r path.
Proof. exact g_order_independent. Qed.

Theorem c10_generated_build_spec : forall regs r,
  mbuild (map mount regs) = Some r <-> r = map mount regs /\ registrable (map service_of regs).
Proof. exact g_build_spec. Qed.

(* ==== tonic::transport::Server / Router: add_optional_service ==== *)
(* what kind transport evaluates is obs_gserve on [transport_regs]: an absent optional service is
   as if never mentioned, a present one as if added by add_service, anywhere in the chain *)
Theorem c10_transport_optional_absent : forall l1 x l2,
  transport_regs (l1 ++ (x, Some false) :: l2) = transport_regs (l1 ++ l2).
Proof. exact transport_optional_absent. Qed.

Theorem c10_transport_optional_present : forall l1 x l2,
  transport_regs (l1 ++ (x, Some true) :: l2) = transport_regs (l1 ++ (x, None) :: l2).
Proof. exact transport_optional_present. Qed.

Theorem c10_transport_all_plain : forall l, transport_regs (map (fun x => (x, None)) l) = l.
Proof. exact transport_all_plain. Qed.

(* ==== request method ==== *)
(* routing never looks at the method ([mserve] takes the path only: route_service, `any`
   fallback, `match req.uri().path()`); what the method changes is axum's RouteFuture: for EVERY
   method the UNIMPLEMENTED answer stays well-formed *)
Theorem c10_unimplemented_well_formed_any_method : forall meth r path,
  runs_handler (mserve r path) = false ->
  exists rp, reply_of_b BaseTonic meth path (mserve r path) = Reply rp /\ is_unimplemented_response rp.
Proof. exact unimplemented_well_formed_any_method. Qed.

Theorem c10_post_is_the_old_reply : forall path o, reply_of_b BaseTonic m_POST path o = reply_of o.
Proof. exact reply_of_b_post. Qed.

(* ==== Routes::from(axum::Router::new()) - an OBSERVATION, see checks/C10.json ==== *)
(* Registered services behave as on Routes::default() (same [mserve]); a path that matches no
   route is answered by the fallback of the router the caller supplied: HTTP 404 without
   grpc-status for axum's default.  "UNIMPLEMENTED for an unknown service" is therefore a theorem
   about Routes::default()-rooted routes only. *)
Theorem c10_from_axum_router_replies : forall meth path o rp,
  reply_of_b BaseAxumUser meth path o = Reply rp ->
  match o with
  | Handler _ _ => False
  | UnimplService _ => is_unimplemented_response rp
  | UnimplFallback => rp_status rp = 404 /\ hm_get_all (rp_headers rp) hdr_grpc_status = [] /\
                      rp_body rp = [] /\ rp_trailers rp = None
  end.
Proof. exact from_axum_router_replies. Qed.

(* ---- non-vacuity and worked examples ---- *)
Definition b (s : string) : list N := bytes_of_string s.
(* names that are prefixes of one another, with and without package *)
Definition ex_reg : list service :=
  [ mkSvc (b "pkg.Svc") [b "Get"; b "List"];
    mkSvc (b "pkg.SvcX") [b "Get"; b "GetX"];
    mkSvc (b "Svc") [b "Get"; b "get"];
    mkSvc (b "pkg.Svc.Inner") [b "Get"] ].

Example c10_premises_hold :
  build ex_reg = Some ex_reg /\ names_ok ex_reg /\ methods_ok ex_reg.
Proof.
  split; [reflexivity|]. split.
  - repeat constructor.
  - unfold methods_ok, slash_free.
    repeat (constructor; [repeat (constructor; [split; [discriminate | vm_compute; intuition discriminate]|]); constructor|]).
    constructor.
Qed.

Example c10_examples :
  serve ex_reg (b "/pkg.Svc/Get") = Handler (b "pkg.Svc") (b "Get") /\
  serve ex_reg (b "/pkg.SvcX/Get") = Handler (b "pkg.SvcX") (b "Get") /\
  serve ex_reg (b "/pkg.SvcX/GetX") = Handler (b "pkg.SvcX") (b "GetX") /\
  serve ex_reg (b "/Svc/get") = Handler (b "Svc") (b "get") /\
  serve ex_reg (b "/pkg.Svc.Inner/Get") = Handler (b "pkg.Svc.Inner") (b "Get") /\
  (* unknown service, unknown method *)
  serve ex_reg (b "/pkg.Other/Get") = UnimplFallback /\
  serve ex_reg (b "/pkg.Svc/Nope") = UnimplService (b "pkg.Svc") /\
  (* shares a prefix with a registered name / method *)
  serve ex_reg (b "/pkg.Sv/Get") = UnimplFallback /\
  serve ex_reg (b "/pkg.SvcXY/Get") = UnimplFallback /\
  serve ex_reg (b "/pkg/Svc/Get") = UnimplFallback /\
  serve ex_reg (b "/pkg.Svc/Ge") = UnimplService (b "pkg.Svc") /\
  serve ex_reg (b "/pkg.Svc/GetX") = UnimplService (b "pkg.Svc") /\
  (* extra and empty segments, trailing and double slashes *)
  serve ex_reg (b "/pkg.Svc/Get/x") = UnimplService (b "pkg.Svc") /\
  serve ex_reg (b "/pkg.Svc/Get/") = UnimplService (b "pkg.Svc") /\
  serve ex_reg (b "/pkg.Svc//Get") = UnimplService (b "pkg.Svc") /\
  serve ex_reg (b "//pkg.Svc/Get") = UnimplFallback /\
  serve ex_reg (b "/pkg.Svc/") = UnimplFallback /\
  serve ex_reg (b "/pkg.Svc") = UnimplFallback /\
  serve ex_reg (b "/") = UnimplFallback /\
  serve ex_reg [] = UnimplFallback /\
  serve ex_reg (b "pkg.Svc/Get") = UnimplFallback /\
  (* letter case *)
  serve ex_reg (b "/pkg.svc/Get") = UnimplFallback /\
  serve ex_reg (b "/pkg.Svc/GET") = UnimplService (b "pkg.Svc") /\
  serve ex_reg (b "/Svc/Get") = Handler (b "Svc") (b "Get") /\
  (* percent escapes are not decoded *)
  serve ex_reg (b "/pkg.Svc%2FGet") = UnimplFallback /\
  serve ex_reg (b "/pkg.Svc/%47et") = UnimplService (b "pkg.Svc") /\
  serve ex_reg (b "/pkg%2ESvc/Get") = UnimplFallback.
Proof. vm_compute. repeat split. Qed.

(* the side conditions are necessary *)
(* (a) names containing '/': the first-match model is then order dependent, i.e. the model says
       nothing about matchit's priorities there - such names are outside the theorem *)
Example c10_slash_in_name_is_outside :
  let a := mkSvc (b "a") [b "b/c"] in
  let ab := mkSvc (b "a/b") [b "c"] in
  serve [a; ab] (b "/a/b/c") = Handler (b "a") (b "b/c") /\
  serve [ab; a] (b "/a/b/c") = Handler (b "a/b") (b "c").
Proof. vm_compute. split; reflexivity. Qed.
(* (b) an empty method identifier is unreachable: "/S/" has an empty {*rest} *)
Example c10_empty_method_unreachable :
  serve [mkSvc (b "S") [[]]] (b "/S/") = UnimplFallback.
Proof. reflexivity. Qed.
(* (c) duplicate names and names starting with ':' or '*' make add_service panic *)
Example c10_build_panics :
  build [mkSvc (b "S") []; mkSvc (b "S") [b "M"]] = None /\
  build [mkSvc (b "*S") []] = None /\ build [mkSvc (b ":S") []] = None /\
  build [mkSvc (b "S*") []; mkSvc (b "S:") []; mkSvc [] []] <> None.
Proof. vm_compute. repeat split; discriminate. Qed.
(* 4 services are enumerated in 24 orders *)
Example c10_perms_count : List.length (perms ex_reg) = 24%nat.
Proof. reflexivity. Qed.

(* ---- generated servers whose Rust name is not their identifier (the harness' ID_FIXTURE) ---- *)
Definition ex_http_echo : tb_service :=
  mkTS (b "HttpEcho") (b "pkg") (b "HTTPEcho")
       [mkTM (b "ping") (b "Ping"); mkTM (b "get_url") (b "GetURL"); mkTM (b "stream_v2") (b "Stream_V2")].
Definition ex_greeter : tb_service :=
  mkTS (b "Greeter") [] (b "greeter") [mkTM (b "say_hello") (b "SayHello")].
Definition ex_hidden : tb_service :=
  mkTS (b "HttpEcho") (b "hidden.pkg") (b "HTTPEcho") [mkTM (b "ping") (b "Ping")].
Definition ex_canonical : tb_service :=
  mkTS (b "HttpEcho") (b "pkg") (b "HttpEcho") [mkTM (b "ping") (b "Ping"); mkTM (b "only_here") (b "OnlyHere")].
Definition ex_gregs : list reg :=
  [RGen ex_http_echo true; RGen ex_greeter true; RGen ex_hidden false; RGen ex_canonical true;
   RStub (mkSvc (b "pkg.Svc") [b "Get"])].

Example c10_generated_premises_hold :
  mbuild (map mount ex_gregs) = Some (map mount ex_gregs) /\ regs_in_model ex_gregs = true.
Proof. split; reflexivity. Qed.

Example c10_generated_examples :
  let r := map mount ex_gregs in
  map reg_name ex_gregs = [b "pkg.HTTPEcho"; b "greeter"; b "HTTPEcho"; b "pkg.HttpEcho"; b "pkg.Svc"] /\
  (* exactly /<pkg>.<identifier>/<method identifier> *)
  mserve r (b "/pkg.HTTPEcho/Ping") = Handler (b "pkg.HTTPEcho") (b "Ping") /\
  mserve r (b "/pkg.HTTPEcho/GetURL") = Handler (b "pkg.HTTPEcho") (b "GetURL") /\
  mserve r (b "/pkg.HTTPEcho/Stream_V2") = Handler (b "pkg.HTTPEcho") (b "Stream_V2") /\
  mserve r (b "/greeter/SayHello") = Handler (b "greeter") (b "SayHello") /\
  mserve r (b "/HTTPEcho/Ping") = Handler (b "HTTPEcho") (b "Ping") /\
  (* the Rust spelling of one service is the identifier of ANOTHER one: it reaches that one only *)
  mserve r (b "/pkg.HttpEcho/Ping") = Handler (b "pkg.HttpEcho") (b "Ping") /\
  mserve r (b "/pkg.HttpEcho/OnlyHere") = Handler (b "pkg.HttpEcho") (b "OnlyHere") /\
  mserve r (b "/pkg.HttpEcho/GetURL") = UnimplService (b "pkg.HttpEcho") /\
  mserve r (b "/pkg.HTTPEcho/OnlyHere") = UnimplService (b "pkg.HTTPEcho") /\
  (* Rust spellings: type name, fn name, module name; package of an emit_package(false) server *)
  mserve r (b "/Greeter/SayHello") = UnimplFallback /\
  mserve r (b "/HttpEcho/Ping") = UnimplFallback /\
  mserve r (b "/hidden.pkg.HTTPEcho/Ping") = UnimplFallback /\
  mserve r (b "/pkg.http_echo/Ping") = UnimplFallback /\
  mserve r (b "/pkg.HTTPEcho/ping") = UnimplService (b "pkg.HTTPEcho") /\
  mserve r (b "/pkg.HTTPEcho/get_url") = UnimplService (b "pkg.HTTPEcho") /\
  mserve r (b "/pkg.HTTPEcho/GetUrl") = UnimplService (b "pkg.HTTPEcho") /\
  mserve r (b "/pkg.HTTPEcho/StreamV2") = UnimplService (b "pkg.HTTPEcho") /\
  mserve r (b "/greeter/say_hello") = UnimplService (b "greeter") /\
  (* the generated client's path *)
  tb_client_path ex_http_echo (mkTM (b "get_url") (b "GetURL")) true = b "/pkg.HTTPEcho/GetURL" /\
  tb_client_path ex_hidden (mkTM (b "ping") (b "Ping")) false = b "/HTTPEcho/Ping".
Proof. vm_compute. repeat split. Qed.

(* why the distinction matters: were NAME derived from Service::name() (seeded change r4-C10),
   the exact path would be lost - the server would sit under "pkg.HttpEcho" with arms
   "/pkg.HTTPEcho/..": no path at all reaches the handler *)
Example c10_name_derived_from_rust_name_breaks :
  let wrong := mkMounted (b "pkg.HttpEcho") (mt_arms (tb_generate_server ex_http_echo true)) in
  mserve [wrong] (b "/pkg.HTTPEcho/Ping") = UnimplFallback /\
  mserve [wrong] (b "/pkg.HttpEcho/Ping") = UnimplService (b "pkg.HttpEcho").
Proof. vm_compute. split; reflexivity. Qed.

(* outside the model: the observable says so instead of predicting *)
Example c10_outside_is_declared :
  obs_gbuild [RStub (mkSvc (b "{") [])] = obs_outside /\
  obs_gbuild [RStub (mkSvc (b "{x}") []); RStub (mkSvc (b "{y}") [])] = obs_outside /\
  obs_gserve BaseTonic [RStub (mkSvc (b "a/:b") [b "M"])] (mkRequest m_POST (b "/a/:b/M")) = obs_outside.
Proof. vm_compute. repeat split. Qed.

(* request methods *)
Example c10_methods :
  let fb := fun meth => reply_obs (reply_of_b BaseTonic (b meth) (b "/x") UnimplFallback) in
  fb "POST" = fb "GET" /\ fb "POST" = fb "FOO" /\ fb "HEAD" = fb "POST" /\ fb "CONNECT" <> fb "POST" /\
  reply_obs (reply_of_b BaseTonic (b "CONNECT") (b "/x") (UnimplService [])) = reply_obs (reply_of (UnimplService [])).
Proof. vm_compute. repeat split. discriminate. Qed.

Print Assumptions c10_route_iff.
Print Assumptions c10_generated_route_iff.
Print Assumptions c10_generated_client_reaches_its_server.
Print Assumptions c10_unimplemented_well_formed_any_method.
Print Assumptions c10_from_axum_router_replies.
Print Assumptions c10_unimplemented_well_formed.
Print Assumptions c10_unimplemented_unless_exact.
Print Assumptions c10_route_order_independent.
Print Assumptions c10_wrong_segment_count.
