(* C10 - requests reach exactly the method named by the path, else UNIMPLEMENTED; the order in
   which services were registered does not matter.
   Statements only: each theorem is closed by [exact] of a lemma proved in Proofs/Router.v.

   Reading guide.  [build l = Some r]: registering the services [l] in this order on
   Routes::default() did not panic (distinct names, no name starting with ':' or '*');
   [names_ok l]: no registered name contains '/', '{' or '}' (the pattern "/NAME/{*rest}" then
   means what the model says); [serve r path]: what happens to a request with this raw path:
   [Handler S M] | [UnimplService S] (default arm of S's generated `call`) | [UnimplFallback];
   [method_path S M] = "/" ++ S ++ "/" ++ M. *)
From Verif Require Import Lib.Bytes Lib.Obs Lib.HeaderMap.
From Verif Require Import Gen.StatusTables Model.Status Model.Router Proofs.Router.
From Coq Require Import Permutation String.
Open Scope N_scope.

(* dispatched to method M of service S iff the path is exactly /S/M (all paths, all sets of
   services; no bound) *)
Theorem c10_route_iff : forall l r path S M, build l = Some r -> names_ok l ->
  (serve r path = Handler S M <->
   (exists s, In s l /\ svc_name s = S /\ In M (svc_methods s)) /\ M <> [] /\
   path = method_path S M).
Proof. exact route_iff. Qed.

Theorem c10_route_iff_methods_ok : forall l r path S M,
  build l = Some r -> names_ok l -> methods_ok l ->
  (serve r path = Handler S M <->
   (exists s, In s l /\ svc_name s = S /\ In M (svc_methods s)) /\ path = method_path S M).
Proof. exact route_iff_methods_ok. Qed.

(* every request is answered: a handler, or grpc-status 12 and no handler *)
Theorem c10_route_total : forall r path,
  (exists S M, serve r path = Handler S M) \/
  (runs_handler (serve r path) = false /\ status_header (serve r path) = Some Code_Unimplemented).
Proof. exact route_total. Qed.

(* .. and that answer is a well-formed gRPC response (also C03): HTTP 200, content-type
   application/grpc, exactly one grpc-status "12", no grpc-message, content-length absent or 0 (axum
   writes it for the fallback's empty body), no body, no trailers; a
   client reading the headers (Status::from_header_map) sees UNIMPLEMENTED.  Holds for both the
   Routes fallback (Status::unimplemented("").into_http(), whose unwrap therefore cannot fire)
   and the default arm of every generated `call`. *)
Theorem c10_unimplemented_well_formed : forall r path, runs_handler (serve r path) = false ->
  exists rp, reply_of (serve r path) = Reply rp /\
    rp_status rp = 200 /\
    hm_get_all (rp_headers rp) hdr_content_type = [val_application_grpc] /\
    hm_get_all (rp_headers rp) hdr_grpc_status = [[49; 50]] /\
    hm_get_all (rp_headers rp) hdr_grpc_message = [] /\
    (hm_get_all (rp_headers rp) hdr_content_length = [] \/
     hm_get_all (rp_headers rp) hdr_content_length = [[48]]) /\
    rp_body rp = [] /\ rp_trailers rp = None /\
    exists st, from_header_map (rp_headers rp) = Some st /\
               st_code st = Code_Unimplemented /\ st_msg st = [] /\ st_details st = [].
Proof. exact unimplemented_well_formed. Qed.

Theorem c10_route_total_reply : forall r path,
  (exists S M, serve r path = Handler S M) \/
  (runs_handler (serve r path) = false /\
   exists rp, reply_of (serve r path) = Reply rp /\ is_unimplemented_response rp).
Proof. exact route_total_reply. Qed.

Theorem c10_status_header_in_reply : forall o rp, reply_of o = Reply rp ->
  exists c, status_header o = Some c /\ hm_get_all (rp_headers rp) hdr_grpc_status = [hv_of_i32 c].
Proof. exact status_header_in_reply. Qed.

(* any other path - whatever it looks like - is UNIMPLEMENTED and runs no handler *)
Theorem c10_unimplemented_unless_exact : forall l r path, build l = Some r -> names_ok l ->
  (forall s M, In s l -> In M (svc_methods s) -> M <> [] -> path <> method_path (svc_name s) M) ->
  runs_handler (serve r path) = false /\ status_header (serve r path) = Some Code_Unimplemented.
Proof. exact unimplemented_unless_exact. Qed.

(* a name that merely extends a registered name ("/pkg.SvcX/.." vs. registered "pkg.Svc") is
   never handed to that service - neither to a handler nor to its default arm *)
Theorem c10_prefix_sharing_not_captured : forall l r s c x rest,
  build l = Some r -> names_ok l -> In s l -> c <> slash ->
  let path := slash :: (svc_name s ++ c :: x) ++ slash :: rest in
  (forall M, serve r path <> Handler (svc_name s) M) /\ serve r path <> UnimplService (svc_name s).
Proof. exact prefix_sharing_not_captured. Qed.

(* extra segments, empty segments, doubled / trailing / missing slashes *)
Theorem c10_wrong_segment_count : forall l r path,
  build l = Some r -> names_ok l -> methods_ok l ->
  count_occ N.eq_dec path slash <> 2%nat ->
  runs_handler (serve r path) = false /\ status_header (serve r path) = Some Code_Unimplemented.
Proof. exact wrong_segment_count_unimplemented. Qed.

(* a byte that is in no registered name or method - the '%' of an escape, the same letter in
   the other case, ';' ... - anywhere in the path *)
Theorem c10_foreign_byte : forall l r path b, build l = Some r -> names_ok l ->
  b <> slash -> In b path ->
  (forall s, In s l -> ~ In b (svc_name s) /\ forall M, In M (svc_methods s) -> ~ In b M) ->
  runs_handler (serve r path) = false /\ status_header (serve r path) = Some Code_Unimplemented.
Proof. exact foreign_byte_unimplemented. Qed.

(* which UNIMPLEMENTED: the service's default arm iff the first segment is its name *)
Theorem c10_service_reached_iff : forall l r path S, build l = Some r -> names_ok l ->
  (serve r path = UnimplService S <->
   exists s rest, In s l /\ svc_name s = S /\ rest <> [] /\ path = method_path S rest /\
                  ~ In rest (svc_methods s)).
Proof. exact service_reached_iff. Qed.

Theorem c10_fallback_iff : forall l r path, build l = Some r -> names_ok l ->
  (serve r path = UnimplFallback <->
   forall s rest, In s l -> rest <> [] -> path <> method_path (svc_name s) rest).
Proof. exact fallback_iff. Qed.

(* registration order: any permutation registers as well and answers every request alike *)
Theorem c10_route_order_independent : forall l l' r,
  Permutation l l' -> build l = Some r -> names_ok l ->
  exists r', build l' = Some r' /\ forall path, serve r' path = serve r path.
Proof. exact route_order_independent. Qed.

Theorem c10_build_order_independent : forall l l',
  Permutation l l' -> (build l = None <-> build l' = None).
Proof. exact build_order_independent. Qed.

(* registration succeeds exactly for distinct names none of which starts with ':' or '*' *)
Theorem c10_build_spec : forall l r, build l = Some r <-> r = l /\ registrable l.
Proof. exact build_spec. Qed.

(* registration orders given as index lists (how the harness samples orders of 5..8 services):
   any arrangement of 0..n-1 registers as well and answers alike *)
Theorem c10_sampled_orders_agree : forall l r ix path, build l = Some r -> names_ok l ->
  Permutation (map N.of_nat (seq 0 (List.length l))) ix ->
  exists r', build (pick l ix) = Some r' /\ serve r' path = serve r path.
Proof. exact sampled_orders_agree. Qed.

(* the orders the harness enumerates are permutations *)
Theorem c10_perms_sound : forall (l p : list service), In p (perms l) -> Permutation l p.
Proof. exact perms_sound. Qed.

(* ---- non-vacuity and worked examples ---- *)
Definition b (s : string) : list N := bytes_of_string s.
(* names that are prefixes of one another, with and without package *)
Definition ex_reg : list service :=
  [ mkSvc (b "pkg.Svc") [b "Get"; b "List"];
    mkSvc (b "pkg.SvcX") [b "Get"; b "GetX"];
    mkSvc (b "Svc") [b "Get"; b "get"];
    mkSvc (b "pkg.Svc.Inner") [b "Get"] ].

Example c10_premises_hold :
  build ex_reg = Some ex_reg /\ names_ok ex_reg /\ methods_ok ex_reg.
Proof.
  split; [reflexivity|]. split.
  - repeat constructor.
  - unfold methods_ok, slash_free.
    repeat (constructor; [repeat (constructor; [split; [discriminate | vm_compute; intuition discriminate]|]); constructor|]).
    constructor.
Qed.

Example c10_examples :
  serve ex_reg (b "/pkg.Svc/Get") = Handler (b "pkg.Svc") (b "Get") /\
  serve ex_reg (b "/pkg.SvcX/Get") = Handler (b "pkg.SvcX") (b "Get") /\
  serve ex_reg (b "/pkg.SvcX/GetX") = Handler (b "pkg.SvcX") (b "GetX") /\
  serve ex_reg (b "/Svc/get") = Handler (b "Svc") (b "get") /\
  serve ex_reg (b "/pkg.Svc.Inner/Get") = Handler (b "pkg.Svc.Inner") (b "Get") /\
  (* unknown service, unknown method *)
  serve ex_reg (b "/pkg.Other/Get") = UnimplFallback /\
  serve ex_reg (b "/pkg.Svc/Nope") = UnimplService (b "pkg.Svc") /\
  (* shares a prefix with a registered name / method *)
  serve ex_reg (b "/pkg.Sv/Get") = UnimplFallback /\
  serve ex_reg (b "/pkg.SvcXY/Get") = UnimplFallback /\
  serve ex_reg (b "/pkg/Svc/Get") = UnimplFallback /\
  serve ex_reg (b "/pkg.Svc/Ge") = UnimplService (b "pkg.Svc") /\
  serve ex_reg (b "/pkg.Svc/GetX") = UnimplService (b "pkg.Svc") /\
  (* extra and empty segments, trailing and double slashes *)
  serve ex_reg (b "/pkg.Svc/Get/x") = UnimplService (b "pkg.Svc") /\
  serve ex_reg (b "/pkg.Svc/Get/") = UnimplService (b "pkg.Svc") /\
  serve ex_reg (b "/pkg.Svc//Get") = UnimplService (b "pkg.Svc") /\
  serve ex_reg (b "//pkg.Svc/Get") = UnimplFallback /\
  serve ex_reg (b "/pkg.Svc/") = UnimplFallback /\
  serve ex_reg (b "/pkg.Svc") = UnimplFallback /\
  serve ex_reg (b "/") = UnimplFallback /\
  serve ex_reg [] = UnimplFallback /\
  serve ex_reg (b "pkg.Svc/Get") = UnimplFallback /\
  (* letter case *)
  serve ex_reg (b "/pkg.svc/Get") = UnimplFallback /\
  serve ex_reg (b "/pkg.Svc/GET") = UnimplService (b "pkg.Svc") /\
  serve ex_reg (b "/Svc/Get") = Handler (b "Svc") (b "Get") /\
  (* percent escapes are not decoded *)
  serve ex_reg (b "/pkg.Svc%2FGet") = UnimplFallback /\
  serve ex_reg (b "/pkg.Svc/%47et") = UnimplService (b "pkg.Svc") /\
  serve ex_reg (b "/pkg%2ESvc/Get") = UnimplFallback.
Proof. vm_compute. repeat split. Qed.

(* the side conditions are necessary *)
(* (a) names containing '/': the first-match model is then order dependent, i.e. the model says
       nothing about matchit's priorities there - such names are outside the theorem *)
Example c10_slash_in_name_is_outside :
  let a := mkSvc (b "a") [b "b/c"] in
  let ab := mkSvc (b "a/b") [b "c"] in
  serve [a; ab] (b "/a/b/c") = Handler (b "a") (b "b/c") /\
  serve [ab; a] (b "/a/b/c") = Handler (b "a/b") (b "c").
Proof. vm_compute. split; reflexivity. Qed.
(* (b) an empty method identifier is unreachable: "/S/" has an empty {*rest} *)
Example c10_empty_method_unreachable :
  serve [mkSvc (b "S") [[]]] (b "/S/") = UnimplFallback.
Proof. reflexivity. Qed.
(* (c) duplicate names and names starting with ':' or '*' make add_service panic *)
Example c10_build_panics :
  build [mkSvc (b "S") []; mkSvc (b "S") [b "M"]] = None /\
  build [mkSvc (b "*S") []] = None /\ build [mkSvc (b ":S") []] = None /\
  build [mkSvc (b "S*") []; mkSvc (b "S:") []; mkSvc [] []] <> None.
Proof. vm_compute. repeat split; discriminate. Qed.
(* 4 services are enumerated in 24 orders *)
Example c10_perms_count : List.length (perms ex_reg) = 24%nat.
Proof. reflexivity. Qed.

Print Assumptions c10_route_iff.
Print Assumptions c10_unimplemented_well_formed.
Print Assumptions c10_unimplemented_unless_exact.
Print Assumptions c10_route_order_independent.
Print Assumptions c10_wrong_segment_count.
