(* C16 - the grpc-web server layer translates requests and responses losslessly.
   Statements only: each theorem is closed by [exact] of a lemma of Proofs/WebServer.v.

   Vocabulary (Model/WebServer.v, Proofs/WebServer.v):
     ev                    one scripted poll result of a body: EvPending | EvData chunk |
                           EvTrailers map | EvErr; afterwards End for ever
     datas evs             the data chunks of the script, in order
     drain_encode a evs    what the caller of the layer reads from the response body when the
                           inner service's body plays [evs] and Accept asked for [a]
                           (Base64 = grpc-web-text, NoEnc = binary): the non-Pending items up to
                           the end
     drain_request e evs   what the inner service reads from the request body it is given when
                           the grpc-web request body plays [evs] and the content-type says [e]
     trailers_frame t      0x80, be32 length, "name:value\r\n" for every entry of [t] in the
                           iteration order of the map
     out_bytes l           the concatenated bytes of the data items of [l]
     dec_quanta            an independent reader of grpc-web-text: decodes every 4-character
                           quantum on its own (padding may occur wherever the sender flushed)
     request_kind          the four cases of GrpcWebService::call *)
From Verif Require Import Lib.Bytes Lib.Obs Lib.BE32 Lib.Base64 Lib.HeaderMap.
From Verif Require Import Model.Frame Model.WebServer Proofs.WebServer.
From Verif Require Model.WebClient Proofs.WebClient.
Open Scope N_scope.

(* binary Accept: for ANY inner data chunks (ANY chunking of ANY message frames, Pending anywhere)
   followed by ANY trailers the caller receives the same chunks and then exactly ONE more data
   item, the trailers frame listing every (name, value) pair; the bytes are independent of the
   chunking *)
Theorem c16_web_resp_binary : forall evs t,
  only_data_or_pending evs = true -> nlen (encode_trailers t) <= U32_MAX ->
  drain_encode NoEnc (evs ++ [EvTrailers t]) =
    map SData (datas evs) ++ [SData (trailers_frame t); SNone] /\
  out_bytes (drain_encode NoEnc (evs ++ [EvTrailers t])) = concat (datas evs) ++ trailers_frame t.
Proof. exact resp_binary. Qed.

(* text Accept: every emitted item is the padded base64 of the corresponding binary item, and
   the independent per-quantum reader recovers exactly the bytes of binary mode *)
Theorem c16_web_resp_text : forall evs t,
  only_data_or_pending evs = true -> nlen (encode_trailers t) <= U32_MAX ->
  forallb bytes_ok (datas evs) = true -> bytes_ok (encode_trailers t) = true ->
  drain_encode Base64 (evs ++ [EvTrailers t]) =
    map (fun d => SData (enc true d)) (datas evs) ++ [SData (enc true (trailers_frame t)); SNone] /\
  dec_quanta (out_bytes (drain_encode Base64 (evs ++ [EvTrailers t]))) =
    Some (concat (datas evs) ++ trailers_frame t).
Proof. exact resp_text. Qed.

(* Body::is_end_stream / size_hint of the translated body are the inner body's (call.rs
   is_end_stream, size_hint).  A hyper-like consumer - it asks is_end_stream() before the first
   poll and after every data frame and stops polling when the answer is true - over an inner
   body that honours the http_body contract (true only after its trailers were yielded, as
   tonic's EncodeBody): every data item AND the trailers frame are taken before it stops *)
Theorem c16_web_resp_hyper : forall e evs t,
  only_data_or_pending evs = true -> nlen (encode_trailers t) <= U32_MAX ->
  hyper_encode 1 e (evs ++ [EvTrailers t]) =
  (map (fun d => SData (encode_bytes e d)) (datas evs) ++ [SData (encode_bytes e (trailers_frame t))], true).
Proof. exact resp_hyper. Qed.

(* is_end_stream in the Encode direction against the WHOLE state of the call (staging buffer
   [buf] and inner body): when it answers true NOTHING more is delivered.  poll_encode hands
   out everything in the poll that produced it; an encoder that staged output in [buf] (and kept
   `inner.is_end_stream()`) would refute this statement, and the sized eos.response_sized kinds
   of the harness (message sizes mined around every numeric threshold of call.rs, read by a
   hyper-like consumer) would produce the size at which the tail is lost *)
Theorem c16_web_encode_is_end_stream_contract : forall e buf evs,
  encode_is_end_stream 1 buf evs = true -> drain_encode_st e buf evs = [SNone].
Proof. exact encode_is_end_stream_contract. Qed.

Theorem c16_web_encode_stateless : forall e buf evs, drain_encode_st e buf evs = drain_encode e evs.
Proof. exact drain_encode_st_eq. Qed.

(* "decodes to the identical message bytes followed by exactly one trailers frame listing every
   trailer", judged by the grpc-web client decoder of C17 under ANY re-chunking of the emitted
   bytes by the transport *)
Theorem c16_web_resp_binary_decodes : forall frames tl sevs cevs,
  Verif.Proofs.WebClient.frames_ok frames ->
  Verif.Proofs.WebClient.trailers_ok tl = true ->
  Verif.Proofs.WebClient.no_leading_space tl = true ->
  nlen (encode_trailers tl) <= U32_MAX -> nlen tl <= Verif.Model.WebClient.HM_MAX_NAMES ->
  only_data_or_pending sevs = true -> concat (datas sevs) = Verif.Proofs.WebClient.fcat frames ->
  only_data_or_pending cevs = true ->
  concat (datas cevs) = out_bytes (drain_encode NoEnc (sevs ++ [EvTrailers tl])) ->
  exists ds,
    Verif.Model.WebClient.run cevs =
      map Verif.Model.WebClient.OData ds ++
      [Verif.Model.WebClient.OTrailers tl; Verif.Model.WebClient.ONone] /\
    concat ds = Verif.Proofs.WebClient.fcat frames.
Proof. exact resp_binary_decodes. Qed.

(* binary request bodies reach the inner service chunk by chunk, unchanged *)
Theorem c16_web_req_binary : forall evs, only_data_or_pending evs = true ->
  drain_request NoEnc evs = map SData (datas evs) ++ [SNone] /\
  out_bytes (drain_request NoEnc evs) = concat (datas evs).
Proof. exact req_binary. Qed.

(* text request bodies: the canonical padded base64 of ANY payload cut at ARBITRARY positions
   (inside a quantum included), Pending anywhere: the inner service receives exactly the
   payload and then the end - no error *)
Theorem c16_web_req_text : forall payload evs,
  bytes_ok payload = true -> only_data_or_pending evs = true ->
  concat (datas evs) = enc true payload ->
  exists ds, drain_request Base64 evs = map SData ds ++ [SNone] /\ concat ds = payload.
Proof. exact req_text. Qed.

(* the table of the four cases, for ALL methods, versions and header maps: the decision looks
   only at the method, the version and the FIRST content-type value *)
Theorem c16_web_kind_table : forall method version headers,
  let ct := hm_get headers H_CONTENT_TYPE in
  let ac := hm_get headers H_ACCEPT in
  (is_web_type ct -> method = M_POST ->
     request_kind method version headers = KTranslate (enc_of (is_text_type ct)) (enc_of (is_text_type ac))) /\
  (is_web_type ct -> method <> M_POST -> request_kind method version headers = K405) /\
  (~ is_web_type ct -> version = HTTP_2 -> request_kind method version headers = KPass) /\
  (~ is_web_type ct -> version <> HTTP_2 -> request_kind method version headers = K400).
Proof. exact kind_table. Qed.

(* the request the inner service sees has the gRPC content-type (te, accept-encoding set,
   content-length dropped, everything else untouched) *)
Theorem c16_web_req_headers : forall h k,
  hm_get_all (coerce_request_headers h) k =
    if bytes_eqb k H_CONTENT_TYPE then [GRPC_CONTENT_TYPE]
    else if bytes_eqb k H_TE then [V_TRAILERS]
    else if bytes_eqb k H_ACCEPT_ENCODING then [V_ACCEPT_ENCODING]
    else if bytes_eqb k H_CONTENT_LENGTH then []
    else hm_get_all h k.
Proof. exact coerce_request_spec. Qed.

(* the response carries the content-type of the encoding the Accept header asked for *)
Theorem c16_web_resp_headers : forall h a k,
  hm_get_all (coerce_response_headers h a) k =
    if bytes_eqb k H_CONTENT_TYPE then [to_content_type a] else hm_get_all h k.
Proof. exact coerce_response_spec. Qed.

(* the whole translated call *)
Theorem c16_web_translate_call : forall method version headers qevs rstatus rheaders revs,
  is_web_type (hm_get headers H_CONTENT_TYPE) -> method = M_POST ->
  obs_call method version headers qevs rstatus rheaders revs =
  let e := enc_of (is_text_type (hm_get headers H_CONTENT_TYPE)) in
  let a := enc_of (is_text_type (hm_get headers H_ACCEPT)) in
  Nd [Nn 1; enc_tr e; enc_tr a; hm_canon (coerce_request_headers headers);
      olist sout_tr (drain_request e qevs); Nn rstatus;
      hm_canon (coerce_response_headers rheaders a); olist sout_tr (drain_encode a revs)].
Proof. exact translate_call. Qed.

(* the only panic site: the assert in make_trailers_frame *)
Theorem c16_web_trailers_frame_panic : forall t,
  make_trailers_frame t = None <-> U32_MAX < nlen (encode_trailers t).
Proof. exact trailers_frame_panic_iff. Qed.

(* ---------- the hypotheses are satisfiable on non-trivial values ---------- *)
Definition ex_t : hm :=
  [ ([103;114;112;99;45;115;116;97;116;117;115], [53]);
    ([120;45;107], [97;58;98]); ([120;45;107], [99;32;100]) ].
(* frame(0,"hi") cut inside its header, Pending in between *)
Definition ex_revs : list ev := [EvData [0; 0; 0]; EvPending; EvData [0; 2; 104]; EvData [105]].

Example c16_resp_premises :
  only_data_or_pending ex_revs = true /\ nlen (encode_trailers ex_t) <= U32_MAX /\
  forallb bytes_ok (datas ex_revs) = true /\ bytes_ok (encode_trailers ex_t) = true.
Proof. repeat split; try reflexivity. vm_compute. discriminate. Qed.

Example c16_resp_text_example :
  dec_quanta (out_bytes (drain_encode Base64 (ex_revs ++ [EvTrailers ex_t]))) =
  Some (frame 0 [104; 105] ++ trailers_frame ex_t).
Proof. vm_compute. reflexivity. Qed.

(* "AAAAAAFB" = base64 of frame(0,"A"), cut inside both quanta *)
Example c16_req_text_example :
  drain_request Base64 [EvData [65; 65; 65]; EvPending; EvData [65; 65; 65; 70]; EvData [66]] =
  [SData [0; 0; 0]; SData [0; 1; 65]; SNone].
Proof. vm_compute. reflexivity. Qed.

(* NOTED, not claimed: a text request made of two independently padded segments ("QQ==" "QkM=")
   is accepted when a chunk boundary falls between the segments and rejected when both arrive
   together; the property speaks of one base64 body *)
Example c16_two_segments_chunking_dependent :
  drain_request Base64 [EvData [81; 81; 61; 61]; EvData [81; 107; 77; 61]] = [SData [65]; SData [66; 67]; SNone] /\
  drain_request Base64 [EvData [81; 81; 61; 61; 81; 107; 77; 61]] = [SErr SE_BASE64].
Proof. split; vm_compute; reflexivity. Qed.

Print Assumptions c16_web_resp_binary.
Print Assumptions c16_web_resp_text.
Print Assumptions c16_web_resp_binary_decodes.
Print Assumptions c16_web_resp_hyper.
Print Assumptions c16_web_req_binary.
Print Assumptions c16_web_req_text.
Print Assumptions c16_web_kind_table.
Print Assumptions c16_web_req_headers.
Print Assumptions c16_web_translate_call.

(* the constants written by hand in the model equal the ones regenerated from the Rust source
   (Gen/ConstTables.v, rewritten by rs2v on every run) *)
From Verif Require Gen.ConstTables Proofs.ConstTies Model.Encoder Model.Decoder Model.WebServer.
Import Gen.ConstTables.
Theorem c16_constants_tied :
  WebServer.WebConsts.GRPC_WEB = web_ct_grpc_web /\
  WebServer.WebConsts.GRPC_WEB_PROTO = web_ct_grpc_web_proto /\
  WebServer.WebConsts.GRPC_WEB_TEXT = web_ct_grpc_web_text /\
  WebServer.WebConsts.GRPC_WEB_TEXT_PROTO = web_ct_grpc_web_text_proto /\
  WebServer.WebConsts.GRPC_CONTENT_TYPE = grpc_content_type /\
  WebServer.GRPC_WEB_TRAILERS_BIT = web_trailers_bit /\
  Frame.HEADER_SIZE = web_frame_header_size /\
  Frame.HEADER_SIZE = web_grpc_header_size.
Proof. exact ConstTies.web_constants_tied. Qed.
Print Assumptions c16_constants_tied.
