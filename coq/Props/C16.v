(* C16 - the grpc-web server layer translates requests and responses losslessly.
   Statements only: each theorem is closed by [exact] of a lemma of Proofs/WebServer.v.

   Vocabulary (Model/WebServer.v, Proofs/WebServer.v):
     ev                    one scripted poll result of a body: EvPending | EvData chunk |
                           EvTrailers map | EvErr; afterwards End for ever
     datas evs             the data chunks of the script, in order
     drain_encode a evs    what the caller of the layer reads from the response body when the
                           inner service's body plays [evs] and Accept asked for [a]
                           (Base64 = grpc-web-text, NoEnc = binary): the non-Pending items up to
                           the end
     drain_request e evs   what the inner service reads from the request body it is given when
                           the grpc-web request body plays [evs] and the content-type says [e]
     trailers_frame t      0x80, be32 length, "name:value\r\n" for every entry of [t] in the
                           iteration order of the map
     out_bytes l           the concatenated bytes of the data items of [l]
     dec_quanta            an independent reader of grpc-web-text: decodes every 4-character
                           quantum on its own (padding may occur wherever the sender flushed)
     request_kind          the four cases of GrpcWebService::call
     wcall, wc_poll_frame, wc_is_end_stream, wc_size_hint
                           GrpcWebCall as an http_body::Body on the server side (direction,
                           encoding, undecoded base64 remainder)
     hyper_encode m a evs / hyper_request e m evs
                           the same bodies read the way hyper reads a body: is_end_stream() is
                           asked before the first poll and after every data frame, the consumer
                           stops when it is true; m = how the INNER body answers is_end_stream
                           (1 = only once all its frames were yielded: the http_body contract)
     hint_covers h n       the size hint h = (lower, upper) is true of n bytes
     passthrough evs       the frames of a script up to its end / first error, unchanged
     wc_polls n c evs      n polls of poll_frame from state c, EVERY result recorded
     settle l              l without its Pending results, cut after the first item that is
                           neither data nor trailers *)
From Verif Require Import Lib.Bytes Lib.Obs Lib.BE32 Lib.Base64 Lib.HeaderMap.
From Verif Require Import Model.Frame Model.WebServer Proofs.WebServer.
From Verif Require Model.WebClient Proofs.WebClient.
Open Scope N_scope.

(* binary Accept: for ANY inner data chunks (ANY chunking of ANY message frames, Pending anywhere)
   followed by ANY trailers the caller receives the same chunks and then exactly ONE more data
   item, the trailers frame listing every (name, value) pair; the bytes are independent of the
   chunking *)
Theorem c16_web_resp_binary : forall evs t,
  only_data_or_pending evs = true -> nlen (encode_trailers t) <= U32_MAX ->
  drain_encode NoEnc (evs ++ [EvTrailers t]) =
    map SData (datas evs) ++ [SData (trailers_frame t); SNone] /\
  out_bytes (drain_encode NoEnc (evs ++ [EvTrailers t])) = concat (datas evs) ++ trailers_frame t.
Proof. exact resp_binary. Qed.

(* text Accept: every emitted item is the padded base64 of the corresponding binary item, and
   the independent per-quantum reader recovers exactly the bytes of binary mode *)
Theorem c16_web_resp_text : forall evs t,
  only_data_or_pending evs = true -> nlen (encode_trailers t) <= U32_MAX ->
  forallb bytes_ok (datas evs) = true -> bytes_ok (encode_trailers t) = true ->
  drain_encode Base64 (evs ++ [EvTrailers t]) =
    map (fun d => SData (enc true d)) (datas evs) ++ [SData (enc true (trailers_frame t)); SNone] /\
  dec_quanta (out_bytes (drain_encode Base64 (evs ++ [EvTrailers t]))) =
    Some (concat (datas evs) ++ trailers_frame t).
Proof. exact resp_text. Qed.

(* Body::is_end_stream of the translated response body.  A hyper-like consumer - it asks
   is_end_stream() before the first poll and after every data frame and stops polling when the
   answer is true - over an inner body that honours the http_body contract (true only after all
   its frames were yielded, as tonic's EncodeBody): every data item AND the trailers frame are
   taken before it stops *)
Theorem c16_web_resp_hyper : forall e evs t,
  only_data_or_pending evs = true -> nlen (encode_trailers t) <= U32_MAX ->
  hyper_encode 1 e (evs ++ [EvTrailers t]) =
  (map (fun d => SData (encode_bytes e d)) (datas evs) ++ [SData (encode_bytes e (trailers_frame t))], true).
Proof. exact resp_hyper. Qed.

(* ... and for EVERY script of the inner body (errors, trailers anywhere or missing) and both
   encodings: what the hyper-like consumer takes, plus the end of stream it infers from
   is_end_stream, is exactly what a poll-until-None consumer reads (obs_response_hyper evaluates
   hyper_encode, obs_call / obs_response evaluate drain_encode).  An is_end_stream that answers
   true while an item is still to come - an encoder that stages output, a trailers frame not yet
   handed out - refutes this statement. *)
Theorem c16_web_resp_hyper_complete : forall e evs,
  let '(l, b) := hyper_encode 1 e evs in
  l ++ (if b then [SNone] else []) = drain_encode e evs.
Proof. exact hyper_encode_complete. Qed.

(* Body::size_hint of the translated response body (F-C16a, fix 2dcb76d4): whatever the inner
   body reports (an exact hint or none; any is_end_stream behaviour [mode]) the hint the caller
   reads before the first poll is true of the bytes it then receives, in both encodings - a
   consumer that derives a Content-Length from it (hyper, HTTP/1.1) cuts nothing *)
Theorem c16_web_resp_size_hint : forall mode exact a revs,
  hint_covers (resp_size_hint mode exact a revs) (nlen (out_bytes (fst (hyper_encode mode a revs)))).
Proof. exact resp_size_hint_covers. Qed.

Theorem c16_web_resp_size_hint_drain : forall exact a revs,
  hint_covers (wc_size_hint (wc_response a) (inner_size_hint exact revs))
              (nlen (out_bytes (drain_encode a revs))).
Proof. exact resp_size_hint_covers_drain. Qed.

(* request direction: a binary body keeps the hint of the body it wraps and that hint stays
   true (the bytes pass unchanged); a text body gives no hint *)
Theorem c16_web_req_size_hint : forall e exact qevs, only_data_or_pending qevs = true ->
  hint_covers (wc_size_hint (wc_request e) (inner_size_hint exact qevs))
              (nlen (out_bytes (drain_request e qevs))).
Proof. exact req_size_hint_covers. Qed.

(* "decodes to the identical message bytes followed by exactly one trailers frame listing every
   trailer", judged by the grpc-web client decoder of C17 under ANY re-chunking of the emitted
   bytes by the transport *)
Theorem c16_web_resp_binary_decodes : forall frames tl sevs cevs,
  Verif.Proofs.WebClient.frames_ok frames ->
  Verif.Proofs.WebClient.trailers_ok tl = true ->
  Verif.Proofs.WebClient.no_leading_space tl = true ->
  nlen (encode_trailers tl) <= U32_MAX -> nlen tl <= Verif.Model.WebClient.HM_MAX_NAMES ->
  only_data_or_pending sevs = true -> concat (datas sevs) = Verif.Proofs.WebClient.fcat frames ->
  only_data_or_pending cevs = true ->
  concat (datas cevs) = out_bytes (drain_encode NoEnc (sevs ++ [EvTrailers tl])) ->
  exists ds,
    Verif.Model.WebClient.run cevs =
      map Verif.Model.WebClient.OData ds ++
      [Verif.Model.WebClient.OTrailers tl; Verif.Model.WebClient.ONone] /\
    concat ds = Verif.Proofs.WebClient.fcat frames.
Proof. exact resp_binary_decodes. Qed.

(* the same in text mode: the per-quantum reading of the emitted characters is a byte string
   from which that client decoder, under ANY chunking, recovers the messages and the trailers *)
Theorem c16_web_resp_text_decodes : forall frames tl sevs,
  Verif.Proofs.WebClient.frames_ok frames ->
  Verif.Proofs.WebClient.trailers_ok tl = true ->
  Verif.Proofs.WebClient.no_leading_space tl = true ->
  nlen (encode_trailers tl) <= U32_MAX -> nlen tl <= Verif.Model.WebClient.HM_MAX_NAMES ->
  only_data_or_pending sevs = true -> concat (datas sevs) = Verif.Proofs.WebClient.fcat frames ->
  forallb bytes_ok (datas sevs) = true -> bytes_ok (encode_trailers tl) = true ->
  exists B,
    dec_quanta (out_bytes (drain_encode Base64 (sevs ++ [EvTrailers tl]))) = Some B /\
    forall cevs, only_data_or_pending cevs = true -> concat (datas cevs) = B ->
    exists ds,
      Verif.Model.WebClient.run cevs =
        map Verif.Model.WebClient.OData ds ++
        [Verif.Model.WebClient.OTrailers tl; Verif.Model.WebClient.ONone] /\
      concat ds = Verif.Proofs.WebClient.fcat frames.
Proof. exact resp_text_decodes. Qed.

(* binary request bodies reach the inner service chunk by chunk, unchanged *)
Theorem c16_web_req_binary : forall evs, only_data_or_pending evs = true ->
  drain_request NoEnc evs = map SData (datas evs) ++ [SNone] /\
  out_bytes (drain_request NoEnc evs) = concat (datas evs).
Proof. exact req_binary. Qed.

(* text request bodies: the canonical padded base64 of ANY payload cut at ARBITRARY positions
   (inside a quantum included), Pending anywhere: the inner service receives exactly the
   payload and then the end - no error *)
Theorem c16_web_req_text : forall payload evs,
  bytes_ok payload = true -> only_data_or_pending evs = true ->
  concat (datas evs) = enc true payload ->
  exists ds, drain_request Base64 evs = map SData ds ++ [SNone] /\ concat ds = payload.
Proof. exact req_text. Qed.

(* the same body read by a consumer that stops at is_end_stream() (hyper; is_end_stream of the
   Decode direction = inner body at its end AND nothing buffered, fix f0f96413): the whole
   payload, no error; the consumer is stopped either by is_end_stream or by the None *)
Theorem c16_web_req_text_hyper : forall payload evs,
  bytes_ok payload = true -> only_data_or_pending evs = true ->
  concat (datas evs) = enc true payload ->
  exists ds, concat ds = payload /\
    (hyper_request Base64 1 evs = (map SData ds, true) \/
     hyper_request Base64 1 evs = (map SData ds ++ [SNone], false)).
Proof. exact req_text_hyper. Qed.

(* a binary request body read by that consumer: every chunk, unchanged *)
Theorem c16_web_req_binary_hyper : forall evs, only_data_or_pending evs = true ->
  hyper_request NoEnc 1 evs = (map SData (datas evs), true) \/
  hyper_request NoEnc 1 evs = (map SData (datas evs) ++ [SNone], false).
Proof. exact req_binary_hyper. Qed.

(* M11 - text bodies that are not ONE canonical padded base64 text.
   (1) ANY text body whatever (padded, unpadded, several independently padded segments, garbage),
   cut anywhere: the data items the inner service receives before the body ends or fails are
   the per-quantum decoding of a prefix of the characters sent, and a clean end is reported only
   when EVERY character has been decoded.  The inner service never sees bytes that are not the
   original bytes and never a silently shortened body; the only other outcome is an error. *)
Theorem c16_web_req_text_sound : forall evs, only_data_or_pending evs = true ->
  let W := concat (datas evs) in
  exists ds last k,
    drain_request Base64 evs = map SData ds ++ [last] /\
    (4 * k <= length W)%nat /\
    dec_quanta (firstn (4 * k) W) = Some (concat ds) /\
    (last = SNone -> (4 * k)%nat = length W) /\
    (last = SNone \/ last = SErr SE_BASE64 \/ last = SErr SE_LEFTOVER).
Proof. exact req_text_sound. Qed.

(* (2) a canonical text followed by one to three stray characters: the payload arrives, then
   the error "malformed base64 request" *)
Theorem c16_web_req_text_leftover : forall payload extra evs,
  bytes_ok payload = true -> only_data_or_pending evs = true ->
  (0 < length extra < 4)%nat ->
  concat (datas evs) = enc true payload ++ extra ->
  exists ds, drain_request Base64 evs = map SData ds ++ [SErr SE_LEFTOVER] /\ concat ds = payload.
Proof. exact req_text_leftover. Qed.

(* (3) the UNPADDED base64 text of a payload whose length is not a multiple of 3, under any
   chunking: everything but the last one or two bytes arrives, then the same error - the last
   quantum is never decoded although the engine is Indifferent to padding.  The property speaks
   of "base64 text"; RFC 4648 base64 and grpc-web-text are padded, so this is recorded as an
   observation, not a defect: the request FAILS, nothing wrong is delivered. *)
Theorem c16_web_req_text_unpadded : forall payload evs,
  bytes_ok payload = true -> only_data_or_pending evs = true ->
  (length payload mod 3 <> 0)%nat ->
  concat (datas evs) = enc false payload ->
  exists ds, drain_request Base64 evs = map SData ds ++ [SErr SE_LEFTOVER] /\
             concat ds = firstn (3 * (length payload / 3)) payload.
Proof. exact req_text_unpadded. Qed.

(* the table of the four cases, for ALL methods, versions and header maps: the decision looks
   only at the method, the version and the FIRST content-type value *)
Theorem c16_web_kind_table : forall method version headers,
  let ct := hm_get headers H_CONTENT_TYPE in
  let ac := hm_get headers H_ACCEPT in
  (is_web_type ct -> method = M_POST ->
     request_kind method version headers = KTranslate (enc_of (is_text_type ct)) (enc_of (is_text_type ac))) /\
  (is_web_type ct -> method <> M_POST -> request_kind method version headers = K405) /\
  (~ is_web_type ct -> version = HTTP_2 -> request_kind method version headers = KPass) /\
  (~ is_web_type ct -> version <> HTTP_2 -> request_kind method version headers = K400).
Proof. exact kind_table. Qed.

(* the request the inner service sees has the gRPC content-type (te, accept-encoding set,
   content-length dropped, everything else untouched) *)
Theorem c16_web_req_headers : forall h k,
  hm_get_all (coerce_request_headers h) k =
    if bytes_eqb k H_CONTENT_TYPE then [GRPC_CONTENT_TYPE]
    else if bytes_eqb k H_TE then [V_TRAILERS]
    else if bytes_eqb k H_ACCEPT_ENCODING then [V_ACCEPT_ENCODING]
    else if bytes_eqb k H_CONTENT_LENGTH then []
    else hm_get_all h k.
Proof. exact coerce_request_spec. Qed.

(* the response carries the content-type of the encoding the Accept header asked for and NO
   content-length (F-C16b, fix 7e0a074f: the inner service described the untranslated body);
   every other header is untouched *)
Theorem c16_web_resp_headers : forall h a k,
  hm_get_all (coerce_response_headers h a) k =
    if bytes_eqb k H_CONTENT_TYPE then [to_content_type a]
    else if bytes_eqb k H_CONTENT_LENGTH then []
    else hm_get_all h k.
Proof. exact coerce_response_spec. Qed.

(* the whole translated call *)
Theorem c16_web_translate_call : forall method version headers qevs rstatus rheaders revs,
  is_web_type (hm_get headers H_CONTENT_TYPE) -> method = M_POST ->
  obs_call method version headers qevs rstatus rheaders revs =
  let e := enc_of (is_text_type (hm_get headers H_CONTENT_TYPE)) in
  let a := enc_of (is_text_type (hm_get headers H_ACCEPT)) in
  Nd [Nn 1; enc_tr e; enc_tr a; hm_canon (coerce_request_headers headers);
      olist sout_tr (drain_request e qevs); Nn rstatus;
      hm_canon (coerce_response_headers rheaders a); olist sout_tr (drain_encode a revs)].
Proof. exact translate_call. Qed.

(* "other HTTP/2 requests pass through untouched": headers, status and every frame of both
   bodies (data and HTTP trailers), for ALL scripts *)
Theorem c16_web_pass_through_call : forall method version headers qevs rstatus rheaders revs,
  ~ is_web_type (hm_get headers H_CONTENT_TYPE) -> version = HTTP_2 ->
  obs_call method version headers qevs rstatus rheaders revs =
  Nd [Nn 4; hm_canon headers; olist sout_tr (passthrough qevs); Nn rstatus; hm_canon rheaders;
      olist sout_tr (passthrough revs)].
Proof. exact pass_through_call. Qed.

(* "non-POST grpc-web requests get 405, other HTTP/1 requests 400": the inner service is not
   called *)
Theorem c16_web_immediate_call : forall method version headers qevs rstatus rheaders revs,
  (is_web_type (hm_get headers H_CONTENT_TYPE) -> method <> M_POST ->
     obs_call method version headers qevs rstatus rheaders revs = Nd [Nn 2; Nn 405]) /\
  (~ is_web_type (hm_get headers H_CONTENT_TYPE) -> version <> HTTP_2 ->
     obs_call method version headers qevs rstatus rheaders revs = Nd [Nn 3; Nn 400]).
Proof. exact immediate_call. Qed.

(* one state machine: the poll-until-the-end consumers of the theorems above (what obs_call
   evaluates) are, for EVERY script, the poll-by-poll run of GrpcWebCall::poll_frame over its
   state (wc_polls over wc_poll_frame: what the polls.* kinds evaluate) with the Pending results
   dropped, up to the first item that is neither data nor trailers *)
Theorem c16_web_polls_drain_response : forall e evs,
  settle (wc_polls (S (length evs)) (wc_response e) evs) = drain_encode e evs.
Proof. exact polls_drain_response. Qed.

Theorem c16_web_polls_drain_request : forall e evs,
  settle (wc_polls (match e with Base64 => b64_polls evs | NoEnc => S (length evs) end) (wc_request e) evs) =
  drain_request e evs.
Proof. exact polls_drain_request. Qed.

(* the only panic site: the assert in make_trailers_frame *)
Theorem c16_web_trailers_frame_panic : forall t,
  make_trailers_frame t = None <-> U32_MAX < nlen (encode_trailers t).
Proof. exact trailers_frame_panic_iff. Qed.

(* ---------- the hypotheses are satisfiable on non-trivial values ---------- *)
Definition ex_t : hm :=
  [ ([103;114;112;99;45;115;116;97;116;117;115], [53]);
    ([120;45;107], [97;58;98]); ([120;45;107], [99;32;100]) ].
(* frame(0,"hi") cut inside its header, Pending in between *)
Definition ex_revs : list ev := [EvData [0; 0; 0]; EvPending; EvData [0; 2; 104]; EvData [105]].

Example c16_resp_premises :
  only_data_or_pending ex_revs = true /\ nlen (encode_trailers ex_t) <= U32_MAX /\
  forallb bytes_ok (datas ex_revs) = true /\ bytes_ok (encode_trailers ex_t) = true.
Proof. repeat split; try reflexivity. vm_compute. discriminate. Qed.

Example c16_resp_text_example :
  dec_quanta (out_bytes (drain_encode Base64 (ex_revs ++ [EvTrailers ex_t]))) =
  Some (frame 0 [104; 105] ++ trailers_frame ex_t).
Proof. vm_compute. reflexivity. Qed.

(* the premises of c16_web_resp_binary_decodes / _text_decodes hold for the stream of ex_revs *)
Example c16_resp_decodes_premises :
  Verif.Proofs.WebClient.frames_ok [(0, [104; 105])] /\
  Verif.Proofs.WebClient.trailers_ok ex_t = true /\
  Verif.Proofs.WebClient.no_leading_space ex_t = true /\
  nlen ex_t <= Verif.Model.WebClient.HM_MAX_NAMES /\
  concat (datas ex_revs) = Verif.Proofs.WebClient.fcat [(0, [104; 105])].
Proof.
  split.
  { apply Forall_cons; [|apply Forall_nil]. split; [now left|vm_compute; discriminate]. }
  split; [vm_compute; reflexivity|]. split; [vm_compute; reflexivity|].
  split; [vm_compute; discriminate|]. vm_compute; reflexivity.
Qed.

(* "AAAAAAFB" = base64 of frame(0,"A"), cut inside both quanta *)
Example c16_req_text_example :
  drain_request Base64 [EvData [65; 65; 65]; EvPending; EvData [65; 65; 65; 70]; EvData [66]] =
  [SData [0; 0; 0]; SData [0; 1; 65]; SNone].
Proof. vm_compute. reflexivity. Qed.

(* OBSERVATION (M11b), not a defect: a text request made of two independently padded segments
   ("QQ==" "QkM=") is accepted when a chunk boundary falls between the segments and rejected when
   both arrive together; the property speaks of one base64 text.  In both cases
   c16_web_req_text_sound applies: what arrives is the original bytes or an error. *)
Example c16_two_segments_chunking_dependent :
  drain_request Base64 [EvData [81; 81; 61; 61]; EvData [81; 107; 77; 61]] = [SData [65]; SData [66; 67]; SNone] /\
  drain_request Base64 [EvData [81; 81; 61; 61; 81; 107; 77; 61]] = [SErr SE_BASE64].
Proof. split; vm_compute; reflexivity. Qed.

(* the unpadded text "AAAAAAFB" + "QQ" (frame(0,"A") ++ "A" without padding), cut in the middle:
   the frame arrives, the last byte never does, the body fails *)
Example c16_req_text_unpadded_example :
  drain_request Base64 [EvData [65; 65; 65; 65; 65]; EvData [65; 70; 66; 81; 81]] =
  [SData [0; 0; 0]; SData [0; 1; 65]; SErr SE_LEFTOVER] /\
  enc false [0; 0; 0; 0; 1; 65; 65] = [65; 65; 65; 65; 65; 65; 70; 66; 81; 81].
Proof. split; vm_compute; reflexivity. Qed.

(* F-C16a: the witness.  An inner body with an exact size hint (one 6-byte message frame, then
   trailers): before the fix the translated body reported the inner hint (6, Some 6) although it
   yields 26 bytes (binary) / 36 characters (text) - hyper sent `content-length: 6` and cut the
   trailers frame.  With the fix the hint is (0, None). *)
Definition ex_f16a : list ev :=
  [EvData [0; 0; 0; 0; 1; 65]; EvTrailers [([103;114;112;99;45;115;116;97;116;117;115], [48])]].
Example c16_size_hint_before_fix_refuted :
  ~ hint_covers (wc_size_hint_before_fix (wc_response NoEnc) (inner_size_hint true ex_f16a))
                (nlen (out_bytes (drain_encode NoEnc ex_f16a))) /\
  ~ hint_covers (wc_size_hint_before_fix (wc_response Base64) (inner_size_hint true ex_f16a))
                (nlen (out_bytes (drain_encode Base64 ex_f16a))) /\
  nlen (out_bytes (drain_encode NoEnc ex_f16a)) = 26 /\
  nlen (out_bytes (drain_encode Base64 ex_f16a)) = 36 /\
  wc_size_hint (wc_response Base64) (inner_size_hint true ex_f16a) = (0, None).
Proof.
  repeat split; try (vm_compute; reflexivity);
    intros [_ H]; vm_compute in H; apply H; reflexivity.
Qed.

Print Assumptions c16_web_resp_binary.
Print Assumptions c16_web_resp_text.
Print Assumptions c16_web_resp_binary_decodes.
Print Assumptions c16_web_resp_hyper.
Print Assumptions c16_web_req_binary.
Print Assumptions c16_web_req_text.
Print Assumptions c16_web_kind_table.
Print Assumptions c16_web_req_headers.
Print Assumptions c16_web_translate_call.
Print Assumptions c16_web_resp_hyper_complete.
Print Assumptions c16_web_resp_size_hint.
Print Assumptions c16_web_req_size_hint.
Print Assumptions c16_web_resp_text_decodes.
Print Assumptions c16_web_req_text_hyper.
Print Assumptions c16_web_req_binary_hyper.
Print Assumptions c16_web_req_text_sound.
Print Assumptions c16_web_req_text_leftover.
Print Assumptions c16_web_req_text_unpadded.
Print Assumptions c16_web_pass_through_call.
Print Assumptions c16_web_immediate_call.
Print Assumptions c16_web_polls_drain_response.
Print Assumptions c16_web_polls_drain_request.

(* the constants written by hand in the model equal the ones regenerated from the Rust source
   (Gen/ConstTables.v, rewritten by rs2v on every run) *)
From Verif Require Gen.ConstTables Proofs.ConstTies Model.Encoder Model.Decoder Model.WebServer.
Import Gen.ConstTables.
Theorem c16_constants_tied :
  WebServer.WebConsts.GRPC_WEB = web_ct_grpc_web /\
  WebServer.WebConsts.GRPC_WEB_PROTO = web_ct_grpc_web_proto /\
  WebServer.WebConsts.GRPC_WEB_TEXT = web_ct_grpc_web_text /\
  WebServer.WebConsts.GRPC_WEB_TEXT_PROTO = web_ct_grpc_web_text_proto /\
  WebServer.WebConsts.GRPC_CONTENT_TYPE = grpc_content_type /\
  WebServer.GRPC_WEB_TRAILERS_BIT = web_trailers_bit /\
  Frame.HEADER_SIZE = web_frame_header_size /\
  Frame.HEADER_SIZE = web_grpc_header_size.
Proof. exact ConstTies.web_constants_tied. Qed.
Print Assumptions c16_constants_tied.
