(* C19 - Reflection resolves every registered symbol and file, and nothing else.
   Statements only: each theorem is closed by [exact] of a lemma proved in Proofs/Reflection.v.

   Vocabulary (Model/Reflection.v):
   [build own b]          Builder::build_v1 / build_v1alpha, [own] = that version's own descriptor set
   [builder_files own b]  all registered files in the order ReflectionServiceState::new walks them
   [first_named fs f]     f is registered and no file registered before it has its file name
   [declares f s]         inductive: s is the fully-qualified name of a message, nested message,
                          field, oneof, enum, enum value, service or method of f (any depth)
   [respond st h q]       the item the request loop sends for request q of host h: the message with
                          its envelope (valid_host, original_request) or the status code that ends
                          the stream
   [obs_version serve own b queries script]
                          the function ./check evaluates on every harness case and compares with
                          what the real service did (one stream per query + one scripted stream)   *)
From Coq Require Import String.
From Verif Require Import Lib.Bytes Lib.Obs Model.Reflection Proofs.Reflection.
Open Scope N_scope.

(* every name declared by a registered, non-shadowed file resolves, and to a registered,
   non-shadowed file that declares it; messages nested to any depth *)
Theorem c19_symbols_complete : forall own b st, build own b = Ok st ->
  forall f s, first_named (builder_files own b) f -> declares f s ->
  exists f', symbol_by_name st s = Some f' /\ first_named (builder_files own b) f' /\ declares f' s.
Proof. exact symbols_complete. Qed.

(* side condition "no other registered file declares the name": it resolves to exactly that file *)
Theorem c19_symbols_unique : forall own b st, build own b = Ok st ->
  forall f s, first_named (builder_files own b) f -> declares f s ->
  (forall g, first_named (builder_files own b) g -> declares g s -> g = f) ->
  symbol_by_name st s = Some f.
Proof. exact symbols_unique. Qed.

(* without the side condition: the last declaring file in registration order answers *)
Theorem c19_symbols_last_writer : forall own b st, build own b = Ok st ->
  forall pre f post s, effective (builder_files own b) = pre ++ f :: post -> declares f s ->
  (forall g, In g post -> ~ declares g s) ->
  symbol_by_name st s = Some f.
Proof. exact symbols_last_writer. Qed.

Theorem c19_effective_is_first_named : forall fs f, In f (effective fs) <-> first_named fs f.
Proof. exact effective_spec. Qed.

(* ... and nothing else resolves *)
Theorem c19_symbols_sound : forall own b st, build own b = Ok st ->
  forall s f, symbol_by_name st s = Some f -> first_named (builder_files own b) f /\ declares f s.
Proof. exact symbols_sound. Qed.

(* a file name answers with the first registered file of that name, no other name answers *)
Theorem c19_files_exact : forall own b st, build own b = Ok st ->
  forall n, file_by_filename st n = find (named n) (builder_files own b).
Proof. exact files_exact. Qed.

Theorem c19_file_found_iff : forall own b st, build own b = Ok st ->
  forall n f, file_by_filename st n = Some f <-> first_named (builder_files own b) f /\ f_name f = Some n.
Proof. exact file_found_is_first_named. Qed.

(* What goes over the wire decodes to what was registered.  CONDITIONAL on prost: the only content
   of these two statements beyond c19_files_exact / c19_symbols_complete is the shape of the
   message (exactly one encoded descriptor); "decodes to" is the hypothesis on the external
   encoder/decoder pair, which the harness samples on every returned descriptor. *)
Theorem c19_file_retrievable_decodes :
  forall (encode_file : file -> list N) (decode_file : list N -> option file),
  (forall f, decode_file (encode_file f) = Some f) ->
  forall own b st n f, build own b = Ok st ->
  first_named (builder_files own b) f -> f_name f = Some n ->
  forall h, exists bytes, wire_descriptors encode_file (respond st h (FileByFilename n)) = Some [bytes] /\
                decode_file bytes = Some f.
Proof. exact file_retrievable_decodes. Qed.

Theorem c19_symbol_resolves_decodes :
  forall (encode_file : file -> list N) (decode_file : list N -> option file),
  (forall f, decode_file (encode_file f) = Some f) ->
  forall own b st f s, build own b = Ok st ->
  first_named (builder_files own b) f -> declares f s ->
  forall h, exists bytes f', wire_descriptors encode_file (respond st h (FileContainingSymbol s)) = Some [bytes] /\
                   decode_file bytes = Some f' /\
                   first_named (builder_files own b) f' /\ declares f' s.
Proof. exact symbol_resolves_decodes. Qed.

(* the same two facts without any hypothesis, on the function the harness evaluates: the stream
   of a single request for a registered file name / a declared name carries exactly one message,
   the descriptor [f] (compared by the harness as file name + digest of the full content), with
   the request echoed, and then ends cleanly *)
Theorem c19_file_query_stream : forall own b st n f h, build own b = Ok st ->
  first_named (builder_files own b) f -> f_name f = Some n ->
  serve_v1 st false [Req h (FileByFilename n)] =
  ([inl (mkReply h (Some (h, FileByFilename n)) (FileDescriptorResponse f))], Ended).
Proof. exact file_query_stream. Qed.

Theorem c19_symbol_query_stream : forall own b st f s h, build own b = Ok st ->
  first_named (builder_files own b) f -> declares f s ->
  exists f', first_named (builder_files own b) f' /\ declares f' s /\
    serve_v1 st false [Req h (FileContainingSymbol s)] =
    ([inl (mkReply h (Some (h, FileContainingSymbol s)) (FileDescriptorResponse f'))], Ended).
Proof. exact symbol_query_stream. Qed.

(* order-free form used by the oracle: whichever file answers to a file name, every name it
   declares resolves (to a file declaring it); and the file a name resolves to is itself
   retrievable under its own file name *)
Theorem c19_live_file_symbols_resolve : forall own b st n f, build own b = Ok st ->
  file_by_filename st n = Some f ->
  forall s, declares f s -> exists f', symbol_by_name st s = Some f' /\ declares f' s.
Proof. exact live_file_symbols_resolve. Qed.

Theorem c19_resolved_file_is_retrievable : forall own b st s f, build own b = Ok st ->
  symbol_by_name st s = Some f -> exists n, f_name f = Some n /\ file_by_filename st n = Some f.
Proof. exact resolved_file_is_retrievable. Qed.

(* [declares] as a list / a boolean (what the harness oracle's own reading of a descriptor is
   compared with, kind spec.declared_names) *)
Theorem c19_declared_names_spec : forall f s, In s (declared_names f) <-> declares f s.
Proof. exact declared_names_spec. Qed.

(* The property without the [first_named] side condition: if duplicate registration means
   registering THE SAME file again (all files registered under one file name are equal - any
   number of times, in any sets, decoded or encoded), then EVERY registered file is retrievable
   under its name, every name it declares resolves to a registered file declaring it, and to the
   file itself when no other registered file declares the name. *)
Theorem c19_consistent_registration_full : forall own b st, build own b = Ok st ->
  consistent (builder_files own b) ->
  forall f, In f (builder_files own b) ->
  (exists n, f_name f = Some n /\ file_by_filename st n = Some f) /\
  (forall s, declares f s ->
     exists f', symbol_by_name st s = Some f' /\ In f' (builder_files own b) /\ declares f' s) /\
  (forall s, declares f s -> (forall g, In g (builder_files own b) -> declares g s -> g = f) ->
     symbol_by_name st s = Some f).
Proof. exact consistent_registration_full. Qed.

(* the service list: the services declared by the non-shadowed files, in registration order,
   or exactly the names chosen with with_service_name, in call order *)
Theorem c19_services_exact : forall own ops st, build own (run_ops ops) = Ok st ->
  list_services st =
  match chosen ops with
  | [] => flat_map declared_services (effective (builder_files own (run_ops ops)))
  | names => names
  end.
Proof. exact services_exact. Qed.

(* unknown names get NOT_FOUND, and only unknown names do *)
Theorem c19_unknown_symbol_not_found : forall own b st, build own b = Ok st ->
  forall s, answer st (FileContainingSymbol s) = inr NOT_FOUND <->
            (forall f, first_named (builder_files own b) f -> ~ declares f s).
Proof. exact symbol_not_found_iff. Qed.

Theorem c19_unknown_file_not_found : forall own b st, build own b = Ok st ->
  forall n, answer st (FileByFilename n) = inr NOT_FOUND <->
            (forall f, In f (builder_files own b) -> f_name f <> Some n).
Proof. exact file_not_found_iff. Qed.

(* v1 and v1alpha.  The two request loops are transcriptions of two Rust files with the same text
   (v1.rs / v1alpha.rs differ in the pb module only); their equality is a fact about the
   transcriptions, each of which is tied to its own file by the harness: *)
Theorem c19_v1_eq_v1alpha : forall st evs closed, serve_v1 st closed evs = serve_v1alpha st closed evs.
Proof. exact v1_eq_v1alpha. Qed.

(* ... the states are equal when the reflection descriptor is not included ... *)
Theorem c19_same_state_without_own_descriptor : forall own1 own2 b,
  b_include_reflection b = false -> build own1 b = build own2 b.
Proof. exact same_state_without_own_descriptor. Qed.

(* ... and otherwise differ only in what the versions' own descriptors declare *)
Theorem c19_v1_v1alpha_agree : forall own1 own2 b st1 st2,
  build own1 b = Ok st1 -> build own2 b = Ok st2 ->
  (forall s, (forall f, In f own1 \/ In f own2 -> ~ declares f s) ->
             symbol_by_name st1 s = symbol_by_name st2 s) /\
  (forall n, (forall f, In f own1 \/ In f own2 -> f_name f <> Some n) ->
             file_by_filename st1 n = file_by_filename st2 n) /\
  (exists common E1 E2,
     list_services st1 = common ++ E1 /\ list_services st2 = common ++ E2 /\
     (b_use_all b = false -> E1 = [] /\ E2 = []) /\
     (forall x, In x E1 -> exists f, In f own1 /\ In x (declared_services f)) /\
     (forall x, In x E2 -> exists f, In f own2 /\ In x (declared_services f))).
Proof. exact v1_v1alpha_agree. Qed.

(* The same on the observables ./check compares, for ANY two own descriptor sets:
   (a) reflection descriptor excluded: the whole observable of a case is the same for both versions
       (build result, every single-request stream, the scripted stream incl. its panic);
   (b) included: every request that is neutral w.r.t. the own descriptors is answered alike;
   (c) an error in the user's sets is the build error of both versions. *)
Theorem c19_versions_same_observable : forall own1 own2 b queries script,
  b_include_reflection b = false ->
  obs_version serve_v1 own1 b queries script = obs_version serve_v1alpha own2 b queries script.
Proof. exact obs_version_same_without_own. Qed.

Theorem c19_versions_agree_on_neutral : forall own1 own2 b st1 st2,
  build own1 b = Ok st1 -> build own2 b = Ok st2 ->
  forall h q, neutral own1 own2 b q ->
  serve_v1 st1 false [Req h q] = serve_v1alpha st2 false [Req h q].
Proof. exact versions_agree_on_neutral. Qed.

Theorem c19_versions_build_alike : forall own1 own2 b e,
  new (b_names b) (b_encoded b) (b_sets b) (b_use_all b) = Err e ->
  build own1 b = Err e /\ build own2 b = Err e.
Proof. exact versions_build_alike_err. Qed.

(* what ./check evaluates, in terms of [respond]: one answer per single-request stream *)
Theorem c19_obs_version_built : forall own b st queries script, build own b = Ok st ->
  obs_version serve_v1 own b queries script =
  Nd [Nn 1; olist (fun hq => obs_stream ([respond st (fst hq) (snd hq)], Ended)) queries;
      obs_stream (serve_v1 st false script)].
Proof. exact obs_version_built. Qed.

(* the request loop: answers in order up to and including the first error status *)
Theorem c19_serve_answers : forall st hqs,
  serve_v1 st false (map req_of hqs) =
  (upto_first_error (map (fun hq => respond st (fst hq) (snd hq)) hqs), Ended).
Proof. exact serve_answers. Qed.

(* every message sent echoes a request of the stream (valid_host, original_request) and carries
   the answer to that very request - under any schedule of drops and malformed items *)
Theorem c19_serve_echo : forall st evs closed, Forall (echoes st evs) (fst (serve_v1 st closed evs)).
Proof. exact serve_echo. Qed.

(* [send(..).expect("send")] cannot fire while the client keeps the response stream ... *)
Theorem c19_serve_no_panic : forall st evs, ~ In RxDrop evs -> snd (serve_v1 st false evs) = Ended.
Proof. exact serve_no_panic. Qed.

(* ... and fires exactly when a request arrives after the client dropped the response stream on a
   stream that no error status / malformed item had ended before *)
Theorem c19_serve_panics_iff : forall st evs,
  snd (serve_v1 st false evs) = Panic <->
  exists pre mid h q post,
    evs = pre ++ RxDrop :: mid ++ Req h q :: post /\
    (forall e, In e pre -> answered_ok st e) /\ (forall e, In e mid -> e = RxDrop).
Proof. exact serve_panics_iff. Qed.

(* extension requests (outside the property text, recorded because "nothing else resolves" also
   means: no extension request is ever answered with a descriptor): after any prefix of requests
   that were answered with messages, an extension lookup ends the stream with NOT_FOUND whatever
   is registered, and an all-extension-numbers request is answered with the empty list (also for
   a type nobody declares) and the stream goes on.  Tie: harness kind extensions + the scripted
   streams. *)
Theorem c19_extension_requests : forall st pre h t n rest,
  Forall (fun hq => exists r, respond st (fst hq) (snd hq) = inl r) pre ->
  serve_v1 st false (map req_of pre ++ Req h (FileContainingExtension t n) :: rest) =
    (map (fun hq => respond st (fst hq) (snd hq)) pre ++ [inr NOT_FOUND], Ended) /\
  serve_v1 st false (map req_of pre ++ Req h (AllExtensionNumbersOfType t) :: rest) =
    (map (fun hq => respond st (fst hq) (snd hq)) pre ++
       inl (mkReply h (Some (h, AllExtensionNumbersOfType t)) AllExtensionNumbersResponse) ::
       fst (serve_v1 st false rest),
     snd (serve_v1 st false rest)).
Proof. exact extension_requests_in_stream. Qed.

(* a descriptor is sent only in answer to a file-name / symbol request and is the table entry *)
Theorem c19_descriptor_only_from_tables : forall st h q r f,
  respond st h q = inl r -> message_response r = FileDescriptorResponse f ->
  (exists n, q = FileByFilename n /\ file_by_filename st n = Some f) \/
  (exists s, q = FileContainingSymbol s /\ symbol_by_name st s = Some f).
Proof. exact descriptor_only_from_tables. Qed.

(* the service builds whenever every set decodes, every file is named and every non-shadowed
   file has all its names *)
Theorem c19_build_succeeds : forall own b,
  Forall (fun o => o <> None) (b_encoded b) ->
  Forall (fun f => f_name f <> None) (builder_files own b) ->
  Forall (fun f => file_complete f = true) (effective (builder_files own b)) ->
  exists st, build own b = Ok st.
Proof. exact build_succeeds. Qed.

(* ... and only then (a missing name in a file that is looked at, an unnamed file or an
   undecodable set is a build error, never a silently partial index) *)
Theorem c19_build_ok_iff : forall own b,
  (exists st, build own b = Ok st) <->
  Forall (fun o => o <> None) (b_encoded b) /\
  Forall (fun f => f_name f <> None) (builder_files own b) /\
  Forall (fun f => file_complete f = true) (effective (builder_files own b)).
Proof. exact build_ok_iff. Qed.

(* ------------------------------------------------------------------ non-vacuity *)
Module Ex.
  Definition inner := Msg (Some (s2b "N")) [Msg (Some (s2b "O")) [] [] [Some (s2b "deep")] []] [] [] [].
  Definition fa : file :=
    mkFile (Some (s2b "a.proto")) (Some (s2b "p.q"))
      [Msg (Some (s2b "M")) [inner] [Enum (Some (s2b "E")) [Some (s2b "A")]] [Some (s2b "f")] [Some (s2b "o")]]
      [Enum (Some (s2b "Top")) [Some (s2b "X")]]
      [Service (Some (s2b "S")) [Some (s2b "Get")]] 1.
  Definition fb : file :=
    mkFile (Some (s2b "b.proto")) None [Msg (Some (s2b "M")) [] [] [] []] [] [] 2.
  (* another file under the name a.proto *)
  Definition fa2 : file :=
    mkFile (Some (s2b "a.proto")) (Some (s2b "p.q")) [Msg (Some (s2b "OnlyInSecond")) [] [] [] []] [] [] 3.
  (* a differently named file declaring p.q.M again *)
  Definition fd : file :=
    mkFile (Some (s2b "d.proto")) (Some (s2b "p.q")) [Msg (Some (s2b "M")) [] [] [] []] [] [] 4.
  Definition b1 := run_ops [RegisterSet [fa]; RegisterEncoded (Some [fb]); IncludeReflection false].
  Definition b2 := run_ops [RegisterSet [fa; fa2; fd]; IncludeReflection false].
  Definition get (r : result state) (s : name) : option (option N) :=
    match r with Ok st => Some (option_map f_rest (symbol_by_name st s)) | Err _ => None end.
End Ex.

(* the hypotheses of c19_symbols_unique hold for a deeply nested name of a two-file set *)
Example c19_unique_premises_hold :
  exists st, build [] Ex.b1 = Ok st /\
    first_named (builder_files [] Ex.b1) Ex.fa /\
    declares Ex.fa (s2b "p.q.M.N.O.deep") /\
    symbol_by_name st (s2b "p.q.M.N.O.deep") = Some Ex.fa /\
    symbol_by_name st (s2b "p.q.M.E.A") = Some Ex.fa /\
    symbol_by_name st (s2b "M") = Some Ex.fb /\
    symbol_by_name st (s2b "p.q.A") = None /\
    list_services st = [s2b "p.q.S"].
Proof.
  destruct (build [] Ex.b1) as [st|] eqn:B; [|vm_compute in B; discriminate].
  exists st. split; [reflexivity|].
  assert (F : first_named (builder_files [] Ex.b1) Ex.fa).
  { exists [], [Ex.fb], (s2b "a.proto"). split; [reflexivity|]. split; [reflexivity|]. intros g []. }
  assert (D : declares Ex.fa (s2b "p.q.M.N.O.deep")).
  { eapply D_message; [now left|].
    eapply (MD_nested (s2b "p.q") (s2b "M")); [now left|].
    eapply (MD_nested (s2b "p.q.M") (s2b "N")); [now left|].
    apply (MD_field (s2b "p.q.M.N") (s2b "O")). now left. }
  split; [exact F|]. split; [exact D|].
  vm_compute in B. injection B as <-. vm_compute. repeat split; reflexivity.
Qed.

(* Behaviour outside the side conditions, on concrete descriptor sets (the model agrees with the
   crate on exactly these sets in the correspondence corpus):
   - a second, different file registered under an already used file name is skipped entirely:
     its declared name is NOT_FOUND;
   - a name declared by two differently named files resolves to the later one. *)
Example c19_shadowed_file_symbols_do_not_resolve :
  Ex.get (build [] Ex.b2) (s2b "p.q.OnlyInSecond") = Some None /\
  declares Ex.fa2 (s2b "p.q.OnlyInSecond") /\ In Ex.fa2 (builder_files [] Ex.b2) /\
  Ex.get (build [] Ex.b2) (s2b "p.q.M") = Some (Some 4) /\
  declares Ex.fa (s2b "p.q.M") /\ declares Ex.fd (s2b "p.q.M").
Proof.
  split; [vm_compute; reflexivity|]. split.
  { eapply D_message; [now left|]. apply (MD_message (s2b "p.q") (s2b "OnlyInSecond")). }
  split; [right; now left|]. split; [vm_compute; reflexivity|]. split.
  - eapply D_message; [now left|]. apply (MD_message (s2b "p.q") (s2b "M")).
  - eapply D_message; [now left|]. apply (MD_message (s2b "p.q") (s2b "M")).
Qed.

(* the premise of c19_consistent_registration_full holds on a set in which a.proto is registered
   twice (once decoded, once encoded) - and then the second registration is retrievable too *)
Example c19_consistent_premises_hold :
  let b3 := run_ops [RegisterSet [Ex.fa; Ex.fb]; RegisterEncoded (Some [Ex.fa]); IncludeReflection false] in
  consistent (builder_files [] b3) /\ List.length (builder_files [] b3) = 3%nat /\
  exists st, build [] b3 = Ok st /\ file_by_filename st (s2b "a.proto") = Some Ex.fa.
Proof.
  cbv zeta. split; [|split; [reflexivity|]].
  - intros f g Hf Hg. cbn in Hf, Hg.
    destruct Hf as [<-|[<-|[<-|[]]]], Hg as [<-|[<-|[<-|[]]]]; try reflexivity; intros E; vm_compute in E; discriminate.
  - eexists. split; [vm_compute; reflexivity|]. vm_compute. reflexivity.
Qed.

Print Assumptions c19_symbols_complete.
Print Assumptions c19_symbols_sound.
Print Assumptions c19_symbols_last_writer.
Print Assumptions c19_files_exact.
Print Assumptions c19_file_retrievable_decodes.
Print Assumptions c19_services_exact.
Print Assumptions c19_unknown_symbol_not_found.
Print Assumptions c19_v1_eq_v1alpha.
Print Assumptions c19_v1_v1alpha_agree.
Print Assumptions c19_build_succeeds.
Print Assumptions c19_build_ok_iff.
Print Assumptions c19_consistent_registration_full.
Print Assumptions c19_versions_same_observable.
Print Assumptions c19_serve_panics_iff.
