(* C01 - Message streams survive encode/decode unchanged under any chunking.
   Statements only: each theorem is closed by [exact] of a lemma proved in Proofs/Codec.v
   (composition) or Proofs/Encoder.v.

   Vocabulary (Model/Encoder.v, Model/Decoder.v, Model/Codec.v):
     cfg            = { comp (gzip/deflate/zstd/none - the announced encoding), override_disable
                        (the per-response opt-out), max (sending limit), buffer_size,
                        yield_threshold }
     src            = the message source as a list of events SPending | SItem (IOk m): every
                      Ready/Pending pattern is a list
     run_body c r src extra = the poll results of EncodeBody in role r, polled until None and
                      [extra] more times
     carries frames script  = the transport contract: [script] (events BPending | BData chunk |
                      BTrailers t | BErr st) delivers the concatenated DATA bytes of [frames]
                      re-cut at ARBITRARY positions (empty chunks allowed) with Pending ANYWHERE,
                      then what is not DATA
     drain fuel script .. = a caller polling Streaming::poll_next until Ready(None)
   [ser]/[deser] (prost or any codec) and [compress]/[decompress] (flate2, zstd) are arbitrary
   functions subject only to the two round-trip laws stated as premises. *)
From Verif Require Import Lib.Bytes Lib.Obs Lib.HeaderMap Model.Frame Model.Status.
From Verif Require Model.Encoder Proofs.Encoder.
From Verif Require Import Model.Decoder Proofs.Decoder Model.Codec Proofs.Codec.
Open Scope list_scope.
Open Scope N_scope.

(* encode |> any transport |> decode = identity, then a clean end.  All message sequences, all
   encodings incl. the override, all buffer settings (buffer_size 0 included: fix e8093870),
   every source schedule, every chunking, every Pending placement, both roles (a server's body
   ends with its OK trailers and is read as an HTTP 200 response, a client's body just ends and
   is read as a request).  "Within limits" = every message serializes and its on-the-wire
   payload is within the sender's limit, 2^32-1 and the receiver's limit. *)
Theorem c01_roundtrip :
  forall (msg enc : Type) (ser : msg -> option (list N)) (deser : list N -> option msg)
         (compress : enc -> list N -> list N) (decompress : enc -> list N -> option (list N)),
    (forall m p, ser m = Some p -> deser p = Some m) ->
    (forall e b, decompress e (compress e b) = Some b) ->
    forall (c : Encoder.cfg enc) (r : Encoder.role) (src : list (Encoder.sevent msg)) (extra : nat)
           (ms : list msg) (ps : list (list N)) (dmax : option N) (script : list bev) (fuel : nat),
      Encoder.items_of src = map Encoder.IOk ms ->
      Forall2 (Encoder.encodes ser compress c) ms ps ->
      Forall (fun p => nlen p <= dec_limit dmax) ps ->
      carries (Encoder.frames_of (Encoder.run_body msg enc ser compress c r src extra)) script ->
      (length script + length ms + 1 <= fuel)%nat ->
      exists trace fin,
        drain deser decompress fuel script (mkB 0)
              (dec_new (dir_of_role r) (Encoder.comp c) dmax) = (trace, Some fin) /\
        strip_pending trace = map (fun m => Item (IOk m)) ms ++ [Done].
Proof. exact roundtrip. Qed.

(* the bytes do not depend on when the source is ready nor on how output is batched: same
   items, same encoding and limit => same concatenated DATA bytes and the same end, whatever the
   two schedules, buffer sizes, yield thresholds (and roles) *)
Theorem c01_bytes_schedule_independent :
  forall (msg enc : Type) (ser : msg -> option (list N)) (compress : enc -> list N -> list N)
         (c1 c2 : Encoder.cfg enc) (r1 r2 : Encoder.role)
         (src1 src2 : list (Encoder.sevent msg)) (e1 e2 : nat),
    Encoder.items_of src1 = Encoder.items_of src2 ->
    Encoder.comp c1 = Encoder.comp c2 ->
    Encoder.override_disable c1 = Encoder.override_disable c2 ->
    Encoder.max c1 = Encoder.max c2 ->
    concat (Encoder.datas_of (Encoder.frames_of (Encoder.run_body msg enc ser compress c1 r1 src1 e1))) =
    concat (Encoder.datas_of (Encoder.frames_of (Encoder.run_body msg enc ser compress c2 r2 src2 e2))) /\
    Encoder.final_status ser compress c1 (Encoder.items_of src1) =
    Encoder.final_status ser compress c2 (Encoder.items_of src2).
Proof. exact Encoder.enc_schedule_independent. Qed.

(* every DATA chunk the encoder hands to the transport is a non-empty group of WHOLE frames;
   the groups together are exactly the encodable messages before the first failure, in order *)
Theorem c01_chunks_are_whole_frames :
  forall (msg enc : Type) (ser : msg -> option (list N)) (compress : enc -> list N -> list N)
         (c : Encoder.cfg enc) (r : Encoder.role) (src : list (Encoder.sevent msg)) (extra : nat),
    (exists groups,
      Encoder.frames_of (Encoder.run_body msg enc ser compress c r src extra) =
        map Encoder.FData (map (Encoder.chunk_of c) groups) ++
        Encoder.end_frames r (Encoder.final_status ser compress c (Encoder.items_of src)) /\
      concat groups = Encoder.good_payloads ser compress c (Encoder.items_of src) /\
      Forall (fun g => g <> []) groups) /\
    forall d, In d (Encoder.datas_of (Encoder.frames_of (Encoder.run_body msg enc ser compress c r src extra))) ->
      exists g, g <> [] /\ d = concat (map (Encoder.frame_of c) g).
Proof. exact Encoder.enc_aligned. Qed.

(* the re-cutting the correspondence harness applies to the real frames (cut lengths [cuts],
   [pend] Pending answers before each event) is a member of the transport contract for every
   cuts / pend, as long as at most one frame is not DATA (always true of EncodeBody: C03) *)
Theorem c01_transport_in_contract :
  forall (cuts pend : list N) (frames : list Encoder.bframe),
    (length (non_data frames) <= 1)%nat -> carries frames (transport cuts pend frames).
Proof. exact transport_carries. Qed.

(* the encoder never polls its message source (the caller's request stream, the handler's
   response stream) again after the source has answered None - for every schedule, role,
   configuration and number of extra polls of the body.  [run_body_src] is Model/Encoder.v's run
   over an explicit source with the ghost counter [s_after_end]; its poll results are those of
   [run_body], which the theorems above are about.  (A legal stream may panic or yield further
   items when polled after its end: the harness's scripted streams do, alternately.) *)
Theorem c01_source_never_polled_after_end :
  forall (msg enc : Type) (ser : msg -> option (list N)) (compress : enc -> list N -> list N)
         (c : Encoder.cfg enc) (r : Encoder.role) (src : list (Encoder.sevent msg)) (extra : nat),
    map fst (fst (Encoder.run_body_src msg enc ser compress c r src extra)) =
      Encoder.run_body msg enc ser compress c r src extra /\
    Encoder.s_after_end (snd (Encoder.run_body_src msg enc ser compress c r src extra)) = 0.
Proof. exact source_never_polled_after_end. Qed.

(* not vacuous, and not about a sibling model: [run_body_src] is Model/Encoder.v's machine over the
   explicit source (remaining events, "has answered None", the Fuse's "dropped" flag, the ghost);
   the theorem says its poll results ARE those of [run_body] - the run every theorem above and
   the harness's model expressions are about - and the ghost [s_after_end] is part of the
   observable compared with the strict streams of the harness (obs_roundtrip, fourth component).
   The ghost is not inert: the same loop WITHOUT the Fuse's flag polls the ended source, counts
   it and takes the explicit panic outcome *)
Example c01_unfused_poll_is_counted :
  Encoder.enc_loop_s (list N) Encoder.cenc Encoder.ser_raw (Encoder.compress_tbl [])
    (Encoder.mkCfg None false None 8192 32768) [] [] true 0 false =
    (Encoder.PPanic, Encoder.mkEnc [] None false, Encoder.mkSource [] true 1 false) /\
  Encoder.enc_loop_s (list N) Encoder.cenc Encoder.ser_raw (Encoder.compress_tbl [])
    (Encoder.mkCfg None false None 8192 32768) [] [] true 0 true =
    (Encoder.PNone, Encoder.mkEnc [] None false, Encoder.mkSource [] true 0 true).
Proof. split; reflexivity. Qed.

(* ---- non-vacuity ---------------------------------------------------------------------------- *)
(* a raw codec (a message is its own serialization) and a toy compressor (reverse) meet the
   two laws *)
Definition ex_ser (m : list N) : option (list N) := Some m.
Definition ex_deser (p : list N) : option (list N) := Some p.
Definition ex_compress (_ : unit) (b : list N) : list N := rev b.
Definition ex_decompress (_ : unit) (b : list N) : option (list N) := Some (rev b).

Example c01_laws_hold :
  (forall m p, ex_ser m = Some p -> ex_deser p = Some m) /\
  (forall e b, ex_decompress e (ex_compress e b) = Some b).
Proof.
  split.
  - intros m p H. injection H as ->. reflexivity.
  - intros e b. unfold ex_decompress, ex_compress. now rewrite rev_involutive.
Qed.

(* three messages [7], [], [8;9] (18 bytes on the wire), source Pending before the first and the
   third, the byte stream cut after bytes 2, 5 and 6 - inside the first prefix, at its end and
   after the first payload byte - with a Pending in between, then the server's OK trailers *)
Definition ex_cfg : Encoder.cfg unit := Encoder.mkCfg None false None 8192 32768.
Definition ex_src : list (Encoder.sevent (list N)) :=
  [Encoder.SPending; Encoder.SItem (Encoder.IOk [7]); Encoder.SItem (Encoder.IOk []);
   Encoder.SPending; Encoder.SItem (Encoder.IOk [8; 9])].
Definition ex_data : list bev :=
  [BData [0; 0]; BPending; BData [0; 0; 1]; BData [7];
   BData [0; 0; 0; 0; 0; 0; 0; 0; 0; 2; 8; 9]; BPending].
Definition ex_script : list bev := ex_data ++ [BTrailers ok_trailers].

Example c01_hypotheses_hold :
  Encoder.items_of ex_src = map Encoder.IOk [[7]; []; [8; 9]] /\
  Forall2 (Encoder.encodes ex_ser ex_compress ex_cfg) [[7]; []; [8; 9]] [[7]; []; [8; 9]] /\
  Forall (fun p => nlen p <= dec_limit None) [[7]; []; [8; 9]] /\
  carries (Encoder.frames_of (Encoder.run_body (list N) unit ex_ser ex_compress ex_cfg Encoder.Server ex_src 2))
          ex_script /\
  (length ex_script + 3 + 1 <= 11)%nat.
Proof.
  split; [reflexivity|]. split.
  - repeat constructor; try (eexists; split; reflexivity); vm_compute; discriminate.
  - split; [repeat constructor; vm_compute; discriminate|]. split; [|vm_compute; lia].
    exists ex_data. split; [repeat constructor|]. split; reflexivity.
Qed.

(* ... and evaluating the models on it gives what the theorem says *)
Example c01_example_evaluates :
  strip_pending (fst (drain ex_deser ex_decompress 11 ex_script (mkB 0)
                            (dec_new (dir_of_role Encoder.Server) (Encoder.comp ex_cfg) None))) =
  [Item (IOk [7]); Item (IOk []); Item (IOk [8; 9]); Done].
Proof. vm_compute. reflexivity. Qed.

(* the same three messages compressed (flag 1), announced encoding present, cut inside a
   compressed payload *)
Definition ex_cfg_z : Encoder.cfg unit := Encoder.mkCfg (Some tt) false None 1 0.
Example c01_hypotheses_hold_compressed :
  let script := [BData [1; 0; 0; 0; 1; 7; 1; 0; 0]; BData [0; 0; 1; 0; 0; 0; 2; 9]; BData [8]] in
  Forall2 (Encoder.encodes ex_ser ex_compress ex_cfg_z) [[7]; []; [8; 9]] [[7]; []; [9; 8]] /\
  carries (Encoder.frames_of (Encoder.run_body (list N) unit ex_ser ex_compress ex_cfg_z Encoder.Client ex_src 0))
          script /\
  strip_pending (fst (drain ex_deser ex_decompress 9 script (mkB 0)
                            (dec_new (dir_of_role Encoder.Client) (Encoder.comp ex_cfg_z) None))) =
  [Item (IOk [7]); Item (IOk []); Item (IOk [8; 9]); Done].
Proof.
  cbv zeta. split.
  - repeat constructor; try (eexists; split; reflexivity); vm_compute; discriminate.
  - split; [|vm_compute; reflexivity].
    exists [BData [1; 0; 0; 0; 1; 7; 1; 0; 0]; BData [0; 0; 1; 0; 0; 0; 2; 9]; BData [8]].
    split; [repeat constructor|]. split; vm_compute; reflexivity.
Qed.

Print Assumptions c01_roundtrip.
Print Assumptions c01_bytes_schedule_independent.
Print Assumptions c01_chunks_are_whole_frames.
Print Assumptions c01_transport_in_contract.

(* the constants written by hand in the models equal the ones regenerated from the Rust source
   (Gen/ConstTables.v, rewritten by rs2v on every run): prefix size, default receiving limit
   4 MiB, default sending limit usize::MAX, default buffer settings *)
From Verif Require Gen.ConstTables Proofs.ConstTies.
Import Gen.ConstTables.
Theorem c01_constants_tied :
  Frame.HEADER_SIZE = codec_header_size /\
  Decoder.DEFAULT_MAX_RECV_MESSAGE_SIZE = codec_default_max_recv_message_size /\
  Encoder.DEFAULT_MAX_SEND_MESSAGE_SIZE = codec_default_max_send_message_size /\
  Encoder.DEFAULT_CODEC_BUFFER_SIZE = codec_default_buffer_size /\
  Encoder.DEFAULT_YIELD_THRESHOLD = codec_default_yield_threshold /\
  Encoder.val_application_grpc = grpc_content_type.
Proof. exact ConstTies.codec_constants_tied. Qed.
Print Assumptions c01_constants_tied.
