(* C13 - graceful shutdown loses no accepted call.
   Statements only: each theorem is closed by [exact] of a lemma proved in Proofs/Shutdown.v.

   The model (Model/Shutdown.v) is the bookkeeping of serve_internal / serve_connection in
   tonic/src/transport/server/mod.rs as a labelled transition system; the theorems quantify over
   ALL runs: any number of connections and calls, any interleaving of the accept loop, the
   connection tasks, hyper, the peers and the handlers.

   hyper is not tonic's code.  It enters through two functions [admits] / [resolves] and the
   three laws of [hyper_contract]; every theorem that needs them says so.

   PARTIAL (not in the model, sampled by the harness h_shutdown on the real crates only):
   h2 GOAWAY handling (the window between the two GOAWAY frames is folded into the hidden step
   ConnSeesChange: "gs" is the moment hyper stops admitting streams), tokio task scheduling and
   the fairness of select! (liveness is stated as a variant plus absence of deadlock, not as
   "eventually" under a scheduler), handler termination (CallCompletes is a progress step),
   message contents (the callers' full outcomes are compared by the harness).
   Observed on the real crates and therefore in the model: a connection whose peer has not yet
   sent the HTTP/2 preface is not closed by the shutdown (hyper only notes close_pending); the
   serve future then waits for that peer - [only_silent] below. *)
From Coq Require Import List NArith Bool Arith.
From Verif Require Import Lib.Obs Model.Shutdown Proofs.Shutdown.
Import ListNotations.
Local Open Scope nat_scope.

(* ---- no connection is accepted after the signal -------------------------------------------- *)
Theorem c13_no_accept_after_signal :
  forall admits resolves ls s,
    run admits resolves init_st ls s ->
    forall l l1 l2, l = SignalObserved \/ l = IncomingEnd -> ls = l1 ++ l :: l2 ->
    forall c, ~ In (Accept c) l2.
Proof. exact no_accept_after_signal. Qed.

Theorem c13_no_accept_enabled_after_signal :
  forall admits resolves s,
    reachable admits resolves s -> sig_fused s = true ->
    forall c, step_fn admits resolves s (Accept c) = None.
Proof. exact no_accept_enabled_after_signal. Qed.

(* the Fuse'd signal is consumed once, the watch channel is written once, every connection
   reacts to it once *)
Theorem c13_signal_once :
  forall admits resolves ls s,
    run admits resolves init_st ls s ->
    count_occ label_eq_dec ls SignalObserved <= 1 /\
    count_occ label_eq_dec ls Send <= 1 /\
    version s <= 1 /\
    forall c, count_occ label_eq_dec ls (ConnSeesChange c) <= 1.
Proof. exact signal_once. Qed.

(* ---- the serve future resolves only after all connections have closed, and does then ------- *)
Theorem c13_serve_returns_only_when_all_closed :
  forall admits resolves s s',
    reachable admits resolves s -> step admits resolves s ServeReturns s' ->
    all_closed s /\ acc s' = Done.
Proof. exact serve_returns_only_when_all_closed. Qed.

Theorem c13_serve_returns_exactly_when_all_closed :
  forall admits resolves s,
    reachable admits resolves s -> acc s = Draining AtWait ->
    ((exists s', step admits resolves s ServeReturns s') <-> all_closed s).
Proof. exact serve_returns_iff_reachable. Qed.

(* in the history of any run that reached Done, every accepted connection's future resolved and
   its watch receiver was dropped *)
Theorem c13_connections_closed_before_return :
  forall admits resolves ls s,
    run admits resolves init_st ls s -> acc s = Done ->
    forall c, In (Accept c) ls ->
              In (DropReceiver c) ls /\ (In (ConnCloses c) ls \/ In (PeerAbort c) ls).
Proof. exact served_connections_closed_before_return. Qed.

Theorem c13_nothing_happens_after_return :
  forall admits resolves s l s',
    reachable admits resolves s -> acc s = Done -> ~ step admits resolves s l s'.
Proof. exact done_terminal_reachable. Qed.

(* ---- no accepted call is dropped -------------------------------------------------------------- *)
(* no step takes a call out of flight except its own completion or its own peer going away *)
Theorem c13_accepted_call_survives_every_step :
  forall admits resolves, hyper_contract admits resolves ->
  forall s l s' c k,
    step admits resolves s l s' -> In k (inflight s c) ->
    l <> CallCompletes c k -> l <> PeerAbort c -> In k (inflight s' c).
Proof. exact calls_preserved. Qed.

Theorem c13_accepted_calls_complete :
  forall admits resolves, hyper_contract admits resolves ->
  forall s ls s' c k,
    run admits resolves s ls s' -> In k (inflight s c) -> ~ In k (inflight s' c) ->
    In (CallCompletes c k) ls \/ In (PeerAbort c) ls.
Proof. exact accepted_calls_complete. Qed.

Theorem c13_every_accepted_call_completed_before_return :
  forall admits resolves, hyper_contract admits resolves ->
  forall ls s,
    run admits resolves init_st ls s -> acc s = Done ->
    forall c k, In (NewCall c k) ls -> In (CallCompletes c k) ls \/ In (PeerAbort c) ls.
Proof. exact every_accepted_call_completed. Qed.

Theorem c13_new_calls_only_before_graceful_shutdown :
  forall admits resolves, hyper_contract admits resolves ->
  forall s c k s',
    step admits resolves s (NewCall c k) s' ->
    exists f infl, lookup c (conns s) = Some (Live Open false f infl) /\ ~ In k infl.
Proof. exact new_call_only_before_graceful_shutdown. Qed.

(* ---- the serve future can return: no deadlock, and a variant ------------------------------ *)
(* in every reachable state after the accept loop has been left, tonic / hyper / a handler can
   move - unless all that is left are peers that never sent their preface *)
Theorem c13_no_deadlock :
  forall admits resolves, hyper_contract admits resolves ->
  forall s p,
    reachable admits resolves s -> acc s = Draining p ->
    (exists l s', step admits resolves s l s' /\ progress l = true) \/
    (p = AtWait /\ rx_count s <> 0 /\ only_silent s).
Proof. exact no_deadlock_reachable. Qed.

(* [mu] = acceptor phase + per connection (open, not told, in handshake, calls in flight):
   every step except the arrival of a new call decreases it *)
Theorem c13_variant :
  forall admits resolves s l s',
    step admits resolves s l s' -> acc s <> Selecting -> is_new_call l = false -> mu s' < mu s.
Proof. exact step_decreases. Qed.

Theorem c13_shutdown_bounded :
  forall admits resolves s ls s',
    run admits resolves s ls s' -> acc s <> Selecting ->
    Forall (fun l => is_new_call l = false) ls -> length ls + mu s' <= mu s.
Proof. exact bounded_without_new_calls. Qed.

(* from every reachable state after the loop there is a continuation of at most [mu s] moves of
   tonic, hyper and the handlers (plus the preface of peers still in their handshake) to Done *)
Theorem c13_serve_can_return :
  forall admits resolves, hyper_contract admits resolves ->
  forall s,
    reachable admits resolves s -> acc s <> Selecting ->
    exists ls s', run admits resolves s ls s' /\
                  Forall (fun l => progress l = true \/ is_handshake l = true) ls /\
                  acc s' = Done /\ length ls <= mu s.
Proof. exact serve_can_return_reachable. Qed.

(* ---- the tie: what the harness's trace check means ----------------------------------------- *)
Theorem c13_checked_trace_is_a_run :
  forall evs, trace_ok evs = true ->
  exists ls s, run admits_std resolves_std init_st ls s /\
              observe ls = filter visible evs /\ acc s = Done.
Proof. exact trace_ok_sound. Qed.

Theorem c13_checked_trace_properties :
  forall evs, trace_ok evs = true ->
  let evs := filter visible evs in
  (forall e e1 e2 c, e = ESignal \/ e = EIncomingEnd -> evs = e1 ++ e :: e2 -> ~ In (EAccept c) e2) /\
  (forall e1 e2, evs = e1 ++ EServeReturned :: e2 ->
     e2 = [] /\ forall c, In (EAccept c) e1 -> In (EConnClosed c) e1 \/ In (EPeerAbort c) e1) /\
  (forall c k, In (ECallStart c k) evs -> In (ECallDone c k) evs \/ In (EPeerAbort c) evs).
Proof. exact trace_ok_properties. Qed.

(* the meaning of the harness event EQuiet ("nothing moved although every handler was let
   through"): the checker accepts it only in states where indeed no move of tonic / hyper / a
   handler is enabled *)
Theorem c13_quiet_only_when_stalled :
  forall admits resolves s, stalled_b s = true ->
  acc s = Draining AtWait /\ rx_count s <> 0 /\ only_silent s /\
  forall l s', step admits resolves s l s' -> progress l = false.
Proof. exact stalled_refuses_progress. Qed.

(* ---- non-vacuity ------------------------------------------------------------------------------ *)
(* the contract is satisfiable: the behaviour observed from hyper meets it *)
Example c13_hyper_contract_satisfiable : hyper_contract admits_std resolves_std.
Proof. exact hyper_std_contract. Qed.

(* a reachable state in the middle of a shutdown: two connections, the signal observed and sent,
   connection 0 told (one of its two calls already complete), connection 1 not yet told and
   still taking a call *)
Example c13_reachable_mid_shutdown :
  exists s,
    run admits_std resolves_std init_st
        [Accept 0%N; HandshakeDone 0%N; NewCall 0%N 7%N; Accept 1%N; HandshakeDone 1%N;
         NewCall 1%N 8%N; NewCall 0%N 9%N; SignalObserved; Send; ConnSeesChange 0%N;
         CallCompletes 0%N 7%N; DropAcceptorRx; NewCall 1%N 5%N] s /\
    acc s = Draining AtWait /\ sig_fused s = true /\ version s = 1 /\ rx_count s = 2 /\
    inflight s 0%N = [9%N] /\ inflight s 1%N = [5%N; 8%N] /\ mu s = 10.
Proof. eexists. split; [apply exec_run; reflexivity|repeat split]. Qed.

(* ... and a complete run: the late call on the told connection is impossible, everything
   drains, the serve future returns *)
Example c13_complete_run :
  exec admits_std resolves_std init_st
       [Accept 0%N; HandshakeDone 0%N; NewCall 0%N 7%N; SignalObserved; Send; ConnSeesChange 0%N;
        NewCall 0%N 8%N] = None /\
  exists s,
    run admits_std resolves_std init_st
        [Accept 0%N; HandshakeDone 0%N; NewCall 0%N 7%N; SignalObserved; Send; ConnSeesChange 0%N;
         DropAcceptorRx; CallCompletes 0%N 7%N; ConnCloses 0%N; DropReceiver 0%N; ServeReturns] s /\
    acc s = Done /\ all_closed s.
Proof.
  split; [reflexivity|]. eexists. split; [apply exec_run; reflexivity|].
  split; [reflexivity|]. intros c v. simpl.
  destruct c; intros H; [now injection H as <-|discriminate H].
Qed.

(* a peer that never speaks stalls the shutdown (the second disjunct of c13_no_deadlock) *)
Example c13_silent_peer_stalls :
  exists s,
    run admits_std resolves_std init_st
        [Accept 0%N; SignalObserved; Send; DropAcceptorRx; ConnSeesChange 0%N] s /\
    acc s = Draining AtWait /\ rx_count s = 1 /\ only_silent s /\
    forall l s', step admits_std resolves_std s l s' -> l = HandshakeDone 0%N \/ l = PeerAbort 0%N.
Proof.
  eexists. split; [apply exec_run; reflexivity|]. repeat split.
  - intros c v. simpl. destruct c; intros H; [|discriminate H].
    injection H as <-. right. eexists. reflexivity.
  - intros l s' H. unfold step in H.
    destruct l; simpl in H; try discriminate; destruct c; try discriminate; auto.
Qed.

Print Assumptions c13_no_accept_after_signal.
Print Assumptions c13_signal_once.
Print Assumptions c13_serve_returns_only_when_all_closed.
Print Assumptions c13_connections_closed_before_return.
Print Assumptions c13_accepted_calls_complete.
Print Assumptions c13_every_accepted_call_completed_before_return.
Print Assumptions c13_no_deadlock.
Print Assumptions c13_serve_can_return.
Print Assumptions c13_checked_trace_properties.
