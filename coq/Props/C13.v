(* C13 - graceful shutdown loses no accepted call.
   Statements only: each theorem is closed by [exact] of a lemma proved in Proofs/Shutdown.v.

   The model (Model/Shutdown.v) is the bookkeeping of serve_internal / serve_connection in
   tonic/src/transport/server/mod.rs as a labelled transition system; the theorems quantify over
   ALL runs: any number of connections and calls, any interleaving of the accept loop, the
   connection tasks, hyper, the peers and the handlers.

   hyper is not tonic's code.  It enters through two functions [admits] / [resolves] and the
   three laws of [hyper_contract]; every theorem that needs them says so.

   WHAT IS THEOREM AND WHAT IS SAMPLED, clause by clause of the property text:

   (a) "no connection is accepted after the signal".  THEOREM from the moment the accept loop
       OBSERVES the signal (label SignalObserved: select! polled the Fuse'd signal and took the
       branch): c13_no_accept_after_signal, c13_no_accept_enabled_after_signal.  Between the
       FIRING of the signal (SignalFires, the user's future becomes ready) and its observation the
       model - like the code - allows further Accepts: tonic's select! is not `biased`, tokio picks
       the branch order at random, so when the signal and the listener are ready in the same poll
       either may win, repeatedly (Example c13_accepts_between_firing_and_observation).  What is
       proved about that window: the signal branch stays enabled until it is taken
       (c13_signal_enabled_until_observed) - that it IS taken is tokio's fairness, which is not in
       the model.  SAMPLED by the harness (scenario kinds *.signal_vs_accept): how many connections
       that were ready together with the signal got accepted (0..n, roughly halving per round);
       each of them is served in full; at the first quiescent point after the firing the loop has
       always left the select (event EIdleAfterFire, checked in every run).
   (b) "every accepted call runs to completion".  In the model this is: tonic's connection task
       has NO step that drops a live connection (the select loop of serve_connection is left only
       when the hyper connection future resolves) PLUS law 2 of hyper_contract (hyper does not
       resolve the future while streams are in flight).  So the theorems
       (c13_accepted_call_survives_every_step, ...) are short; their content is the shape of the
       step relation, and a change such as `_ = &mut sig => break` in serve_connection is caught by
       the TIE (the harness sees ECallDropped / a caller without its outcome), not by a proof.
   (c) "its caller receives the full, true outcome": SAMPLED only (harness oracle + outcome
       comparison), for unary, server-streaming, client-streaming and bidirectional calls, the
       client still sending when the signal fires included.
   (d) "the serve future resolves only after all connections have closed - and does resolve once
       they have": THEOREM (c13_serve_returns_*, c13_connections_closed_before_return,
       c13_no_deadlock, c13_variant, c13_serve_can_return), liveness as a variant plus absence of
       deadlock, not as "eventually" under a scheduler.

   PARTIAL (not in the model): h2's frame handling beyond the two GOAWAY frames, tokio task
   scheduling and the fairness of select!, handler termination (CallCompletes is a progress
   step), message contents.
   Observed on the real crates and therefore in the model: a connection whose peer has not yet
   sent the HTTP/2 preface is not closed by the shutdown (hyper only notes close_pending), and
   the final GOAWAY waits for the peer's acknowledgement of the shutdown ping; the serve future
   then waits for that peer - [only_awaiting_peers] below. *)
From Coq Require Import List NArith Bool Arith.
From Verif Require Import Lib.Obs Model.Shutdown Proofs.Shutdown.
Import ListNotations.
Local Open Scope nat_scope.

(* ---- no connection is accepted after the signal -------------------------------------------- *)
Theorem c13_no_accept_after_signal :
  forall admits resolves ls s,
    run admits resolves init_st ls s ->
    forall l l1 l2, l = SignalObserved \/ l = IncomingEnd -> ls = l1 ++ l :: l2 ->
    forall c, ~ In (Accept c) l2.
Proof. exact no_accept_after_signal. Qed.

Theorem c13_no_accept_enabled_after_signal :
  forall admits resolves s,
    reachable admits resolves s -> sig_fused s = true ->
    forall c, step_fn admits resolves s (Accept c) = None.
Proof. exact no_accept_enabled_after_signal. Qed.

(* the Fuse'd signal is consumed once, the watch channel is written once, every connection
   reacts to it once *)
Theorem c13_signal_once :
  forall admits resolves ls s,
    run admits resolves init_st ls s ->
    count_occ label_eq_dec ls SignalObserved <= 1 /\
    count_occ label_eq_dec ls Send <= 1 /\
    version s <= 1 /\
    forall c, count_occ label_eq_dec ls (ConnSeesChange c) <= 1.
Proof. exact signal_once. Qed.

(* ---- the serve future resolves only after all connections have closed, and does then ------- *)
Theorem c13_serve_returns_only_when_all_closed :
  forall admits resolves s s',
    reachable admits resolves s -> step admits resolves s ServeReturns s' ->
    all_closed s /\ acc s' = Done.
Proof. exact serve_returns_only_when_all_closed. Qed.

Theorem c13_serve_returns_exactly_when_all_closed :
  forall admits resolves s,
    reachable admits resolves s -> acc s = Draining AtWait ->
    ((exists s', step admits resolves s ServeReturns s') <-> all_closed s).
Proof. exact serve_returns_iff_reachable. Qed.

(* in the history of any run that reached Done, every accepted connection's future resolved and
   its watch receiver was dropped *)
Theorem c13_connections_closed_before_return :
  forall admits resolves ls s,
    run admits resolves init_st ls s -> acc s = Done ->
    forall c, In (Accept c) ls ->
              In (DropReceiver c) ls /\ (In (ConnCloses c) ls \/ In (PeerAbort c) ls).
Proof. exact served_connections_closed_before_return. Qed.

(* the only thing that can still happen is the user's signal firing, unheard *)
Theorem c13_nothing_happens_after_return :
  forall admits resolves s l s',
    reachable admits resolves s -> acc s = Done -> step admits resolves s l s' ->
    l = SignalFires /\ acc s' = Done.
Proof. exact done_terminal_reachable. Qed.

(* ---- no accepted call is dropped -------------------------------------------------------------- *)
(* no step takes a call out of flight except its own completion or its own peer going away *)
Theorem c13_accepted_call_survives_every_step :
  forall admits resolves, hyper_contract admits resolves ->
  forall s l s' c k,
    step admits resolves s l s' -> In k (inflight s c) ->
    l <> CallCompletes c k -> l <> PeerAbort c -> In k (inflight s' c).
Proof. exact calls_preserved. Qed.

Theorem c13_accepted_calls_complete :
  forall admits resolves, hyper_contract admits resolves ->
  forall s ls s' c k,
    run admits resolves s ls s' -> In k (inflight s c) -> ~ In k (inflight s' c) ->
    In (CallCompletes c k) ls \/ In (PeerAbort c) ls.
Proof. exact accepted_calls_complete. Qed.

Theorem c13_every_accepted_call_completed_before_return :
  forall admits resolves, hyper_contract admits resolves ->
  forall ls s,
    run admits resolves init_st ls s -> acc s = Done ->
    forall c k, In (NewCall c k) ls -> In (CallCompletes c k) ls \/ In (PeerAbort c) ls.
Proof. exact every_accepted_call_completed. Qed.

Theorem c13_new_calls_only_before_final_goaway :
  forall admits resolves, hyper_contract admits resolves ->
  forall s c k s',
    step admits resolves s (NewCall c k) s' ->
    exists gs f hp infl,
      lookup c (conns s) = Some (Live Open gs f hp infl) /\ hp <> GFin /\ ~ In k infl.
Proof. exact new_call_only_before_final_goaway. Qed.

Theorem c13_no_new_call_after_final_goaway :
  forall admits resolves, hyper_contract admits resolves ->
  forall s ls s' c,
    run admits resolves s ls s' -> past_final s c -> forall k, ~ In (NewCall c k) ls.
Proof. exact no_new_call_past_final. Qed.

(* ---- the serve future can return: no deadlock, and a variant ------------------------------ *)
(* in every reachable state after the accept loop has been left, tonic / hyper / a handler can
   move - unless all that is left are peers that never sent their preface or have not
   acknowledged the shutdown ping *)
Theorem c13_no_deadlock :
  forall admits resolves, hyper_contract admits resolves ->
  forall s p,
    reachable admits resolves s -> acc s = Draining p ->
    (exists l s', step admits resolves s l s' /\ progress l = true) \/
    (p = AtWait /\ rx_count s <> 0 /\ only_awaiting_peers s).
Proof. exact no_deadlock_reachable. Qed.

(* [mu] = acceptor phase + per connection (open, not told, in handshake, calls in flight):
   every step except the arrival of a new call decreases it *)
Theorem c13_variant :
  forall admits resolves s l s',
    step admits resolves s l s' -> acc s <> Selecting -> is_new_call l = false -> mu s' < mu s.
Proof. exact step_decreases. Qed.

Theorem c13_shutdown_bounded :
  forall admits resolves s ls s',
    run admits resolves s ls s' -> acc s <> Selecting ->
    Forall (fun l => is_new_call l = false) ls -> length ls + mu s' <= mu s.
Proof. exact bounded_without_new_calls. Qed.

(* from every reachable state after the loop there is a continuation of at most [mu s] moves of
   tonic, hyper and the handlers (plus the preface of peers still in their handshake) to Done *)
Theorem c13_serve_can_return :
  forall admits resolves, hyper_contract admits resolves ->
  forall s,
    reachable admits resolves s -> acc s <> Selecting ->
    exists ls s', run admits resolves s ls s' /\
                  Forall (fun l => progress l = true \/ is_peer l = true) ls /\
                  acc s' = Done /\ length ls <= mu s.
Proof. exact serve_can_return_reachable. Qed.

(* ---- the window between the firing of the signal and its observation ---------------------- *)
Theorem c13_signal_fires_once :
  forall admits resolves ls s,
    run admits resolves init_st ls s -> count_occ label_eq_dec ls SignalFires <= 1.
Proof. exact signal_fires_once. Qed.

Theorem c13_pending_signal_can_be_observed :
  forall admits resolves s, sig_pending s ->
  exists s', step admits resolves s SignalObserved s' /\ acc s' = Draining AtSend.
Proof. exact pending_enables_observation. Qed.

Theorem c13_signal_enabled_until_observed :
  forall admits resolves s ls s',
    run admits resolves s ls s' -> sig_pending s ->
    ~ In SignalObserved ls -> ~ In IncomingEnd ls -> sig_pending s'.
Proof. exact signal_enabled_until_observed. Qed.

(* ---- the tie: what the harness's trace check means ----------------------------------------- *)
Theorem c13_checked_trace_is_a_run :
  forall age evs, trace_ok age evs = true ->
  exists ls s, run admits_std resolves_std init_st ls s /\
              observe ls = filter visible evs /\ acc s = Done.
Proof. exact trace_ok_sound. Qed.

Theorem c13_checked_trace_properties :
  forall age evs, trace_ok age evs = true ->
  let evs := filter visible evs in
  (forall e e1 e2 c, e = ESignal \/ e = EIncomingEnd -> evs = e1 ++ e :: e2 -> ~ In (EAccept c) e2) /\
  (forall e1 e2, evs = e1 ++ ESignal :: e2 -> In ESignalFired e1) /\
  (forall e1 e2, evs = e1 ++ EServeReturned :: e2 ->
     Forall (fun e => e = ESignalFired) e2 /\
     forall c, In (EAccept c) e1 -> In (EConnClosed c) e1 \/ In (EPeerAbort c) e1) /\
  (forall c k, In (ECallStart c k) evs -> In (ECallDone c k) evs \/ In (EPeerAbort c) evs) /\
  (forall e1 e2 c k, evs = e1 ++ EGoawayFinal c :: e2 -> ~ In (ECallStart c k) e2).
Proof. exact trace_ok_properties. Qed.

(* the meaning of the harness event EQuiet ("nothing moved although every handler was let
   through"): the checker accepts it only in states where indeed no move of tonic / hyper / a
   handler is enabled *)
Theorem c13_quiet_only_when_stalled :
  forall admits resolves s, stalled_b s = true ->
  acc s = Draining AtWait /\ rx_count s <> 0 /\ only_silent s /\
  forall l s', step admits resolves s l s' -> progress l = false.
Proof. exact stalled_refuses_progress. Qed.

(* ---- non-vacuity ------------------------------------------------------------------------------ *)
(* the contract is satisfiable: the behaviour observed from hyper meets it *)
Example c13_hyper_contract_satisfiable : hyper_contract admits_std resolves_std.
Proof. exact hyper_std_contract. Qed.

(* a reachable state in the middle of a shutdown: two connections, the signal fired, observed
   and sent, connection 0 told and its GOAWAY announcement out (one of its two calls already
   complete), connection 1 not yet told and still taking a call *)
Example c13_reachable_mid_shutdown :
  exists s,
    run admits_std resolves_std init_st
        [Accept 0%N; HandshakeDone 0%N; NewCall 0%N 7%N; Accept 1%N; HandshakeDone 1%N;
         NewCall 1%N 8%N; NewCall 0%N 9%N; SignalFires; SignalObserved; Send; ConnSeesChange 0%N;
         Goaway 0%N; CallCompletes 0%N 7%N; DropAcceptorRx; NewCall 1%N 5%N] s /\
    acc s = Draining AtWait /\ sig_fused s = true /\ version s = 1 /\ rx_count s = 2 /\
    inflight s 0%N = [9%N] /\ inflight s 1%N = [5%N; 8%N] /\ mu s = 13.
Proof. eexists. split; [apply exec_run; reflexivity|repeat split]. Qed.

(* ... and a complete run: a call in the window between the two GOAWAY frames is still admitted,
   one after the final GOAWAY is impossible, everything drains, the serve future returns *)
Example c13_complete_run :
  exec admits_std resolves_std init_st
       [Accept 0%N; HandshakeDone 0%N; NewCall 0%N 7%N; SignalFires; SignalObserved; Send;
        ConnSeesChange 0%N; Goaway 0%N; NewCall 0%N 6%N; GoawayFinal 0%N; NewCall 0%N 8%N] = None /\
  exists s,
    run admits_std resolves_std init_st
        [Accept 0%N; HandshakeDone 0%N; NewCall 0%N 7%N; SignalFires; SignalObserved; Send;
         ConnSeesChange 0%N; Goaway 0%N; NewCall 0%N 6%N; GoawayFinal 0%N; DropAcceptorRx;
         CallCompletes 0%N 7%N; CallCompletes 0%N 6%N; ConnCloses 0%N; DropReceiver 0%N;
         ServeReturns] s /\
    acc s = Done /\ all_closed s.
Proof.
  split; [reflexivity|]. eexists. split; [apply exec_run; reflexivity|].
  split; [reflexivity|]. intros c v. simpl.
  destruct c; intros H; [now injection H as <-|discriminate H].
Qed.

(* the signal has fired but select! keeps picking the listener: connections are accepted in
   between, the signal branch stays enabled, and once taken nothing more is accepted *)
Example c13_accepts_between_firing_and_observation :
  exists s,
    run admits_std resolves_std init_st [SignalFires; Accept 0%N; Accept 1%N; Accept 2%N] s /\
    sig_pending s /\
    exec admits_std resolves_std s [SignalObserved; Accept 3%N] = None /\
    exists s', step admits_std resolves_std s SignalObserved s'.
Proof.
  eexists. split; [apply exec_run; reflexivity|].
  split; [repeat split|]. split; [reflexivity|]. eexists. reflexivity.
Qed.

(* max_connection_age tells a connection without any signal *)
Example c13_age_tells_without_signal :
  exists s,
    run admits_std resolves_std init_st
        [Accept 0%N; HandshakeDone 0%N; NewCall 0%N 1%N; AgeExpires 0%N; Goaway 0%N;
         GoawayFinal 0%N; CallCompletes 0%N 1%N; ConnCloses 0%N; DropReceiver 0%N] s /\
    acc s = Selecting /\ rx_count s = 1 /\ all_closed s.
Proof.
  eexists. split; [apply exec_run; reflexivity|]. repeat split.
  intros c v. simpl. destruct c; intros H; [now injection H as <-|discriminate H].
Qed.

(* a peer that never speaks stalls the shutdown (the second disjunct of c13_no_deadlock) *)
Example c13_silent_peer_stalls :
  exists s,
    run admits_std resolves_std init_st
        [Accept 0%N; SignalFires; SignalObserved; Send; DropAcceptorRx; ConnSeesChange 0%N] s /\
    acc s = Draining AtWait /\ rx_count s = 1 /\ only_silent s /\
    forall l s', step admits_std resolves_std s l s' -> l = HandshakeDone 0%N \/ l = PeerAbort 0%N.
Proof.
  eexists. split; [apply exec_run; reflexivity|]. repeat split.
  - intros c v. simpl. destruct c; intros H; [|discriminate H].
    injection H as <-. right. eexists. eexists. reflexivity.
  - intros l s' H. unfold step in H.
    destruct l; simpl in H; try discriminate; destruct c; try discriminate; auto.
Qed.

Print Assumptions c13_no_accept_after_signal.
Print Assumptions c13_signal_once.
Print Assumptions c13_serve_returns_only_when_all_closed.
Print Assumptions c13_connections_closed_before_return.
Print Assumptions c13_accepted_calls_complete.
Print Assumptions c13_every_accepted_call_completed_before_return.
Print Assumptions c13_no_deadlock.
Print Assumptions c13_serve_can_return.
Print Assumptions c13_checked_trace_properties.
Print Assumptions c13_signal_enabled_until_observed.
Print Assumptions c13_no_new_call_after_final_goaway.
