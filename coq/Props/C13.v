(* C13 - graceful shutdown loses no accepted call.
   Statements only: each theorem is closed by [exact] of a lemma proved in Proofs/Shutdown.v.

   The model (Model/Shutdown.v) is the bookkeeping of serve_internal / serve_connection in
   tonic/src/transport/server/mod.rs as a labelled transition system; the theorems quantify over
   ALL runs: any number of connections and calls, any interleaving of the accept loop, the
   connection tasks, hyper, the peers and the handlers.

   hyper is not tonic's code.  It enters through two functions [admits] / [resolves] and the
   three laws of [hyper_contract]; every theorem that needs them says so.

   WHAT IS THEOREM AND WHAT IS SAMPLED, clause by clause of the property text:

   (a) "no connection is accepted after the signal".  THEOREM, counted from the FIRING of the
       signal (label SignalFires: the user's future becomes ready), for all runs:
       c13_no_accept_after_signal_fired, c13_listener_not_polled_once_fired.  This is so since the
       fix of finding F-C13a (`biased;` in serve_internal's select!, signal branch first): the loop
       polls the signal first in every iteration and polls the listener only when the signal is
       still pending.  Before the fix the branch order was random, a ready listener won against a
       ready signal half of the time, again and again, and the model had to allow Accept between
       SignalFires and SignalObserved.  That the select loop IS LEFT is a theorem too:
       c13_first_select_move_after_firing (in the window the loop has one move, SignalObserved)
       and c13_select_loop_left (over whole runs).  What remains assumed is that the runtime polls
       the woken accept task at all.  SAMPLED in addition: the harness counts connections accepted
       after the firing in every run (must be 0; corpus.F-C13a are the witnesses of the finding),
       and a listener that stays permanently ready while the signal fires (kinds *.flood) shows
       that no supply of ready connections delays the observation.
   (b) "every accepted call runs to completion".  In the model this is: tonic's connection task
       has NO step that drops a live connection (the select loop of serve_connection is left only
       when the hyper connection future resolves) PLUS law 2 of hyper_contract (hyper does not
       resolve the future while streams are in flight).  So the theorems
       (c13_accepted_call_survives_every_step, ...) are short; their content is the shape of the
       step relation, and a change such as `_ = &mut sig => break` in serve_connection is caught by
       the TIE (the harness sees ECallDropped / a caller without its outcome), not by a proof.
   (c) "its caller receives the full, true outcome": SAMPLED only (harness oracle + outcome
       comparison), for unary, server-streaming, client-streaming and bidirectional calls, the
       client still sending when the signal fires included.
   (d) "the serve future resolves only after all connections have closed - and does resolve once
       they have": THEOREM (c13_serve_returns_*, c13_connections_closed_before_return,
       c13_no_deadlock, c13_variant, c13_serve_can_return), liveness as a variant plus absence of
       deadlock, not as "eventually" under a scheduler.

   PARTIAL (not in the model): h2's frame handling beyond the two GOAWAY frames, tokio task
   scheduling (that a woken task is polled), handler termination (CallCompletes is a progress
   step), message contents.
   [http1] is Server::accept_http1: it changes what graceful_shutdown does to a connection whose
   peer has not spoken yet (see Model/Shutdown.v); every theorem holds for both values.
   Observed on the real crates and therefore in the model: a connection whose peer has not yet
   sent the HTTP/2 preface is not closed by the shutdown (hyper only notes close_pending), and
   the final GOAWAY waits for the peer's acknowledgement of the shutdown ping; the serve future
   then waits for that peer - [only_awaiting_peers] below. *)
From Coq Require Import List NArith Bool Arith.
From Verif Require Import Lib.Obs Model.Shutdown Proofs.Shutdown.
Import ListNotations.
Local Open Scope nat_scope.

(* ---- no connection is accepted after the signal -------------------------------------------- *)
(* ... counted from the moment the signal FIRED *)
Theorem c13_no_accept_after_signal_fired :
  forall http1 admits resolves ls s,
    run http1 admits resolves init_st ls s ->
    forall l1 l2, ls = l1 ++ SignalFires :: l2 -> forall c, ~ In (Accept c) l2.
Proof. exact no_accept_after_fire. Qed.

(* once the signal future is ready the listener is not polled any more: none of the outcomes of
   incoming.next() is enabled, in any state *)
Theorem c13_listener_not_polled_once_fired :
  forall http1 admits resolves s, sig_ready s = true ->
    (forall c, step_fn http1 admits resolves s (Accept c) = None) /\
    step_fn http1 admits resolves s IncomingErr = None /\
    step_fn http1 admits resolves s IncomingEnd = None.
Proof. exact listener_not_polled_when_fired. Qed.

(* ... and from the end of the listener *)
Theorem c13_no_accept_after_signal :
  forall http1 admits resolves ls s,
    run http1 admits resolves init_st ls s ->
    forall l l1 l2, l = SignalObserved \/ l = IncomingEnd -> ls = l1 ++ l :: l2 ->
    forall c, ~ In (Accept c) l2.
Proof. exact no_accept_after_signal. Qed.

Theorem c13_no_accept_enabled_after_signal :
  forall http1 admits resolves s,
    reachable http1 admits resolves s -> sig_fused s = true ->
    forall c, step_fn http1 admits resolves s (Accept c) = None.
Proof. exact no_accept_enabled_after_signal. Qed.

(* the Fuse'd signal is consumed once, the watch channel is written once, every connection
   reacts to it once *)
Theorem c13_signal_once :
  forall http1 admits resolves ls s,
    run http1 admits resolves init_st ls s ->
    count_occ label_eq_dec ls SignalObserved <= 1 /\
    count_occ label_eq_dec ls Send <= 1 /\
    version s <= 1 /\
    forall c, count_occ label_eq_dec ls (ConnSeesChange c) <= 1.
Proof. exact signal_once. Qed.

(* watch::Sender::send never fails in serve_internal (the accept loop still holds signal_rx):
   the error branch of [step_fn] is dead, the version always becomes 1 *)
Theorem c13_send_always_delivers :
  forall http1 admits resolves s s',
    reachable http1 admits resolves s -> step http1 admits resolves s Send s' ->
    rx_count s <> 0 /\ version s = 0 /\ version s' = 1.
Proof. exact send_always_delivers. Qed.

(* ---- the serve future resolves only after all connections have closed, and does then ------- *)
Theorem c13_serve_returns_only_when_all_closed :
  forall http1 admits resolves s s',
    reachable http1 admits resolves s -> step http1 admits resolves s ServeReturns s' ->
    all_closed s /\ acc s' = Done.
Proof. exact serve_returns_only_when_all_closed. Qed.

Theorem c13_serve_returns_exactly_when_all_closed :
  forall http1 admits resolves s,
    reachable http1 admits resolves s -> acc s = Draining AtWait ->
    ((exists s', step http1 admits resolves s ServeReturns s') <-> all_closed s).
Proof. exact serve_returns_iff_reachable. Qed.

(* in the history of any run that reached Done, every accepted connection's future resolved and
   its watch receiver was dropped *)
Theorem c13_connections_closed_before_return :
  forall http1 admits resolves ls s,
    run http1 admits resolves init_st ls s -> acc s = Done ->
    forall c, In (Accept c) ls ->
              In (DropReceiver c) ls /\ (In (ConnCloses c) ls \/ In (PeerAbort c) ls).
Proof. exact served_connections_closed_before_return. Qed.

(* the only thing that can still happen is the user's signal firing, unheard *)
Theorem c13_nothing_happens_after_return :
  forall http1 admits resolves s l s',
    reachable http1 admits resolves s -> acc s = Done -> step http1 admits resolves s l s' ->
    l = SignalFires /\ acc s' = Done.
Proof. exact done_terminal_reachable. Qed.

(* ---- no accepted call is dropped -------------------------------------------------------------- *)
(* no step takes a call out of flight except its own completion or its own peer going away *)
Theorem c13_accepted_call_survives_every_step :
  forall http1 admits resolves, hyper_contract admits resolves ->
  forall s l s' c k,
    step http1 admits resolves s l s' -> In k (inflight s c) ->
    l <> CallCompletes c k -> l <> PeerAbort c -> In k (inflight s' c).
Proof. exact calls_preserved. Qed.

Theorem c13_accepted_calls_complete :
  forall http1 admits resolves, hyper_contract admits resolves ->
  forall s ls s' c k,
    run http1 admits resolves s ls s' -> In k (inflight s c) -> ~ In k (inflight s' c) ->
    In (CallCompletes c k) ls \/ In (PeerAbort c) ls.
Proof. exact accepted_calls_complete. Qed.

Theorem c13_every_accepted_call_completed_before_return :
  forall http1 admits resolves, hyper_contract admits resolves ->
  forall ls s,
    run http1 admits resolves init_st ls s -> acc s = Done ->
    forall c k, In (NewCall c k) ls -> In (CallCompletes c k) ls \/ In (PeerAbort c) ls.
Proof. exact every_accepted_call_completed. Qed.

Theorem c13_new_calls_only_before_final_goaway :
  forall http1 admits resolves, hyper_contract admits resolves ->
  forall s c k s',
    step http1 admits resolves s (NewCall c k) s' ->
    exists gs f hp infl,
      lookup c (conns s) = Some (Live Open gs f hp infl) /\ hp <> GFin /\ ~ In k infl.
Proof. exact new_call_only_before_final_goaway. Qed.

Theorem c13_no_new_call_after_final_goaway :
  forall http1 admits resolves, hyper_contract admits resolves ->
  forall s ls s' c,
    run http1 admits resolves s ls s' -> past_final s c -> forall k, ~ In (NewCall c k) ls.
Proof. exact no_new_call_past_final. Qed.

(* ---- the serve future can return: no deadlock, and a variant ------------------------------ *)
(* in every reachable state after the accept loop has been left, tonic / hyper / a handler can
   move - unless all that is left are peers that have not acknowledged the shutdown ping or
   (http2 only, the default) never sent their preface *)
Theorem c13_no_deadlock :
  forall http1 admits resolves, hyper_contract admits resolves ->
  forall s p,
    reachable http1 admits resolves s -> acc s = Draining p ->
    (exists l s', step http1 admits resolves s l s' /\ progress l = true) \/
    (p = AtWait /\ rx_count s <> 0 /\ only_awaiting_peers http1 s).
Proof. exact no_deadlock_reachable. Qed.

(* [mu] = acceptor phase + per connection (open, not told, in handshake, calls in flight):
   every step except the arrival of a new call decreases it *)
Theorem c13_variant :
  forall http1 admits resolves s l s',
    step http1 admits resolves s l s' -> acc s <> Selecting -> is_new_call l = false ->
    mu s' < mu s.
Proof. exact step_decreases. Qed.

Theorem c13_shutdown_bounded :
  forall http1 admits resolves s ls s',
    run http1 admits resolves s ls s' -> acc s <> Selecting ->
    Forall (fun l => is_new_call l = false) ls -> length ls + mu s' <= mu s.
Proof. exact bounded_without_new_calls. Qed.

(* from every reachable state after the loop there is a continuation of at most [mu s] moves of
   tonic, hyper and the handlers (plus the preface of peers still in their handshake) to Done *)
Theorem c13_serve_can_return :
  forall http1 admits resolves, hyper_contract admits resolves ->
  forall s,
    reachable http1 admits resolves s -> acc s <> Selecting ->
    exists ls s', run http1 admits resolves s ls s' /\
                  Forall (fun l => progress l = true \/ is_peer l = true) ls /\
                  acc s' = Done /\ length ls <= mu s.
Proof. exact serve_can_return_reachable. Qed.

(* ---- the window between the firing of the signal and its observation ---------------------- *)
Theorem c13_signal_fires_once :
  forall http1 admits resolves ls s,
    run http1 admits resolves init_st ls s -> count_occ label_eq_dec ls SignalFires <= 1.
Proof. exact signal_fires_once. Qed.

Theorem c13_pending_signal_can_be_observed :
  forall http1 admits resolves s, sig_pending s ->
  exists s', step http1 admits resolves s SignalObserved s' /\ acc s' = Draining AtSend.
Proof. exact pending_enables_observation. Qed.

Theorem c13_signal_enabled_until_observed :
  forall http1 admits resolves s ls s',
    run http1 admits resolves s ls s' -> sig_pending s ->
    ~ In SignalObserved ls -> sig_pending s'.
Proof. exact signal_enabled_until_observed. Qed.

(* in the window the select loop (Accept / IncomingErr / IncomingEnd / SignalObserved) has exactly
   one move: taking the signal branch, which leaves the loop *)
Theorem c13_first_select_move_after_firing :
  forall http1 admits resolves s l s',
    sig_pending s -> step http1 admits resolves s l s' -> is_select_move l = true ->
    l = SignalObserved /\ acc s' = Draining AtSend.
Proof. exact pending_select_move. Qed.

(* the select loop is left: along any run from the window, either the accept loop has not moved
   yet (and the signal branch is still enabled) or its first move was to take the signal branch *)
Theorem c13_select_loop_left :
  forall http1 admits resolves s ls s',
    run http1 admits resolves s ls s' -> sig_pending s ->
    (Forall (fun l => is_select_move l = false) ls /\ sig_pending s') \/
    (exists l1 l2, ls = l1 ++ SignalObserved :: l2 /\
                   Forall (fun l => is_select_move l = false) l1).
Proof. exact selecting_left. Qed.

(* ---- the tie: what the harness's trace check means ----------------------------------------- *)
Theorem c13_checked_trace_is_a_run :
  forall age http1 evs, trace_ok age http1 evs = true ->
  exists ls s, run http1 admits_std resolves_std init_st ls s /\
              observe ls = filter visible evs /\ acc s = Done.
Proof. exact trace_ok_sound. Qed.

Theorem c13_checked_trace_properties :
  forall age http1 evs, trace_ok age http1 evs = true ->
  let evs := filter visible evs in
  (forall e e1 e2 c, e = ESignalFired \/ e = ESignal \/ e = EIncomingEnd ->
                     evs = e1 ++ e :: e2 -> ~ In (EAccept c) e2) /\
  (forall e1 e2, evs = e1 ++ ESignal :: e2 -> In ESignalFired e1) /\
  (forall e1 e2, evs = e1 ++ EServeReturned :: e2 ->
     Forall (fun e => e = ESignalFired) e2 /\
     forall c, In (EAccept c) e1 -> In (EConnClosed c) e1 \/ In (EPeerAbort c) e1) /\
  (forall c k, In (ECallStart c k) evs -> In (ECallDone c k) evs \/ In (EPeerAbort c) evs) /\
  (forall e1 e2 c k, evs = e1 ++ EGoawayFinal c :: e2 -> ~ In (ECallStart c k) e2).
Proof. exact trace_ok_properties. Qed.

(* the meaning of the harness mark EIdleAfterFire ("the first quiescent point after the signal
   fired"): the checker accepts it only if by then the accept loop has taken the signal branch (or
   seen the listener end) - together with c13_checked_trace_properties: and has accepted nothing
   since the firing *)
Theorem c13_idle_mark_means_loop_left :
  forall age http1 evs, trace_ok age http1 evs = true ->
  forall e1 e2, evs = e1 ++ EIdleAfterFire :: e2 -> In ESignal e1 \/ In EIncomingEnd e1.
Proof. exact idle_after_fire_means_left. Qed.

(* the meaning of the harness event EQuiet ("nothing moved although every handler was let
   through"): the checker accepts it only in states where indeed no move of tonic / hyper / a
   handler is enabled - and with accept_http1 in no state that still has an open connection *)
Theorem c13_quiet_only_when_stalled :
  forall http1 admits resolves s, stalled_b http1 s = true ->
  acc s = Draining AtWait /\ rx_count s <> 0 /\ only_silent s /\
  (http1 = true -> all_closed s) /\
  forall l s', step http1 admits resolves s l s' -> progress l = false.
Proof. exact stalled_refuses_progress. Qed.

(* the tcp kinds (serve_with_shutdown over 127.0.0.1): accepts, GOAWAY frames and closes are not
   observable there and are filled in by [complete_tcp] before the same checker runs.  The
   completion keeps every observed event, in order, and adds unobservable ones only ... *)
Theorem c13_tcp_completion_keeps_the_observed :
  forall evs known, Forall (fun e => tcp_hidden e = false) evs ->
  filter (fun e => negb (tcp_hidden e)) (complete_tcp known evs) = evs.
Proof. exact complete_tcp_keeps. Qed.

(* ... so an accepted tcp trace is the observable part of a complete run of the system *)
Theorem c13_tcp_checked_trace_is_a_run :
  forall evs, trace_ok false false (complete_tcp [] evs) = true ->
  Forall (fun e => tcp_hidden e = false) evs ->
  exists ls s, run false admits_std resolves_std init_st ls s /\
               filter (fun e => negb (tcp_hidden e)) (observe ls) = filter visible evs /\
               acc s = Done.
Proof. exact tcp_trace_sound. Qed.

(* ---- non-vacuity ------------------------------------------------------------------------------ *)
(* the contract is satisfiable: the behaviour observed from hyper meets it *)
Example c13_hyper_contract_satisfiable : hyper_contract admits_std resolves_std.
Proof. exact hyper_std_contract. Qed.

(* a reachable state in the middle of a shutdown: two connections, the signal fired, observed
   and sent, connection 0 told and its GOAWAY announcement out (one of its two calls already
   complete), connection 1 not yet told and still taking a call *)
Example c13_reachable_mid_shutdown :
  exists s,
    run false admits_std resolves_std init_st
        [Accept 0%N; HandshakeDone 0%N; NewCall 0%N 7%N; Accept 1%N; HandshakeDone 1%N;
         NewCall 1%N 8%N; NewCall 0%N 9%N; SignalFires; SignalObserved; Send; ConnSeesChange 0%N;
         Goaway 0%N; CallCompletes 0%N 7%N; DropAcceptorRx; NewCall 1%N 5%N] s /\
    acc s = Draining AtWait /\ sig_fused s = true /\ version s = 1 /\ rx_count s = 2 /\
    inflight s 0%N = [9%N] /\ inflight s 1%N = [5%N; 8%N] /\ mu s = 13.
Proof. eexists. split; [apply exec_run; reflexivity|repeat split]. Qed.

(* ... and a complete run: a call in the window between the two GOAWAY frames is still admitted,
   one after the final GOAWAY is impossible, everything drains, the serve future returns *)
Example c13_complete_run :
  exec false admits_std resolves_std init_st
       [Accept 0%N; HandshakeDone 0%N; NewCall 0%N 7%N; SignalFires; SignalObserved; Send;
        ConnSeesChange 0%N; Goaway 0%N; NewCall 0%N 6%N; GoawayFinal 0%N; NewCall 0%N 8%N] = None /\
  exists s,
    run false admits_std resolves_std init_st
        [Accept 0%N; HandshakeDone 0%N; NewCall 0%N 7%N; SignalFires; SignalObserved; Send;
         ConnSeesChange 0%N; Goaway 0%N; NewCall 0%N 6%N; GoawayFinal 0%N; DropAcceptorRx;
         CallCompletes 0%N 7%N; CallCompletes 0%N 6%N; ConnCloses 0%N; DropReceiver 0%N;
         ServeReturns] s /\
    acc s = Done /\ all_closed s.
Proof.
  split; [reflexivity|]. eexists. split; [apply exec_run; reflexivity|].
  split; [reflexivity|]. intros c v. simpl.
  destruct c; intros H; [now injection H as <-|discriminate H].
Qed.

(* the window between firing and observation exists (the accept task has not been polled yet, the
   connection tasks move on), nothing is accepted in it, and the one move of the select loop is to
   leave - the hypotheses of c13_first_select_move_after_firing / c13_select_loop_left are met by
   a reachable state *)
Example c13_window_between_firing_and_observation :
  exists s,
    run false admits_std resolves_std init_st
        [Accept 0%N; SignalFires; HandshakeDone 0%N; NewCall 0%N 4%N] s /\
    sig_pending s /\
    exec false admits_std resolves_std s [Accept 1%N] = None /\
    exec false admits_std resolves_std s [IncomingErr] = None /\
    exec false admits_std resolves_std s [IncomingEnd] = None /\
    exists s', step false admits_std resolves_std s SignalObserved s'.
Proof.
  eexists. split; [apply exec_run; reflexivity|].
  split; [repeat split|]. repeat split; try reflexivity. eexists. reflexivity.
Qed.

(* max_connection_age tells a connection without any signal *)
Example c13_age_tells_without_signal :
  exists s,
    run false admits_std resolves_std init_st
        [Accept 0%N; HandshakeDone 0%N; NewCall 0%N 1%N; AgeExpires 0%N; Goaway 0%N;
         GoawayFinal 0%N; CallCompletes 0%N 1%N; ConnCloses 0%N; DropReceiver 0%N] s /\
    acc s = Selecting /\ rx_count s = 1 /\ all_closed s.
Proof.
  eexists. split; [apply exec_run; reflexivity|]. repeat split.
  intros c v. simpl. destruct c; intros H; [now injection H as <-|discriminate H].
Qed.

(* a peer that never speaks stalls the shutdown of an http2-only server (the second disjunct of
   c13_no_deadlock) ... *)
Example c13_silent_peer_stalls :
  exists s,
    run false admits_std resolves_std init_st
        [Accept 0%N; SignalFires; SignalObserved; Send; DropAcceptorRx; ConnSeesChange 0%N] s /\
    acc s = Draining AtWait /\ rx_count s = 1 /\ only_silent s /\
    forall l s', step false admits_std resolves_std s l s' ->
                 l = HandshakeDone 0%N \/ l = PeerAbort 0%N.
Proof.
  eexists. split; [apply exec_run; reflexivity|]. repeat split.
  - intros c v. simpl. destruct c; intros H; [|discriminate H].
    injection H as <-. right. eexists. eexists. reflexivity.
  - intros l s' H. unfold step in H.
    destruct l; simpl in H; try discriminate; destruct c; try discriminate; auto.
Qed.

(* ... with accept_http1 the same connection is closed by the shutdown (its version detection is
   cancelled) and the serve future returns; without, that continuation does not exist *)
Example c13_silent_peer_closed_with_http1 :
  (exists s,
     run true admits_std resolves_std init_st
         [Accept 0%N; SignalFires; SignalObserved; Send; DropAcceptorRx; ConnSeesChange 0%N;
          ConnCloses 0%N; DropReceiver 0%N; ServeReturns] s /\ acc s = Done) /\
  exec false admits_std resolves_std init_st
       [Accept 0%N; SignalFires; SignalObserved; Send; DropAcceptorRx; ConnSeesChange 0%N;
        ConnCloses 0%N] = None /\
  exec true admits_std resolves_std init_st
       [Accept 0%N; SignalFires; SignalObserved; Send; DropAcceptorRx; ConnSeesChange 0%N;
        HandshakeDone 0%N] = None.
Proof.
  split; [eexists; split; [apply exec_run; reflexivity|reflexivity]|]. split; reflexivity.
Qed.

(* the checker on a tcp trace: accept, GOAWAYs and close are filled in; a call still running when
   the serve future returns, or one starting on a connection first seen after the signal, is
   refused *)
Example c13_tcp_checker :
  trace_ok false false (complete_tcp []
    [ECallStart 0 7; ECallDone 0 7; ECallStart 0 1; ESignalFired; ESignal; ECallDone 0 1;
     EServeReturned]%N) = true /\
  trace_ok false false (complete_tcp []
    [ECallStart 0 7; ECallDone 0 7; ECallStart 0 1; ESignalFired; ESignal;
     EServeReturned; ECallDone 0 1]%N) = false /\
  trace_ok false false (complete_tcp []
    [ECallStart 0 7; ECallDone 0 7; ESignalFired; ESignal; ECallStart 1 2; ECallDone 1 2;
     EServeReturned]%N) = false.
Proof. repeat split; vm_compute; reflexivity. Qed.

Print Assumptions c13_no_accept_after_signal_fired.
Print Assumptions c13_listener_not_polled_once_fired.
Print Assumptions c13_no_accept_after_signal.
Print Assumptions c13_signal_once.
Print Assumptions c13_send_always_delivers.
Print Assumptions c13_serve_returns_only_when_all_closed.
Print Assumptions c13_connections_closed_before_return.
Print Assumptions c13_accepted_calls_complete.
Print Assumptions c13_every_accepted_call_completed_before_return.
Print Assumptions c13_no_deadlock.
Print Assumptions c13_serve_can_return.
Print Assumptions c13_checked_trace_properties.
Print Assumptions c13_signal_enabled_until_observed.
Print Assumptions c13_first_select_move_after_firing.
Print Assumptions c13_select_loop_left.
Print Assumptions c13_no_new_call_after_final_goaway.
Print Assumptions c13_tcp_checked_trace_is_a_run.
Print Assumptions c13_idle_mark_means_loop_left.
