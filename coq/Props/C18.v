(* C18 - the health service reports the latest status to Check and Watch.
   Statements only: each theorem is closed by [exact] of a lemma proved in Proofs/Health.v.

   Vocabulary (Model/Health.v, Proofs/Health.v):
     op            SetBy n k | Clear n | Check n | Watch n | Next w   (Next = one poll of stream w)
                   SetBy n (Direct v) = SetS n v      : set_service_status(n, v)
                   SetBy n ViaServing = SetServing n  : set_serving::<S>()      with S::NAME = n
                   SetBy n ViaNotServing = SetNotServing n : set_not_serving::<S>() with S::NAME = n
                   (setter_status k is the status the call sets: v, Serving, NotServing)
                   The whole documented API of HealthReporter is in the alphabet: every theorem
                   below quantifies over histories that may use any of the three ways to set.
     run / trace   the real service's model executed over a history, from [init] ("" is SERVING)
     spec_map h    the specification: a plain map name -> option status replayed over h
     subscribed h1 n w v0   after h1, [Watch n] opened stream w while the map held v0 for n
     svc_hist n v0 a        v0 followed by the statuses set for n in a, up to the first [Clear n]
     reports w t            the statuses stream w reported along trace t
   All theorems quantify over ALL histories (lists of operations of any length, any names, any
   number of streams); there is no bound.  The second half of the file is about CONCURRENT
   executions (any number of tasks, any schedule); its vocabulary is introduced there. *)
From Coq Require Import List NArith Bool Permutation.
From Verif Require Import Lib.Obs Model.Health Proofs.Health.
Import ListNotations.
Open Scope N_scope.

(* Check n = the most recently set status of n; SERVING for "" by default; NOT_FOUND for a name
   never set or since cleared (spec_map is exactly that map) *)
Theorem c18_check_refines_map : forall h n,
  snd (step (run init h) (Check n)) =
  match spec_map h n with Some v => OStatus v | None => ONotFound end.
Proof. exact check_refines_map. Qed.

Theorem c18_watch_refines_map : forall h n,
  snd (step (run init h) (Watch n)) =
  match spec_map h n with
  | Some _ => OWatch (length (watchers (run init h)))
  | None => ONotFound
  end.
Proof. exact watch_refines_map. Qed.

(* the [expect] in set_service_status never fires, and one poll of the response stream never
   needs a second encoder iteration *)
Theorem c18_never_panics : forall h ox,
  In ox (trace init h) -> snd ox <> OPanic /\ snd ox <> OFuel.
Proof. exact never_panics_never_out_of_fuel. Qed.

(* the first poll reports the last status of the service history up to that poll: the
   subscription-time status, or the later one it was coalesced with *)
Theorem c18_watch_first_is_current : forall h1 n w v0 a,
  subscribed h1 n w v0 -> no_next w a = true ->
  snd (step (run init (h1 ++ Watch n :: a)) (Next w)) = OItem (last (svc_hist n v0 a) v0).
Proof. exact watch_first_is_current. Qed.

(* ... and while the service stays registered that is the status Check would return *)
Theorem c18_history_end_is_current_status : forall h1 n v0 a,
  spec_map h1 n = Some v0 -> cleared n a = false ->
  spec_map (h1 ++ Watch n :: a) n = Some (last (svc_hist n v0 a) v0).
Proof. exact spec_map_current. Qed.

(* what a stream reports is a subsequence of the statuses its service had since subscription
   (intermediate updates may be coalesced, nothing is invented or reordered) *)
Theorem c18_watch_reports_are_subsequence : forall h1 n w v0 h2,
  subscribed h1 n w v0 ->
  Subseq (reports w (trace init (h1 ++ Watch n :: h2))) (svc_hist n v0 h2).
Proof. exact watch_reports_are_subsequence. Qed.

Theorem c18_watch_never_reports_foreign_status : forall h1 n w v0 h2 v,
  subscribed h1 n w v0 ->
  In v (reports w (trace init (h1 ++ Watch n :: h2))) ->
  v = v0 \/ exists k : setter, In (SetBy n k) h2 /\ setter_status k = v.
Proof. exact watch_never_reports_foreign_status. Qed.

(* while the service stays registered: one more poll brings the stream to the latest status
   (it reports it, or it is pending because that was its last report), and as long as no update
   or clear of n follows, every further poll is pending *)
Theorem c18_watch_converges : forall h1 n w v0 h2 c,
  subscribed h1 n w v0 -> cleared n h2 = false ->
  no_set n c = true -> cleared n c = false ->
  let h := h1 ++ Watch n :: h2 in
  exists v, spec_map h n = Some v /\
    (let o := snd (step (run init h) (Next w)) in
     o = OItem v \/
     (o = OPending /\ reports w (trace init h) <> [] /\ last (reports w (trace init h)) v0 = v)) /\
    Forall (fun ox => fst ox = Next w -> snd ox = OPending) (trace (run init (h ++ [Next w])) c).
Proof. exact watch_converges. Qed.

(* clearing the service ends its streams: a status the stream had not been shown yet
   ([unreported]: the subscription-time status or a set since its last poll) is reported first,
   then the stream ends; otherwise it ends at once.  [b] is anything that happens in between
   (including registering the name again) except polls of this stream. *)
Theorem c18_clear_ends_stream_after_unseen : forall h1 n w v0 a b,
  subscribed h1 n w v0 -> cleared n a = false -> no_next w b = true ->
  let h := h1 ++ Watch n :: a ++ Clear n :: b in
  if unreported n w true a
  then snd (step (run init h) (Next w)) = OItem (last (svc_hist n v0 a) v0) /\
       snd (step (run init (h ++ [Next w])) (Next w)) = OEnd
  else snd (step (run init h) (Next w)) = OEnd.
Proof. exact clear_ends_stream_after_unseen. Qed.

Theorem c18_end_only_after_clear : forall h1 n w v0 h2,
  subscribed h1 n w v0 ->
  snd (step (run init (h1 ++ Watch n :: h2)) (Next w)) = OEnd -> cleared n h2 = true.
Proof. exact end_only_after_clear. Qed.

Theorem c18_end_is_final : forall h1 n w v0 h2 c,
  subscribed h1 n w v0 ->
  snd (step (run init (h1 ++ Watch n :: h2)) (Next w)) = OEnd ->
  Forall (fun ox => fst ox = Next w -> snd ox = OEnd)
         (trace (run init ((h1 ++ Watch n :: h2) ++ [Next w])) c).
Proof. exact end_is_final. Qed.

(* ---- concurrent executions ----
   Vocabulary (Model/Health.v "concurrent executions", Proofs/Health.v):
     cstep / cexec   a machine in which every call of the service is split into the steps between
                     which another task can run - invocation, acquisition of the tokio RwLock
                     (write() in set_service_status / set_serving / set_not_serving /
                     clear_service_status, read() in check / watch; a write guard excludes every
                     other guard, read guards are shared), the map lookup under the guard, the
                     effect under the guard (tx.send / insert / remove / borrow / rx.clone, after
                     which the guard is dropped), return; a poll of a response stream takes no
                     lock and is one step.  Any number of tasks, any schedule (list event).
     g_hist c        the calls that have returned, each with the time of its invocation, the time
                     of its return, and what it returned: all an observer sees of a run.
                     [Next k] in such a record = a poll of the stream opened by the Watch call
                     invoked at time k.
     concretise      the sequential history (list op, with the model's stream numbers) that an
                     order of calls stands for
     seq_exact order every call returned exactly what [step] returns on that sequential history
     lin_points order eff   each call takes effect at a moment between its invocation and its
                     return, and [order] is the order of those moments
     lin_check       the search the harness evaluates (through obs_conc) on every concurrent
                     history it records of the REAL service
   THEOREM (c18_concurrent_linearizable, c18_quiescent_history_linearizable): every execution of
   the machine is linearizable - its calls can be ordered by effect moments that lie inside the
   calls' real-time intervals so that every call returns what the sequential model returns, and
   the shared state is the sequential model's state; hence every theorem above holds of that
   order.  What is NOT proved: that tonic-health refines the machine.  That rests on reading
   server.rs (one acquisition per call, nothing awaited under a guard, the guard of watch lives to
   the end of its match) and on tokio (RwLock exclusion; Sender::send, borrow_and_update and
   changed() atomic on a channel; a poll of a response stream is ONE atomic step here, whereas
   under real parallelism a send may fall between the two source polls of one encoder poll - the
   second item is then buffered in the client's Streaming and handed out by the next poll), and
   it is SAMPLED on every run: the interleave.* kinds record the real service's concurrent
   histories (2 and 3 tasks, task switches at every cooperative yield point) and
   c18_machine_histories_pass_check says a refinement of the machine can never fail the check
   they evaluate; wake samples the wake-ups (not modelled), stress real preemption and lock
   contention (safety, read-your-writes, convergence, end of cleared streams). *)
Theorem c18_concurrent_linearizable : forall e c, cexec cinit e c ->
  exists order eff,
    (forall h, In h (g_hist c) -> In h order) /\
    (forall p, In p order -> In p (g_hist c) \/ pending_done c p) /\
    NoDup (map co_inv order) /\
    seq_exact order /\
    lin_points order eff /\
    g_st c = run init (concretise init [] order).
Proof. exact concurrent_linearizable. Qed.

Theorem c18_quiescent_history_linearizable : forall e c,
  cexec cinit e c -> (forall t, g_th c t = PIdle) ->
  exists order eff,
    (Permutation order (g_hist c) /\ seq_exact order /\ lin_points order eff) /\
    g_st c = run init (concretise init [] order).
Proof. exact quiescent_linearizable. Qed.

(* effect moments inside the intervals give the usual real-time condition *)
Theorem c18_lin_points_respect_real_time : forall order eff, lin_points order eff -> rt_ok order.
Proof. exact lin_points_rt. Qed.

(* the tie: what the harness evaluates on the real service's concurrent histories *)
Theorem c18_machine_histories_pass_check : forall e c,
  cexec cinit e c -> (forall t, g_th c t = PIdle) -> lin_check (g_hist c) = true.
Proof. exact lin_check_complete. Qed.
Theorem c18_check_pass_means_linearizable : forall h, lin_check h = true ->
  exists order, Permutation order h /\ seq_abs order /\ rt_ok order.
Proof. exact lin_check_sound. Qed.

(* the [expect] in set_service_status fires in no concurrent execution either *)
Theorem c18_concurrent_never_panics : forall e c h, cexec cinit e c -> In h (g_hist c) ->
  co_out h <> OPanic /\ co_out h <> OFuel.
Proof. exact concurrent_never_panics. Qed.

(* the safety clauses of the property for EVERY concurrent execution (what the stress tier and the
   schedule-independent facts of the interleaving tier judge): nothing is reported that was not
   set for that service, and a stream ends only after a clear.  [from_history c p]: p is a call
   that has returned or has taken effect. *)
Theorem c18_concurrent_check_not_foreign : forall e c h n v, cexec cinit e c -> In h (g_hist c) ->
  co_op h = Check n -> co_out h = OStatus v ->
  (n = [] /\ v = Serving) \/
  exists p k, (In p (g_hist c) \/ pending_done c p) /\ co_op p = SetBy n k /\ setter_status k = v /\
              (co_inv p < co_ret h)%nat.
Proof. exact concurrent_check_not_foreign. Qed.
Theorem c18_concurrent_stream_not_foreign : forall e c h k v, cexec cinit e c -> In h (g_hist c) ->
  co_op h = Next k -> co_out h = OItem v ->
  exists wt n, from_history c wt /\ co_inv wt = k /\ co_op wt = Watch n /\
    ((n = [] /\ v = Serving) \/
     exists p s, from_history c p /\ co_op p = SetBy n s /\ setter_status s = v /\ (co_inv p < co_ret h)%nat).
Proof. exact concurrent_stream_not_foreign. Qed.
Theorem c18_concurrent_end_only_after_clear : forall e c h k, cexec cinit e c -> In h (g_hist c) ->
  co_op h = Next k -> co_out h = OEnd ->
  exists wt n p, from_history c wt /\ co_inv wt = k /\ co_op wt = Watch n /\
    from_history c p /\ co_op p = Clear n /\ (co_inv p < co_ret h)%nat.
Proof. exact concurrent_end_only_after_clear. Qed.

(* no deadlock: from whatever point an execution has reached every call can run to its return
   (whoever holds a guard finishes without help, then the waiting calls are served); so the
   quiescence hypothesis above loses nothing: every execution is the beginning of one whose
   record passes the check *)
Theorem c18_can_complete : forall e c, cexec cinit e c ->
  exists e' c', cexec c e' c' /\ (forall t, g_th c' t = PIdle).
Proof. exact can_complete. Qed.
Theorem c18_every_execution_extends_to_checked : forall e c, cexec cinit e c ->
  exists e' c' more, cexec cinit (e ++ e') c' /\ g_hist c' = g_hist c ++ more /\ lin_check (g_hist c') = true.
Proof. exact every_execution_extends_to_checked. Qed.

Theorem c18_lock_exclusion : forall e c t1 t2, cexec cinit e c -> t1 <> t2 ->
  holds (g_th c t1) = Some true -> holds (g_th c t2) = None.
Proof. exact lock_exclusion. Qed.

(* the machine has genuinely interleaved executions; the check is not vacuous *)
Example c18_interleaved_execution :
  exists c, cexec cinit example_schedule c /\ (forall t, g_th c t = PIdle) /\
            g_hist c = [mkCop 0 8 (SetS [97] NotServing) OUnit; mkCop 1 9 (Check [97]) ONotFound].
Proof. exact example_execution. Qed.
Example c18_check_accepts_overlap :
  lin_check [mkCop 0 8 (SetS [97] NotServing) OUnit; mkCop 1 9 (Check [97]) ONotFound] = true.
Proof. reflexivity. Qed.
Example c18_check_rejects_stale_read :   (* the same answer once the set had returned *)
  lin_check [mkCop 0 8 (SetS [97] NotServing) OUnit; mkCop 9 10 (Check [97]) ONotFound] = false.
Proof. reflexivity. Qed.
Example c18_check_rejects_lost_update :
  lin_check [mkCop 0 3 (SetS [97] NotServing) OUnit; mkCop 1 2 (SetS [97] Serving) OUnit;
             mkCop 4 5 (Check [97]) (OStatus Unknown)] = false.
Proof. reflexivity. Qed.

(* ---- non-vacuity: the hypotheses are satisfiable on non-trivial histories ---- *)
(* a stream on "a" opened while "a" is NOT_SERVING, after the default stream on "" *)
Example c18_subscribed_holds :
  subscribed [SetS [97] Serving; Watch []; SetS [97] NotServing] [97] 1 NotServing.
Proof. split; reflexivity. Qed.

(* coalescing, re-report of an equal value, unseen value before the end, re-registration *)
Example c18_example_trace :
  map snd (trace init
    [SetS [97] Serving; Watch [97]; SetS [97] NotServing; SetS [97] Unknown; Next 0; Next 0;
     SetS [97] Unknown; Next 0; SetS [97] Serving; Clear [97]; Check [97]; SetS [97] NotServing;
     Next 0; Next 0; Watch [97]; Next 1; Next 0]) =
  [OUnit; OWatch 0; OUnit; OUnit; OItem Unknown; OPending;
   OUnit; OItem Unknown; OUnit; OUnit; ONotFound; OUnit;
   OItem Serving; OEnd; OWatch 1; OItem NotServing; OEnd].
Proof. reflexivity. Qed.

(* the typed API in a history: set_serving::<S>() with S::NAME = "a" *)
Example c18_typed_setters_trace :
  map snd (trace init
    [SetServing [97]; Check [97]; Check [65]; Watch [97]; SetNotServing [97]; SetNotServing [65];
     Next 0; Next 0; Check [65]; SetS [97] Unknown; SetServing [97]; Next 0]) =
  [OUnit; OStatus Serving; ONotFound; OWatch 0; OUnit; OUnit;
   OItem NotServing; OPending; OStatus NotServing; OUnit; OUnit; OItem Serving].
Proof. reflexivity. Qed.
Example c18_foreign_status_witness_is_typed :
  let h2 := [SetNotServing [97]; Next 0] in
  subscribed [SetServing [97]] [97] 0 Serving /\
  reports 0 (trace init ([SetServing [97]] ++ Watch [97] :: h2)) = [NotServing] /\
  In (SetBy [97] ViaNotServing) h2 /\ setter_status ViaNotServing = NotServing.
Proof. repeat split; try reflexivity. left; reflexivity. Qed.

Example c18_clear_premises_hold_unseen :
  let a := [Next 0; SetS [97] NotServing; Check [97]] in
  cleared [97] a = false /\ no_next 0 [SetS [97] Serving; Watch [97]] = true /\
  unreported [97] 0 true a = true /\ svc_hist [97] Serving a = [Serving; NotServing].
Proof. repeat split; reflexivity. Qed.
Example c18_clear_premises_hold_seen :
  let a := [SetS [97] NotServing; Next 0; SetS [98] Unknown] in
  cleared [97] a = false /\ unreported [97] 0 true a = false.
Proof. repeat split; reflexivity. Qed.
Example c18_converge_premises_hold :
  let h2 := [SetS [97] NotServing; SetS [97] Unknown; Clear [98]] in
  let c := [Check [97]; SetS [98] Serving; Next 0; Watch [97]; Next 1; Next 0] in
  cleared [97] h2 = false /\ no_set [97] c = true /\ cleared [97] c = false.
Proof. repeat split; reflexivity. Qed.

Print Assumptions c18_check_refines_map.
Print Assumptions c18_watch_first_is_current.
Print Assumptions c18_watch_reports_are_subsequence.
Print Assumptions c18_watch_converges.
Print Assumptions c18_clear_ends_stream_after_unseen.
Print Assumptions c18_end_is_final.
Print Assumptions c18_concurrent_linearizable.
Print Assumptions c18_machine_histories_pass_check.
Print Assumptions c18_concurrent_stream_not_foreign.
