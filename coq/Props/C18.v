(* C18 - the health service reports the latest status to Check and Watch.
   Statements only: each theorem is closed by [exact] of a lemma proved in Proofs/Health.v.

   Vocabulary (Model/Health.v, Proofs/Health.v):
     op            SetBy n k | Clear n | Check n | Watch n | Next w   (Next = one poll of stream w)
                   SetBy n (Direct v) = SetS n v      : set_service_status(n, v)
                   SetBy n ViaServing = SetServing n  : set_serving::<S>()      with S::NAME = n
                   SetBy n ViaNotServing = SetNotServing n : set_not_serving::<S>() with S::NAME = n
                   (setter_status k is the status the call sets: v, Serving, NotServing)
                   The whole documented API of HealthReporter is in the alphabet: every theorem
                   below quantifies over histories that may use any of the three ways to set.
     run / trace   the real service's model executed over a history, from [init] ("" is SERVING)
     spec_map h    the specification: a plain map name -> option status replayed over h
     subscribed h1 n w v0   after h1, [Watch n] opened stream w while the map held v0 for n
     svc_hist n v0 a        v0 followed by the statuses set for n in a, up to the first [Clear n]
     reports w t            the statuses stream w reported along trace t
   All theorems quantify over ALL histories (lists of operations of any length, any names, any
   number of streams); there is no bound. *)
From Coq Require Import List NArith Bool.
From Verif Require Import Lib.Obs Model.Health Proofs.Health.
Import ListNotations.
Open Scope N_scope.

(* Check n = the most recently set status of n; SERVING for "" by default; NOT_FOUND for a name
   never set or since cleared (spec_map is exactly that map) *)
Theorem c18_check_refines_map : forall h n,
  snd (step (run init h) (Check n)) =
  match spec_map h n with Some v => OStatus v | None => ONotFound end.
Proof. exact check_refines_map. Qed.

Theorem c18_watch_refines_map : forall h n,
  snd (step (run init h) (Watch n)) =
  match spec_map h n with
  | Some _ => OWatch (length (watchers (run init h)))
  | None => ONotFound
  end.
Proof. exact watch_refines_map. Qed.

(* the [expect] in set_service_status never fires, and one poll of the response stream never
   needs a second encoder iteration *)
Theorem c18_never_panics : forall h ox,
  In ox (trace init h) -> snd ox <> OPanic /\ snd ox <> OFuel.
Proof. exact never_panics_never_out_of_fuel. Qed.

(* the first poll reports the last status of the service history up to that poll: the
   subscription-time status, or the later one it was coalesced with *)
Theorem c18_watch_first_is_current : forall h1 n w v0 a,
  subscribed h1 n w v0 -> no_next w a = true ->
  snd (step (run init (h1 ++ Watch n :: a)) (Next w)) = OItem (last (svc_hist n v0 a) v0).
Proof. exact watch_first_is_current. Qed.

(* ... and while the service stays registered that is the status Check would return *)
Theorem c18_history_end_is_current_status : forall h1 n v0 a,
  spec_map h1 n = Some v0 -> cleared n a = false ->
  spec_map (h1 ++ Watch n :: a) n = Some (last (svc_hist n v0 a) v0).
Proof. exact spec_map_current. Qed.

(* what a stream reports is a subsequence of the statuses its service had since subscription
   (intermediate updates may be coalesced, nothing is invented or reordered) *)
Theorem c18_watch_reports_are_subsequence : forall h1 n w v0 h2,
  subscribed h1 n w v0 ->
  Subseq (reports w (trace init (h1 ++ Watch n :: h2))) (svc_hist n v0 h2).
Proof. exact watch_reports_are_subsequence. Qed.

Theorem c18_watch_never_reports_foreign_status : forall h1 n w v0 h2 v,
  subscribed h1 n w v0 ->
  In v (reports w (trace init (h1 ++ Watch n :: h2))) ->
  v = v0 \/ exists k : setter, In (SetBy n k) h2 /\ setter_status k = v.
Proof. exact watch_never_reports_foreign_status. Qed.

(* while the service stays registered: one more poll brings the stream to the latest status
   (it reports it, or it is pending because that was its last report), and as long as no update
   or clear of n follows, every further poll is pending *)
Theorem c18_watch_converges : forall h1 n w v0 h2 c,
  subscribed h1 n w v0 -> cleared n h2 = false ->
  no_set n c = true -> cleared n c = false ->
  let h := h1 ++ Watch n :: h2 in
  exists v, spec_map h n = Some v /\
    (let o := snd (step (run init h) (Next w)) in
     o = OItem v \/
     (o = OPending /\ reports w (trace init h) <> [] /\ last (reports w (trace init h)) v0 = v)) /\
    Forall (fun ox => fst ox = Next w -> snd ox = OPending) (trace (run init (h ++ [Next w])) c).
Proof. exact watch_converges. Qed.

(* clearing the service ends its streams: a status the stream had not been shown yet
   ([unreported]: the subscription-time status or a set since its last poll) is reported first,
   then the stream ends; otherwise it ends at once.  [b] is anything that happens in between
   (including registering the name again) except polls of this stream. *)
Theorem c18_clear_ends_stream_after_unseen : forall h1 n w v0 a b,
  subscribed h1 n w v0 -> cleared n a = false -> no_next w b = true ->
  let h := h1 ++ Watch n :: a ++ Clear n :: b in
  if unreported n w true a
  then snd (step (run init h) (Next w)) = OItem (last (svc_hist n v0 a) v0) /\
       snd (step (run init (h ++ [Next w])) (Next w)) = OEnd
  else snd (step (run init h) (Next w)) = OEnd.
Proof. exact clear_ends_stream_after_unseen. Qed.

Theorem c18_end_only_after_clear : forall h1 n w v0 h2,
  subscribed h1 n w v0 ->
  snd (step (run init (h1 ++ Watch n :: h2)) (Next w)) = OEnd -> cleared n h2 = true.
Proof. exact end_only_after_clear. Qed.

Theorem c18_end_is_final : forall h1 n w v0 h2 c,
  subscribed h1 n w v0 ->
  snd (step (run init (h1 ++ Watch n :: h2)) (Next w)) = OEnd ->
  Forall (fun ox => fst ox = Next w -> snd ox = OEnd)
         (trace (run init ((h1 ++ Watch n :: h2) ++ [Next w])) c).
Proof. exact end_is_final. Qed.

(* ---- concurrency: what is theorem and what is sampled ----
   THEOREM: nothing about concurrent executions.  All theorems above are about sequential
   histories; the only two statements below that touch the concurrent tier
   (c18_obs_linearizable_sound, c18_lin_obs_is_sequential) are about the COMPARATOR the harness
   uses: they say that a case passes only if the observation equals the model's outcome on one of
   the candidate sequential histories.  That "every concurrent execution of the real service is
   one of the sequential histories" (linearizability) is NOT proved; it is an assumption about
   the code and about tokio, argued as follows and sampled by the harness on every run:
   (L1) every operation acquires the service's tokio RwLock exactly ONCE - write() in
        set_service_status (hence set_serving / set_not_serving) and clear_service_status,
        read() in service_health (check) and in watch - and does all of its work on the map
        under that one guard: the lookup, the tx.send or the insert of a fresh channel, the
        remove (which drops the Sender, i.e. closes the channel), the borrow of the value, the
        clone of the Receiver.  There is no .await between acquiring the guard and dropping it.
        So each operation takes effect atomically at its acquisition, writers exclude everybody,
        and the order of acquisitions is a sequential history.
   (L2) a poll of a response stream touches only its own watch channel.  Sender::send stores the
        value and bumps the version under the channel's internal lock, borrow_and_update reads
        value and version under that lock, changed() loads version and closed bit from one
        atomic word: a poll is atomic with respect to send and to the drop of the Sender, both of
        which happen inside (L1)'s critical sections.
   (L3) a task awaiting a stream is woken by send and by the drop of the Sender (tokio Notify).
   SAMPLED (h_health, quick and thorough tier):
   * interleave.*: (L1).  Operation A (set_service_status, set_not_serving::<S>, clear, watch,
     check; on a fresh / existing / watched / just-cleared name) and a sequence B of 1-4
     operations on the same name run in two tasks of a single-threaded runtime; a grid of
     cooperative-budget offsets (k, j) switches A out at each of its lock acquisitions in turn
     and B after each of its first budget units, so A resumes between the operations of B.
     Verdict: the outcome equals the model's outcome for a sequential history with A atomic at a
     position real time allows (obs_linearizable), and the plain-map oracle agrees.  Only task
     switches at tokio yield points are explored, and only two tasks.
   * wake: (L3).  One or two tasks AWAIT their streams while another task sets (also an equal
     value, also through the typed API) / clears / touches another name; the awaiting tasks must
     be polled again within a bounded number of scheduler turns and see what the sequential
     history says (or stay parked when nothing of their service changed).
   * stress: (L1)-(L3) under real preemption: multi-thread runtime, 4 writers x 400 sets, 12
     awaited streams, 2 checkers; judges only safety (never a status that was not set, no end
     without clear) and final convergence.  2 rounds quick, 8 thorough. *)
Theorem c18_obs_linearizable_sound : forall cands t,
  obs_linearizable cands t = Nn 1 -> exists c, In c cands /\ tr_eqb (lin_obs c) t = true.
Proof. exact obs_linearizable_sound. Qed.
Theorem c18_lin_obs_is_sequential : forall pre a post,
  exists xa tpost,
    trace init (pre ++ a :: post) = trace init pre ++ (a, xa) :: tpost /\
    lin_obs (pre, a, post) =
      Nd (map (fun x => lin_out_tr (snd x)) (trace init pre)
          ++ map (fun x => lin_out_tr (snd x)) tpost ++ [lin_out_tr xa]).
Proof. exact lin_obs_is_sequential. Qed.

(* ---- non-vacuity: the hypotheses are satisfiable on non-trivial histories ---- *)
(* a stream on "a" opened while "a" is NOT_SERVING, after the default stream on "" *)
Example c18_subscribed_holds :
  subscribed [SetS [97] Serving; Watch []; SetS [97] NotServing] [97] 1 NotServing.
Proof. split; reflexivity. Qed.

(* coalescing, re-report of an equal value, unseen value before the end, re-registration *)
Example c18_example_trace :
  map snd (trace init
    [SetS [97] Serving; Watch [97]; SetS [97] NotServing; SetS [97] Unknown; Next 0; Next 0;
     SetS [97] Unknown; Next 0; SetS [97] Serving; Clear [97]; Check [97]; SetS [97] NotServing;
     Next 0; Next 0; Watch [97]; Next 1; Next 0]) =
  [OUnit; OWatch 0; OUnit; OUnit; OItem Unknown; OPending;
   OUnit; OItem Unknown; OUnit; OUnit; ONotFound; OUnit;
   OItem Serving; OEnd; OWatch 1; OItem NotServing; OEnd].
Proof. reflexivity. Qed.

(* the typed API in a history: set_serving::<S>() with S::NAME = "a" *)
Example c18_typed_setters_trace :
  map snd (trace init
    [SetServing [97]; Check [97]; Check [65]; Watch [97]; SetNotServing [97]; SetNotServing [65];
     Next 0; Next 0; Check [65]; SetS [97] Unknown; SetServing [97]; Next 0]) =
  [OUnit; OStatus Serving; ONotFound; OWatch 0; OUnit; OUnit;
   OItem NotServing; OPending; OStatus NotServing; OUnit; OUnit; OItem Serving].
Proof. reflexivity. Qed.
Example c18_foreign_status_witness_is_typed :
  let h2 := [SetNotServing [97]; Next 0] in
  subscribed [SetServing [97]] [97] 0 Serving /\
  reports 0 (trace init ([SetServing [97]] ++ Watch [97] :: h2)) = [NotServing] /\
  In (SetBy [97] ViaNotServing) h2 /\ setter_status ViaNotServing = NotServing.
Proof. repeat split; try reflexivity. left; reflexivity. Qed.

Example c18_clear_premises_hold_unseen :
  let a := [Next 0; SetS [97] NotServing; Check [97]] in
  cleared [97] a = false /\ no_next 0 [SetS [97] Serving; Watch [97]] = true /\
  unreported [97] 0 true a = true /\ svc_hist [97] Serving a = [Serving; NotServing].
Proof. repeat split; reflexivity. Qed.
Example c18_clear_premises_hold_seen :
  let a := [SetS [97] NotServing; Next 0; SetS [98] Unknown] in
  cleared [97] a = false /\ unreported [97] 0 true a = false.
Proof. repeat split; reflexivity. Qed.
Example c18_converge_premises_hold :
  let h2 := [SetS [97] NotServing; SetS [97] Unknown; Clear [98]] in
  let c := [Check [97]; SetS [98] Serving; Next 0; Watch [97]; Next 1; Next 0] in
  cleared [97] h2 = false /\ no_set [97] c = true /\ cleared [97] c = false.
Proof. repeat split; reflexivity. Qed.

Print Assumptions c18_check_refines_map.
Print Assumptions c18_watch_first_is_current.
Print Assumptions c18_watch_reports_are_subsequence.
Print Assumptions c18_watch_converges.
Print Assumptions c18_clear_ends_stream_after_unseen.
Print Assumptions c18_end_is_final.
