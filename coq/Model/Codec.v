(* The encoder model and the decoder model put back to back through a byte transport
   (C01 round trip, C06 limits).  Definitions only; the compositions are proved in
   Proofs/Codec.v.

     EncodeBody (Model/Encoder.v)  --frames-->  TRANSPORT  --body events-->  Streaming (Model/Decoder.v)

   The transport is the contract an HTTP/2 connection gives a gRPC body: the DATA bytes arrive
   in order but cut into chunks at arbitrary positions (also empty chunks), every poll of the
   receiving body may answer Pending first, and what is not DATA (the trailers block of a
   server, the body error of a client) arrives after all DATA.  [carries] is that contract as a
   relation (what the theorems quantify over), [transport] one executable member of it per
   (cut list, pending list) - what the correspondence harness h_roundtrip does to the real
   frames. *)
From Verif Require Import Lib.Bytes Lib.Obs Lib.BE32 Lib.HeaderMap Model.Frame Model.Status.
From Verif Require Import Gen.StatusTables.
From Verif Require Model.Encoder.
From Verif Require Import Model.Decoder.
Open Scope list_scope.
Open Scope N_scope.

(* a frame of the sending body as the event the receiving body answers with *)
Definition bev_of_frame (f : Encoder.bframe) : bev :=
  match f with
  | Encoder.FData d => BData d
  | Encoder.FTrailers t => BTrailers t
  | Encoder.FErr st => BErr st
  end.

Definition is_fdata (f : Encoder.bframe) : bool :=
  match f with Encoder.FData _ => true | _ => false end.
(* the frames that are not DATA: at most one, at the end (proved for EncodeBody: C03) *)
Definition non_data (fs : list Encoder.bframe) : list Encoder.bframe :=
  filter (fun f => negb (is_fdata f)) fs.

(* the transport contract *)
Definition carries (frames : list Encoder.bframe) (script : list bev) : Prop :=
  exists evs, only_dp evs /\
    data_of evs = concat (Encoder.datas_of frames) /\
    script = evs ++ map bev_of_frame (non_data frames).

(* who decodes what a role sends: a server's body is read by a client as a response (HTTP 200),
   a client's body by a server as a request *)
Definition dir_of_role (r : Encoder.role) : direction :=
  match r with Encoder.Server => Response 200 | Encoder.Client => Request end.

(* ---- one executable transport per (cuts, pend) ---------------------------------------------- *)
(* [cuts] are successive chunk lengths (0 = an empty DATA frame); what is left after the last
   cut is one more chunk *)
Fixpoint cut_chunks (cuts : list N) (bs : list N) : list (list N) :=
  match cuts with
  | [] => match bs with [] => [] | _ => [bs] end
  | n :: r => ntake n bs :: cut_chunks r (ndrop n bs)
  end.

(* [pend] = how many polls answer Pending before the i-th event is delivered *)
Fixpoint with_pending (pend : list N) (evs : list bev) {struct evs} : list bev :=
  match evs with
  | [] => []
  | e :: r =>
      match pend with
      | [] => e :: r
      | p :: pr => repeat BPending (N.to_nat p) ++ e :: with_pending pr r
      end
  end.

Definition transport (cuts pend : list N) (frames : list Encoder.bframe) : list bev :=
  with_pending pend
    (map BData (cut_chunks cuts (concat (Encoder.datas_of frames))) ++
     map bev_of_frame (non_data frames)).

(* ---- executable instance for the correspondence harness (h_roundtrip) ---------------------- *)
(* encodings are numbered as in Model/Decoder.v: 0 gzip, 1 deflate, 2 zstd *)
Definition cenc_of (n : N) : Encoder.cenc :=
  if n =? 0 then Encoder.Gzip else if n =? 1 then Encoder.Deflate else Encoder.Zstd.

(* what the real compressor answered in this run: (uncompressed, compressed) pairs; the
   decompressor of the model is the table read backwards.  For payloads above 4096 bytes the
   harness lists a surrogate of the SAME LENGTH instead of the compressed bytes ([surrogate]):
   the models depend on compressed bytes only through their length and through
   decompress (compress b) = b; the real bytes are judged by h_encode / oracle/grpc_wire.py. *)
Fixpoint unz (tbl : list (list N * list N)) (z : list N) : option (list N) :=
  match tbl with
  | [] => None
  | (u, z') :: r => if bytes_eqb z' z then Some u else unz r z
  end.
Definition decompress_tbl (tbl : list (list N * list N)) (_ : Encoder.cenc) (z : list N)
  : option (list N) := unz tbl z.

(* [n] bytes that start with the 4-byte tag [id] (distinct per table entry) *)
Definition surrogate (n id : N) : list N := ntake n (be32 id ++ rep (n - 4) 0).

(* poorly compressible test payload: the low byte of a 32-bit xorshift generator (bit
   operations only, so that 10^5 bytes evaluate quickly) *)
Definition xs32 (x : N) : N :=
  let x := N.land (N.lxor x (N.shiftl x 13)) 4294967295 in
  let x := N.lxor x (N.shiftr x 17) in
  N.land (N.lxor x (N.shiftl x 5)) 4294967295.
Fixpoint noise_nat (n : nat) (x : N) : list N :=
  match n with
  | O => []
  | S k => let x' := xs32 x in N.land x' 255 :: noise_nat k x'
  end.
Definition noise (n seed : N) : list N := noise_nat (N.to_nat n) seed.

(* payloads above 4096 bytes are compared by length and a rotate-xor checksum (the harness's
   direct oracle still compares them byte by byte with the input) *)
Definition rx32 (p : list N) : N :=
  fold_left (fun h b => N.land (N.lxor (N.lxor (N.shiftl h 5) (N.shiftr h 27)) b) 4294967295) p 7.
Definition pres_obs2 (r : pres (list N)) : tr :=
  match r with
  | Item (IOk m) => if 4096 <? nlen m then Nd [Nn 1; Nn (nlen m); Nn (rx32 m)] else Nd [Nn 1; Bs m]
  | _ => pres_obs r
  end.

(* the source stream of the encoder: None = Pending, Some m = Ready(Some(Ok(m))) *)
Definition src_of (l : list (option (list N))) : list (Encoder.sevent (list N)) :=
  map (fun o => match o with
                | None => Encoder.SPending
                | Some m => Encoder.SItem (Encoder.IOk m)
                end) l.

(* the body polled until its first None *)
Fixpoint until_none (l : list Encoder.body_out) : list Encoder.body_out :=
  match l with
  | [] => []
  | Encoder.BNone :: _ => []
  | Encoder.BPanic :: _ => [Encoder.BPanic]
  | o :: r => o :: until_none r
  end.

(* a frame as the harness sees it: DATA by length only (bytes: h_encode), the end in full *)
Definition frame_len_obs (f : Encoder.bframe) : tr :=
  match f with
  | Encoder.FData d => Nd [Nn 2; Nn (nlen d)]
  | Encoder.FTrailers t => Nd [Nn 3; hm_canon t]
  | Encoder.FErr st => Nd [Nn 4; Nn (st_code st)]
  end.

Definition has_panic (l : list Encoder.body_out) : bool :=
  existsb (fun o => match o with Encoder.BPanic => true | _ => false end) l.

(* C01 / C06 (sending side): encode [src] with configuration (comp, override, max, buffer
   settings) in role [server], carry the frames through [transport cuts pend], decode with limit
   [dmax] under the announced encoding [comp]; observable = the frames of the sender (DATA by
   length) and every poll result of the receiver up to Ready(None).  [fuel] polls at most. *)
Definition obs_roundtrip (tbl : list (list N * list N))
           (comp : option N) (override : bool) (max : option N) (bs yt : N)
           (server : bool) (dmax : option N)
           (src : list (option (list N))) (cuts pend : list N) (fuel : N) : tr :=
  let c := Encoder.mkCfg (option_map cenc_of comp) override max bs yt in
  let r := if server then Encoder.Server else Encoder.Client in
  let outs := until_none (Encoder.run_body (list N) Encoder.cenc Encoder.ser_raw
                            (Encoder.compress_tbl tbl) c r (src_of src) 0) in
  if has_panic outs then Nd [Nn 99]
  else
    let frames := Encoder.frames_of outs in
    let script := transport cuts pend frames in
    let d0 := dec_new (dir_of_role r) (option_map cenc_of comp) dmax in
    let '(t, fin) := drain deser_raw (decompress_tbl tbl) (N.to_nat fuel) script (mkB 0) d0 in
    Nd [Nd (map frame_len_obs frames);
        Nd (map pres_obs2 t);
        obool (match fin with Some _ => true | None => false end);
        (* ghost of the explicit-source run: polls of the message source after it answered None
           (c01_source_never_polled_after_end: 0), tied to the harness's strict source *)
        Nn (Encoder.s_after_end (snd (Encoder.run_body_src (list N) Encoder.cenc Encoder.ser_raw
                                        (Encoder.compress_tbl tbl) c r (src_of src) 2)))].

(* ---- Body::is_end_stream of EncodeBody (what hyper asks before it polls a body again) ------- *)
Definition is_end_stream (b : Encoder.body_state) : bool := Encoder.b_end b.

Section Eos.
Variable msg : Type.
Variable enc : Type.
Variable ser : msg -> option (list N).
Variable compress : enc -> list N -> list N.
(* a consumer that, like hyper, asks is_end_stream() before every poll and never polls a body
   that answered true (n polls at most) *)
Fixpoint drive_eos (c : Encoder.cfg enc) (n : nat) (b : Encoder.body_state)
         (src : list (Encoder.sevent msg)) : list Encoder.body_out :=
  match n with
  | O => []
  | S k =>
      if is_end_stream b then []
      else let '(o, b', src') := Encoder.body_poll msg enc ser compress c b src in
           o :: drive_eos c k b' src'
  end.
End Eos.

(* ---- C06, receiving side: declared lengths (kind c06.declared of h_roundtrip) -------------- *)
(* the largest length for which buf.reserve was reached *)
Definition max_reserved (l : list ghost) : N :=
  fold_left (fun a g => match g with Reserve n => N.max a n end) l 0.

(* like Model/Decoder.v obs_decode (drain with [fuel] polls, then [extra] more, with the
   ScriptBody counters), plus the ghost: was memory reserved for a length of 64 KiB or more -
   compared with the allocation meter of the harness; large payloads by length and rx32 *)
Definition obs_declared (dir : direction) (encoding : option N) (max : option N)
           (evs : list bev) (fuel extra : N) : tr :=
  let dz := ztab_lookup [] in
  let d0 := dec_new dir encoding max in
  match drain deser_raw dz (N.to_nat fuel) evs (mkB 0) d0 with
  | (t1, None) => Nd [Nd (map pres_obs2 t1 ++ [Nd [Nn 5]])]
  | (t1, Some (d1, evs1, g1)) =>
      let '(t2, (d2, _, g2)) := polls deser_raw dz (N.to_nat extra) evs1 g1 d1 in
      Nd [Nd (map pres_obs2 t1); Nn (polls_after_end g1); Nd (map pres_obs2 t2); Nn (polls_after_end g2);
          obool (65536 <=? max_reserved (d_log d2))]
  end.

(* ---- C06, sending side: a payload above 2^32-1 bytes (kind c06.4gb, thorough tier) --------- *)
(* Such a payload cannot be written as a list.  By c06_enc_limit_error (second clause) encoding
   it fails with st_4gb len whatever else holds, so the stream is evaluated with that item
   replaced by the failure it produces. *)
Definition obs_4gb (server : bool) (src : list (option (list N))) (len : N)
           (cuts pend : list N) (fuel : N) : tr :=
  let c := Encoder.mkCfg (@None Encoder.cenc) false None 8192 32768 in
  let r := if server then Encoder.Server else Encoder.Client in
  let s := src_of src ++ [Encoder.SItem (Encoder.IErr (Encoder.st_4gb len))] in
  let outs := until_none (Encoder.run_body (list N) Encoder.cenc Encoder.ser_raw
                            (Encoder.compress_tbl []) c r s 0) in
  let frames := Encoder.frames_of outs in
  let script := transport cuts pend frames in
  let d0 := dec_new (dir_of_role r) None None in
  let '(t, fin) := drain deser_raw (decompress_tbl []) (N.to_nat fuel) script (mkB 0) d0 in
  Nd [Nd (map frame_len_obs frames); Nd (map pres_obs2 t);
      obool (match fin with Some _ => true | None => false end)].
