(* Model of request routing (C10):
     tonic/src/service/router.rs      Routes::default / Routes::add_service / fallback `unimplemented`
     tonic-build/src/server.rs        the generated `call`: match req.uri().path() { "/S/M" => .. , _ => 12 }
     axum 0.8 / matchit 0.8           route pattern "/{NAME}/{*rest}" on the raw (undecoded) path
   Strings are byte lists.  No proofs here. *)
From Verif Require Import Lib.Bytes Lib.Obs Lib.Base64 Lib.Percent Lib.Utf8 Lib.HeaderMap.
From Verif Require Import Gen.StatusTables Model.Status.
Open Scope N_scope.

Definition slash : N := 47.
Definition lbrace : N := 123.
Definition rbrace : N := 125.
Definition colon : N := 58.
Definition star : N := 42.

(* one registered service: NamedService::NAME and the literals of its generated match arms
   (the method identifiers, in declaration order) *)
Record service := mkSvc { svc_name : list N; svc_methods : list (list N) }.

(* ---- tonic_build::format_method_path: "/{}/{}" ---- *)
Definition method_path (name m : list N) : list N := slash :: name ++ slash :: m.

(* ---- Routes: axum::Router holding one route per registered service.  The matchit tree is
   modelled as the list of inserted routes in insertion order. ---- *)
Definition routes := list service.

(* the part of the name space in which the route pattern "/NAME/{*rest}" means what the model
   says: '/' would add segments, '{' '}' are matchit's parameter syntax *)
Definition name_in_model (n : list N) : bool :=
  negb (existsb (fun b => (b =? slash) || (b =? lbrace) || (b =? rbrace)) n).

(* axum validate_v07_paths: a path segment must not start with ':' or '*' (panic) *)
Definition v07_rejects (n : list N) : bool :=
  match n with
  | c :: _ => (c =? colon) || (c =? star)
  | [] => false
  end.

(* Routes::add_service = Router::route_service(format!("/{}/{{*rest}}", NAME), svc);
   None = panic (axum: invalid route / "conflict with previously registered route") *)
Definition add_service (r : routes) (s : service) : option routes :=
  if v07_rejects (svc_name s) then None
  else if existsb (fun t => bytes_eqb (svc_name t) (svc_name s)) r then None
  else Some (r ++ [s]).

(* Routes::default().add_service(s1).add_service(s2)... *)
Fixpoint add_services (r : routes) (l : list service) : option routes :=
  match l with
  | [] => Some r
  | s :: l' => match add_service r s with
               | None => None
               | Some r' => add_services r' l'
               end
  end.
Definition build (l : list service) : option routes := add_services [] l.

(* ---- matching one route: path = "/" ++ NAME ++ "/" ++ rest with rest non-empty ---- *)
Fixpoint strip_prefix (p l : list N) : option (list N) :=
  match p, l with
  | [], _ => Some l
  | x :: p', y :: l' => if x =? y then strip_prefix p' l' else None
  | _ :: _, [] => None
  end.

Definition match_route (name path : list N) : option (list N) :=
  match strip_prefix (slash :: name ++ [slash]) path with
  | Some (c :: rest) => Some (c :: rest)        (* {*rest} never matches the empty string *)
  | _ => None
  end.

(* axum Router::call: the service of the matching route, else the fallback *)
Fixpoint route (r : routes) (path : list N) : option service :=
  match r with
  | [] => None
  | s :: r' => match match_route (svc_name s) path with
               | Some _ => Some s
               | None => route r' path
               end
  end.

(* ---- generated `call`: first arm whose literal equals the path, else the default arm ---- *)
Fixpoint dispatch_arms (name : list N) (ms : list (list N)) (path : list N) : option (list N) :=
  match ms with
  | [] => None
  | m :: ms' => if bytes_eqb (method_path name m) path then Some m
                else dispatch_arms name ms' path
  end.
Definition dispatch (s : service) (path : list N) : option (list N) :=
  dispatch_arms (svc_name s) (svc_methods s) path.

Inductive outcome :=
| Handler (s m : list N)          (* the handler of method m of service s runs *)
| UnimplService (s : list N)      (* service s was reached, its default arm answered *)
| UnimplFallback.                 (* no route: Routes' fallback `unimplemented` answered *)

Definition serve (r : routes) (path : list N) : outcome :=
  match route r path with
  | None => UnimplFallback
  | Some s => match dispatch s path with
              | Some m => Handler (svc_name s) m
              | None => UnimplService (svc_name s)
              end
  end.

(* grpc-status response HEADER written by the router / the default arm (None: the handler's
   business) - both `Status::unimplemented("")` and `Code::Unimplemented as i32` *)
Definition status_header (o : outcome) : option N :=
  match o with
  | Handler _ _ => None
  | _ => Some Code_Unimplemented
  end.

Definition runs_handler (o : outcome) : bool :=
  match o with Handler _ _ => true | _ => false end.

(* ---- the whole response of the two UNIMPLEMENTED answers (C03: they must be well-formed
   gRPC "Trailers-Only" responses) ---- *)
(* "content-type" *)
Definition hdr_content_type : list N := [99;111;110;116;101;110;116;45;116;121;112;101].
(* "application/grpc" = tonic::metadata::GRPC_CONTENT_TYPE *)
Definition val_application_grpc : list N := [97;112;112;108;105;99;97;116;105;111;110;47;103;114;112;99].

Record response := mkResponse {
  rp_status : N;                 (* HTTP status *)
  rp_headers : hm;
  rp_body : list N;              (* concatenated DATA *)
  rp_trailers : option hm
}.
Inductive reply :=
| ReplyHandler                   (* whatever the handler answers: not the router's business *)
| Reply (r : response)
| ReplyPanic.                    (* the `unwrap` in Status::into_http *)

(* router.rs `async fn unimplemented()`:
   Status::unimplemented("").into_http::<()>() = Response::new(()) (200), insert content-type,
   add_header(..).unwrap(); then Response::from_parts(parts, Body::empty()) *)
Definition st_unimplemented : status := mkStatus Code_Unimplemented [] [] [].
Definition fallback_reply : reply :=
  match add_header st_unimplemented (hm_insert [] hdr_content_type val_application_grpc) with
  | Some h => Reply (mkResponse 200 h [] None)
  | None => ReplyPanic
  end.

(* HeaderValue::from(i32) of a small non-negative number: its decimal text *)
Definition hv_of_i32 (n : N) : list N :=
  if n <? 10 then [48 + n] else [48 + n / 10; 48 + n mod 10].
(* the default arm of the generated `call`:
   http::Response::new(Body::default()); insert(GRPC_STATUS, (Code::Unimplemented as i32).into());
   insert(CONTENT_TYPE, GRPC_CONTENT_TYPE) *)
Definition default_arm_reply : reply :=
  Reply (mkResponse 200
           (hm_insert (hm_insert [] hdr_grpc_status (hv_of_i32 Code_Unimplemented))
                      hdr_content_type val_application_grpc)
           [] None).

(* axum RouteFuture::poll, `top_level` only: set_content_length(res.size_hint(), headers) - when
   no content-length is present and the body's size is exactly known it is written.  The
   fallback handler's route is polled at top level (Body::empty(): exact size 0); a service
   registered with route_service is called through Route::call_owned(..).not_top_level(), so
   the default arm's response leaves Routes as the generated code built it. *)
Definition hdr_content_length : list N := [99;111;110;116;101;110;116;45;108;101;110;103;116;104].
Definition content_length_value (n : N) : list N := if n =? 0 then [48] else hv_of_i32 n.
Definition axum_set_content_length (r : reply) : reply :=
  match r with
  | Reply rp =>
      if hm_contains (rp_headers rp) hdr_content_length then r
      else Reply (mkResponse (rp_status rp)
                    (hm_insert (rp_headers rp) hdr_content_length (content_length_value (nlen (rp_body rp))))
                    (rp_body rp) (rp_trailers rp))
  | _ => r
  end.

(* what leaves Routes::call *)
Definition reply_of (o : outcome) : reply :=
  match o with
  | Handler _ _ => ReplyHandler
  | UnimplService _ => default_arm_reply
  | UnimplFallback => axum_set_content_length fallback_reply
  end.

(* ---- permutations, in the order the harness enumerates registration orders ---- *)
Fixpoint insert_all {A} (x : A) (l : list A) : list (list A) :=
  match l with
  | [] => [[x]]
  | y :: l' => (x :: l) :: map (cons y) (insert_all x l')
  end.
Fixpoint perms {A} (l : list A) : list (list A) :=
  match l with
  | [] => [[]]
  | x :: l' => flat_map (insert_all x) (perms l')
  end.

(* ---- observables ---- *)
Definition outcome_obs (o : outcome) : tr :=
  match o with
  | Handler s m => Nd [Nn 0; Bs s; Bs m]
  | UnimplService s => Nd [Nn 1; Bs s]
  | UnimplFallback => Nd [Nn 2]
  end.
Definition reply_obs (r : reply) : tr :=
  match r with
  | ReplyHandler => Nd [Nn 0]
  | Reply r => Nd [Nn 1; Nn (rp_status r); hm_canon (rp_headers r); Bs (rp_body r);
                   oopt hm_canon (rp_trailers r)]
  | ReplyPanic => Nd [Nn 99]
  end.
Definition result_obs (o : outcome) : tr := Nd [outcome_obs o; reply_obs (reply_of o)].

(* registration in the given order, then one request *)
Definition obs_serve (l : list service) (path : list N) : tr :=
  match build l with
  | None => Nd [Nn 99]                       (* add_service panicked *)
  | Some r => result_obs (serve r path)
  end.
(* the same request against every registration order *)
Definition obs_orders (l : list service) (path : list N) : tr :=
  Nd (map (fun p => obs_serve p path) (perms l)).
(* the same request against sampled registration orders (more than 4 services): each order is
   a list of indices into [l] *)
Definition pick {A} (l : list A) (idx : list N) : list A :=
  flat_map (fun i => match nth_error l (N.to_nat i) with Some x => [x] | None => [] end) idx.
Definition obs_orders_at (l : list service) (idxs : list (list N)) (path : list N) : tr :=
  Nd (map (fun ix => obs_serve (pick l ix) path) idxs).
(* does registration succeed *)
Definition obs_build (l : list service) : tr :=
  match build l with None => Nd [Nn 0] | Some r => Nd [Nn 1; Nn (nlen r)] end.

(* =========================================================================================
   Added after AUDIT2 (everything above is unchanged and still used):
     tonic-build/src/lib.rs      traits Service / Method (name() vs identifier()),
                                 format_service_name, format_method_path
     tonic-build/src/server.rs   generate_internal: NAME = SERVICE_NAME, the literal arms of `call`
     tonic-build/src/client.rs   generate_unary ..: PathAndQuery::from_static(path)
     axum 0.8 routing/route.rs   RouteFuture::poll (CONNECT / top_level / HEAD)
     tonic/src/service/router.rs From<axum::Router> for Routes (the caller's router and fallback)
   ========================================================================================= *)

(* ---- a service as the code generator sees it ---- *)
Record tb_method := mkTM {
  tm_name : list N;      (* Method::name(): the Rust fn of the trait / client *)
  tm_ident : list N      (* Method::identifier(): the proto method name *)
}.
Record tb_service := mkTS {
  ts_name : list N;      (* Service::name(): the Rust type name (trait Xxx, XxxServer, mod xxx_server);
                            prost-build renders it in UpperCamelCase: HTTPEcho -> HttpEcho *)
  ts_package : list N;   (* Service::package() *)
  ts_ident : list N;     (* Service::identifier(): the proto service name *)
  ts_methods : list tb_method
}.
Definition r_dot : N := 46.

(* lib.rs fn format_service_name(service, emit_package):
     let package = if emit_package { service.package() } else { "" };
     format!("{}{}{}", package, if package.is_empty() { "" } else { "." }, service.identifier()) *)
Definition tb_service_name (g : tb_service) (emit_package : bool) : list N :=
  let package := if emit_package then ts_package g else [] in
  package ++ (match package with [] => [] | _ => [r_dot] end) ++ ts_ident g.

(* lib.rs fn format_method_path = format!("/{}/{}", format_service_name(..), method.identifier()) *)
Definition tb_method_path (g : tb_service) (m : tb_method) (emit_package : bool) : list N :=
  slash :: tb_service_name g emit_package ++ slash :: tm_ident m.

(* What a service IS to the router: NamedService::NAME and the arms of its `call`, each a path
   literal with the handler it runs (handlers are identified the way the harness' handlers log
   themselves: by the proto method name). *)
Record mounted := mkMounted { mt_name : list N; mt_arms : list (list N * list N) }.

(* server.rs generate_internal: `let service_name = format_service_name(service, emit_package)`,
   generate_named: SERVICE_NAME = service_name, NamedService::NAME = SERVICE_NAME;
   generate_methods: for method in service.methods() { path = format_method_path(..);
   `#path => { <T as Trait>::#name(..) }` } in declaration order.  Service::name() /
   Method::name() only name Rust items; they occur in no string of the generated code. *)
Definition tb_generate_server (g : tb_service) (emit_package : bool) : mounted :=
  mkMounted (tb_service_name g emit_package)
            (map (fun m => (tb_method_path g m emit_package, tm_ident m)) (ts_methods g)).

(* client.rs generate_unary / _server_streaming / _client_streaming / _streaming:
   `let path = format_method_path(service, method, emit_package)` ..
   `http::uri::PathAndQuery::from_static(#path)` *)
Definition tb_client_path (g : tb_service) (m : tb_method) (emit_package : bool) : list N :=
  tb_method_path g m emit_package.

(* the harness' stub service: NAME, and `for m in methods { if path == format!("/{}/{}", NAME, m) }` *)
Definition mount_stub (s : service) : mounted :=
  mkMounted (svc_name s) (map (fun m => (method_path (svc_name s) m, m)) (svc_methods s)).

(* one registration: a stub, or a server generated from a descriptor with CodeGenBuilder::emit_package *)
Inductive reg :=
| RStub (s : service)
| RGen (g : tb_service) (emit_package : bool).
Definition mount (x : reg) : mounted :=
  match x with
  | RStub s => mount_stub s
  | RGen g e => tb_generate_server g e
  end.
(* the same registration as NAME + arm identifiers (used by the proofs and by the domain guard) *)
Definition service_of (x : reg) : service :=
  match x with
  | RStub s => s
  | RGen g e => mkSvc (tb_service_name g e) (map tm_ident (ts_methods g))
  end.

(* ---- Routes over mounted services: same functions as above, on NAME and literal arms ---- *)
Definition madd_service (r : list mounted) (t : mounted) : option (list mounted) :=
  if v07_rejects (mt_name t) then None
  else if existsb (fun u => bytes_eqb (mt_name u) (mt_name t)) r then None
  else Some (r ++ [t]).
Fixpoint madd_services (r : list mounted) (l : list mounted) : option (list mounted) :=
  match l with
  | [] => Some r
  | t :: l' => match madd_service r t with
               | None => None
               | Some r' => madd_services r' l'
               end
  end.
Definition mbuild (l : list mounted) : option (list mounted) := madd_services [] l.

Fixpoint mroute (r : list mounted) (path : list N) : option mounted :=
  match r with
  | [] => None
  | t :: r' => match match_route (mt_name t) path with
               | Some _ => Some t
               | None => mroute r' path
               end
  end.
(* generated `call`: match req.uri().path() { LIT_1 => .., LIT_2 => .., _ => default } *)
Fixpoint arm_lookup (arms : list (list N * list N)) (path : list N) : option (list N) :=
  match arms with
  | [] => None
  | (lit, h) :: arms' => if bytes_eqb lit path then Some h else arm_lookup arms' path
  end.
Definition mserve (r : list mounted) (path : list N) : outcome :=
  match mroute r path with
  | None => UnimplFallback
  | Some t => match arm_lookup (mt_arms t) path with
              | Some h => Handler (mt_name t) h
              | None => UnimplService (mt_name t)
              end
  end.

(* ---- the request: Routes::add_service uses route_service (every method), the generated `call`
   matches on the path only, the fallback is `any`: the method never takes part in routing; it
   only shows in what axum's RouteFuture does to the response ---- *)
Record request := mkRequest { rq_method : list N; rq_path : list N }.
Definition m_POST : list N := [80;79;83;84].
Definition m_HEAD : list N := [72;69;65;68].
Definition m_CONNECT : list N := [67;79;78;78;69;67;84].
(* "transfer-encoding" *)
Definition hdr_transfer_encoding : list N :=
  [116;114;97;110;115;102;101;114;45;101;110;99;111;100;105;110;103].
Definition http_success (s : N) : bool := (200 <=? s) && (s <? 300).
Definition with_empty_body (rp : response) : response :=
  mkResponse (rp_status rp) (rp_headers rp) [] None.          (* Body::empty(): no data, no trailers *)

(* axum routing/route.rs RouteFuture::poll:
     if method == CONNECT && res.status().is_success() {
         if has content-length || has transfer-encoding || size_hint().lower() != 0 { body = empty }
     } else if top_level { set_allow_header (no Allow here); set_content_length; if HEAD { body = empty } } *)
Definition axum_route_future (meth : list N) (top_level : bool) (r : reply) : reply :=
  match r with
  | Reply rp =>
      if bytes_eqb meth m_CONNECT && http_success (rp_status rp) then
        if hm_contains (rp_headers rp) hdr_content_length
           || hm_contains (rp_headers rp) hdr_transfer_encoding
           || negb (nlen (rp_body rp) =? 0)
        then Reply (with_empty_body rp) else r
      else if top_level then
        match axum_set_content_length r with
        | Reply rp' => if bytes_eqb meth m_HEAD then Reply (with_empty_body rp') else Reply rp'
        | r' => r'
        end
      else r
  | _ => r
  end.

(* what the Routes was started from *)
Inductive base :=
| BaseTonic        (* Routes::default(): axum::Router::new().fallback(unimplemented) *)
| BaseAxumUser.    (* Routes::from(axum::Router::new()) / RoutesBuilder::from(axum::Router::new()):
                      the caller's router - and ITS fallback (axum's default: 404, empty body) *)
Definition axum_not_found : reply := Reply (mkResponse 404 [] [] None).

(* axum Router::call_with_state: path_router, then fallback_router (routes "/" and
   "/{*__private__axum_fallback}": every path that starts with '/'), then catch_all_fallback *)
Definition via_fallback_router (path : list N) : bool :=
  match path with c :: _ => c =? slash | [] => false end.

(* what leaves Routes::call for a request with this method and path.
   Routes::default(): `.fallback(handler)` puts a MethodRouter (any) into the fallback router and
   a BoxedHandler into catch_all_fallback - both answer through a top-level RouteFuture.
   axum::Router::new(): the default fallback is Endpoint::Route(NotFound) in the fallback router
   (Route::call_owned: NOT top level, no content-length) and Fallback::Default(NotFound) as
   catch-all (oneshot_inner_owned: top level) *)
Definition reply_of_b (b : base) (meth path : list N) (o : outcome) : reply :=
  match o with
  | Handler _ _ => ReplyHandler
  | UnimplService _ => axum_route_future meth false default_arm_reply      (* route_service: not top level *)
  | UnimplFallback =>
      match b with
      | BaseTonic => axum_route_future meth true fallback_reply
      | BaseAxumUser => axum_route_future meth (negb (via_fallback_router path)) axum_not_found
      end
  end.
Definition result_obs_b (b : base) (meth path : list N) (o : outcome) : tr :=
  Nd [outcome_obs o; reply_obs (reply_of_b b meth path o)].

(* ---- observables of the added kinds ---- *)
(* the model's domain: every NAME free of '/', '{', '}' (matchit syntax is not modelled); outside
   of it the model makes no prediction and says so *)
Definition regs_in_model (regs : list reg) : bool :=
  forallb (fun x => name_in_model (svc_name (service_of x))) regs.
Definition obs_outside : tr := Nd [Nn 96].

Definition obs_gserve (b : base) (regs : list reg) (rq : request) : tr :=
  if regs_in_model regs then
    match mbuild (map mount regs) with
    | None => Nd [Nn 99]                       (* add_service panicked *)
    | Some r => result_obs_b b (rq_method rq) (rq_path rq) (mserve r (rq_path rq))
    end
  else obs_outside.
Definition obs_gorders (b : base) (regs : list reg) (rq : request) : tr :=
  Nd (map (fun p => obs_gserve b p rq) (perms regs)).
Definition obs_gorders_at (b : base) (regs : list reg) (idxs : list (list N)) (rq : request) : tr :=
  Nd (map (fun ix => obs_gserve b (pick regs ix) rq) idxs).
Definition obs_gbuild (regs : list reg) : tr :=
  if regs_in_model regs then
    match mbuild (map mount regs) with None => Nd [Nn 0] | Some r => Nd [Nn 1; Nn (nlen r)] end
  else obs_outside.
(* generated client of [g], method number [j]: the path it puts on the wire, and what a server
   with [regs] registered does with that request *)
Definition obs_gclient (regs : list reg) (g : tb_service) (emit_package : bool) (j : N) : tr :=
  match nth_error (ts_methods g) (N.to_nat j) with
  | None => Nd [Nn 95]
  | Some m => Nd [Bs (tb_client_path g m emit_package);
                  obs_gserve BaseTonic regs (mkRequest m_POST (tb_client_path g m emit_package))]
  end.

(* ---- tonic::transport::Server / Router: add_service, add_optional_service ----
   Server::add_optional_service(svc) = Router::new(.., svc.map(Routes::new).unwrap_or_default());
   Router::add_optional_service(svc) = if let Some(svc) = svc { routes.add_service(svc) }:
   an absent optional service leaves the routes untouched.  [None] = add_service,
   [Some true] = add_optional_service(Some(svc)), [Some false] = add_optional_service(None) *)
Definition transport_regs (l : list (reg * option bool)) : list reg :=
  flat_map (fun p => match snd p with Some false => [] | _ => [fst p] end) l.
Definition obs_gtransport (b : base) (l : list (reg * option bool)) (rq : request) : tr :=
  obs_gserve b (transport_regs l) rq.
