(* Model of request routing (C10):
     tonic/src/service/router.rs      Routes::default / Routes::add_service / fallback `unimplemented`
     tonic-build/src/server.rs        the generated `call`: match req.uri().path() { "/S/M" => .. , _ => 12 }
     axum 0.8 / matchit 0.8           route pattern "/{NAME}/{*rest}" on the raw (undecoded) path
   Strings are byte lists.  No proofs here. *)
From Verif Require Import Lib.Bytes Lib.Obs Lib.Base64 Lib.Percent Lib.Utf8 Lib.HeaderMap.
From Verif Require Import Gen.StatusTables Model.Status.
Open Scope N_scope.

Definition slash : N := 47.
Definition lbrace : N := 123.
Definition rbrace : N := 125.
Definition colon : N := 58.
Definition star : N := 42.

(* one registered service: NamedService::NAME and the literals of its generated match arms
   (the method identifiers, in declaration order) *)
Record service := mkSvc { svc_name : list N; svc_methods : list (list N) }.

(* ---- tonic_build::format_method_path: "/{}/{}" ---- *)
Definition method_path (name m : list N) : list N := slash :: name ++ slash :: m.

(* ---- Routes: axum::Router holding one route per registered service.  The matchit tree is
   modelled as the list of inserted routes in insertion order. ---- *)
Definition routes := list service.

(* the part of the name space in which the route pattern "/NAME/{*rest}" means what the model
   says: '/' would add segments, '{' '}' are matchit's parameter syntax *)
Definition name_in_model (n : list N) : bool :=
  negb (existsb (fun b => (b =? slash) || (b =? lbrace) || (b =? rbrace)) n).

(* axum validate_v07_paths: a path segment must not start with ':' or '*' (panic) *)
Definition v07_rejects (n : list N) : bool :=
  match n with
  | c :: _ => (c =? colon) || (c =? star)
  | [] => false
  end.

(* Routes::add_service = Router::route_service(format!("/{}/{{*rest}}", NAME), svc);
   None = panic (axum: invalid route / "conflict with previously registered route") *)
Definition add_service (r : routes) (s : service) : option routes :=
  if v07_rejects (svc_name s) then None
  else if existsb (fun t => bytes_eqb (svc_name t) (svc_name s)) r then None
  else Some (r ++ [s]).

(* Routes::default().add_service(s1).add_service(s2)... *)
Fixpoint add_services (r : routes) (l : list service) : option routes :=
  match l with
  | [] => Some r
  | s :: l' => match add_service r s with
               | None => None
               | Some r' => add_services r' l'
               end
  end.
Definition build (l : list service) : option routes := add_services [] l.

(* ---- matching one route: path = "/" ++ NAME ++ "/" ++ rest with rest non-empty ---- *)
Fixpoint strip_prefix (p l : list N) : option (list N) :=
  match p, l with
  | [], _ => Some l
  | x :: p', y :: l' => if x =? y then strip_prefix p' l' else None
  | _ :: _, [] => None
  end.

Definition match_route (name path : list N) : option (list N) :=
  match strip_prefix (slash :: name ++ [slash]) path with
  | Some (c :: rest) => Some (c :: rest)        (* {*rest} never matches the empty string *)
  | _ => None
  end.

(* axum Router::call: the service of the matching route, else the fallback *)
Fixpoint route (r : routes) (path : list N) : option service :=
  match r with
  | [] => None
  | s :: r' => match match_route (svc_name s) path with
               | Some _ => Some s
               | None => route r' path
               end
  end.

(* ---- generated `call`: first arm whose literal equals the path, else the default arm ---- *)
Fixpoint dispatch_arms (name : list N) (ms : list (list N)) (path : list N) : option (list N) :=
  match ms with
  | [] => None
  | m :: ms' => if bytes_eqb (method_path name m) path then Some m
                else dispatch_arms name ms' path
  end.
Definition dispatch (s : service) (path : list N) : option (list N) :=
  dispatch_arms (svc_name s) (svc_methods s) path.

Inductive outcome :=
| Handler (s m : list N)          (* the handler of method m of service s runs *)
| UnimplService (s : list N)      (* service s was reached, its default arm answered *)
| UnimplFallback.                 (* no route: Routes' fallback `unimplemented` answered *)

Definition serve (r : routes) (path : list N) : outcome :=
  match route r path with
  | None => UnimplFallback
  | Some s => match dispatch s path with
              | Some m => Handler (svc_name s) m
              | None => UnimplService (svc_name s)
              end
  end.

(* grpc-status response HEADER written by the router / the default arm (None: the handler's
   business) - both `Status::unimplemented("")` and `Code::Unimplemented as i32` *)
Definition status_header (o : outcome) : option N :=
  match o with
  | Handler _ _ => None
  | _ => Some Code_Unimplemented
  end.

Definition runs_handler (o : outcome) : bool :=
  match o with Handler _ _ => true | _ => false end.

(* ---- the whole response of the two UNIMPLEMENTED answers (C03: they must be well-formed
   gRPC "Trailers-Only" responses) ---- *)
(* "content-type" *)
Definition hdr_content_type : list N := [99;111;110;116;101;110;116;45;116;121;112;101].
(* "application/grpc" = tonic::metadata::GRPC_CONTENT_TYPE *)
Definition val_application_grpc : list N := [97;112;112;108;105;99;97;116;105;111;110;47;103;114;112;99].

Record response := mkResponse {
  rp_status : N;                 (* HTTP status *)
  rp_headers : hm;
  rp_body : list N;              (* concatenated DATA *)
  rp_trailers : option hm
}.
Inductive reply :=
| ReplyHandler                   (* whatever the handler answers: not the router's business *)
| Reply (r : response)
| ReplyPanic.                    (* the `unwrap` in Status::into_http *)

(* router.rs `async fn unimplemented()`:
   Status::unimplemented("").into_http::<()>() = Response::new(()) (200), insert content-type,
   add_header(..).unwrap(); then Response::from_parts(parts, Body::empty()) *)
Definition st_unimplemented : status := mkStatus Code_Unimplemented [] [] [].
Definition fallback_reply : reply :=
  match add_header st_unimplemented (hm_insert [] hdr_content_type val_application_grpc) with
  | Some h => Reply (mkResponse 200 h [] None)
  | None => ReplyPanic
  end.

(* HeaderValue::from(i32) of a small non-negative number: its decimal text *)
Definition hv_of_i32 (n : N) : list N :=
  if n <? 10 then [48 + n] else [48 + n / 10; 48 + n mod 10].
(* the default arm of the generated `call`:
   http::Response::new(Body::default()); insert(GRPC_STATUS, (Code::Unimplemented as i32).into());
   insert(CONTENT_TYPE, GRPC_CONTENT_TYPE) *)
Definition default_arm_reply : reply :=
  Reply (mkResponse 200
           (hm_insert (hm_insert [] hdr_grpc_status (hv_of_i32 Code_Unimplemented))
                      hdr_content_type val_application_grpc)
           [] None).

(* axum RouteFuture::poll, `top_level` only: set_content_length(res.size_hint(), headers) - when
   no content-length is present and the body's size is exactly known it is written.  The
   fallback handler's route is polled at top level (Body::empty(): exact size 0); a service
   registered with route_service is called through Route::call_owned(..).not_top_level(), so
   the default arm's response leaves Routes as the generated code built it. *)
Definition hdr_content_length : list N := [99;111;110;116;101;110;116;45;108;101;110;103;116;104].
Definition content_length_value (n : N) : list N := if n =? 0 then [48] else hv_of_i32 n.
Definition axum_set_content_length (r : reply) : reply :=
  match r with
  | Reply rp =>
      if hm_contains (rp_headers rp) hdr_content_length then r
      else Reply (mkResponse (rp_status rp)
                    (hm_insert (rp_headers rp) hdr_content_length (content_length_value (nlen (rp_body rp))))
                    (rp_body rp) (rp_trailers rp))
  | _ => r
  end.

(* what leaves Routes::call *)
Definition reply_of (o : outcome) : reply :=
  match o with
  | Handler _ _ => ReplyHandler
  | UnimplService _ => default_arm_reply
  | UnimplFallback => axum_set_content_length fallback_reply
  end.

(* ---- permutations, in the order the harness enumerates registration orders ---- *)
Fixpoint insert_all {A} (x : A) (l : list A) : list (list A) :=
  match l with
  | [] => [[x]]
  | y :: l' => (x :: l) :: map (cons y) (insert_all x l')
  end.
Fixpoint perms {A} (l : list A) : list (list A) :=
  match l with
  | [] => [[]]
  | x :: l' => flat_map (insert_all x) (perms l')
  end.

(* ---- observables ---- *)
Definition outcome_obs (o : outcome) : tr :=
  match o with
  | Handler s m => Nd [Nn 0; Bs s; Bs m]
  | UnimplService s => Nd [Nn 1; Bs s]
  | UnimplFallback => Nd [Nn 2]
  end.
Definition reply_obs (r : reply) : tr :=
  match r with
  | ReplyHandler => Nd [Nn 0]
  | Reply r => Nd [Nn 1; Nn (rp_status r); hm_canon (rp_headers r); Bs (rp_body r);
                   oopt hm_canon (rp_trailers r)]
  | ReplyPanic => Nd [Nn 99]
  end.
Definition result_obs (o : outcome) : tr := Nd [outcome_obs o; reply_obs (reply_of o)].

(* registration in the given order, then one request *)
Definition obs_serve (l : list service) (path : list N) : tr :=
  match build l with
  | None => Nd [Nn 99]                       (* add_service panicked *)
  | Some r => result_obs (serve r path)
  end.
(* the same request against every registration order *)
Definition obs_orders (l : list service) (path : list N) : tr :=
  Nd (map (fun p => obs_serve p path) (perms l)).
(* the same request against sampled registration orders (more than 4 services): each order is
   a list of indices into [l] *)
Definition pick {A} (l : list A) (idx : list N) : list A :=
  flat_map (fun i => match nth_error l (N.to_nat i) with Some x => [x] | None => [] end) idx.
Definition obs_orders_at (l : list service) (idxs : list (list N)) (path : list N) : tr :=
  Nd (map (fun ix => obs_serve (pick l ix) path) idxs).
(* does registration succeed *)
Definition obs_build (l : list service) : tr :=
  match build l with None => Nd [Nn 0] | Some r => Nd [Nn 1; Nn (nlen r)] end.
