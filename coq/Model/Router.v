(* Model of request routing (C10):
     tonic/src/service/router.rs      Routes::default / Routes::add_service / fallback `unimplemented`
     tonic-build/src/server.rs        the generated `call`: match req.uri().path() { "/S/M" => .. , _ => 12 }
     axum 0.8 / matchit 0.8           route pattern "/{NAME}/{*rest}" on the raw (undecoded) path
   Strings are byte lists.  No proofs here. *)
From Verif Require Import Lib.Bytes Lib.Obs.
From Verif Require Import Gen.StatusTables.
Open Scope N_scope.

Definition slash : N := 47.
Definition lbrace : N := 123.
Definition rbrace : N := 125.
Definition colon : N := 58.
Definition star : N := 42.

(* one registered service: NamedService::NAME and the literals of its generated match arms
   (the method identifiers, in declaration order) *)
Record service := mkSvc { svc_name : list N; svc_methods : list (list N) }.

(* ---- tonic_build::format_method_path: "/{}/{}" ---- *)
Definition method_path (name m : list N) : list N := slash :: name ++ slash :: m.

(* ---- Routes: axum::Router holding one route per registered service.  The matchit tree is
   modelled as the list of inserted routes in insertion order. ---- *)
Definition routes := list service.

(* the part of the name space in which the route pattern "/NAME/{*rest}" means what the model
   says: '/' would add segments, '{' '}' are matchit's parameter syntax *)
Definition name_in_model (n : list N) : bool :=
  negb (existsb (fun b => (b =? slash) || (b =? lbrace) || (b =? rbrace)) n).

(* axum validate_v07_paths: a path segment must not start with ':' or '*' (panic) *)
Definition v07_rejects (n : list N) : bool :=
  match n with
  | c :: _ => (c =? colon) || (c =? star)
  | [] => false
  end.

(* Routes::add_service = Router::route_service(format!("/{}/{{*rest}}", NAME), svc);
   None = panic (axum: invalid route / "conflict with previously registered route") *)
Definition add_service (r : routes) (s : service) : option routes :=
  if v07_rejects (svc_name s) then None
  else if existsb (fun t => bytes_eqb (svc_name t) (svc_name s)) r then None
  else Some (r ++ [s]).

(* Routes::default().add_service(s1).add_service(s2)... *)
Fixpoint add_services (r : routes) (l : list service) : option routes :=
  match l with
  | [] => Some r
  | s :: l' => match add_service r s with
               | None => None
               | Some r' => add_services r' l'
               end
  end.
Definition build (l : list service) : option routes := add_services [] l.

(* ---- matching one route: path = "/" ++ NAME ++ "/" ++ rest with rest non-empty ---- *)
Fixpoint strip_prefix (p l : list N) : option (list N) :=
  match p, l with
  | [], _ => Some l
  | x :: p', y :: l' => if x =? y then strip_prefix p' l' else None
  | _ :: _, [] => None
  end.

Definition match_route (name path : list N) : option (list N) :=
  match strip_prefix (slash :: name ++ [slash]) path with
  | Some (c :: rest) => Some (c :: rest)        (* {*rest} never matches the empty string *)
  | _ => None
  end.

(* axum Router::call: the service of the matching route, else the fallback *)
Fixpoint route (r : routes) (path : list N) : option service :=
  match r with
  | [] => None
  | s :: r' => match match_route (svc_name s) path with
               | Some _ => Some s
               | None => route r' path
               end
  end.

(* ---- generated `call`: first arm whose literal equals the path, else the default arm ---- *)
Fixpoint dispatch_arms (name : list N) (ms : list (list N)) (path : list N) : option (list N) :=
  match ms with
  | [] => None
  | m :: ms' => if bytes_eqb (method_path name m) path then Some m
                else dispatch_arms name ms' path
  end.
Definition dispatch (s : service) (path : list N) : option (list N) :=
  dispatch_arms (svc_name s) (svc_methods s) path.

Inductive outcome :=
| Handler (s m : list N)          (* the handler of method m of service s runs *)
| UnimplService (s : list N)      (* service s was reached, its default arm answered *)
| UnimplFallback.                 (* no route: Routes' fallback `unimplemented` answered *)

Definition serve (r : routes) (path : list N) : outcome :=
  match route r path with
  | None => UnimplFallback
  | Some s => match dispatch s path with
              | Some m => Handler (svc_name s) m
              | None => UnimplService (svc_name s)
              end
  end.

(* grpc-status response HEADER written by the router / the default arm (None: the handler's
   business) - both `Status::unimplemented("")` and `Code::Unimplemented as i32` *)
Definition status_header (o : outcome) : option N :=
  match o with
  | Handler _ _ => None
  | _ => Some Code_Unimplemented
  end.

Definition runs_handler (o : outcome) : bool :=
  match o with Handler _ _ => true | _ => false end.

(* ---- permutations, in the order the harness enumerates registration orders ---- *)
Fixpoint insert_all {A} (x : A) (l : list A) : list (list A) :=
  match l with
  | [] => [[x]]
  | y :: l' => (x :: l) :: map (cons y) (insert_all x l')
  end.
Fixpoint perms {A} (l : list A) : list (list A) :=
  match l with
  | [] => [[]]
  | x :: l' => flat_map (insert_all x) (perms l')
  end.

(* ---- observables ---- *)
Definition outcome_obs (o : outcome) : tr :=
  match o with
  | Handler s m => Nd [Nn 0; Bs s; Bs m]
  | UnimplService s => Nd [Nn 1; Bs s]
  | UnimplFallback => Nd [Nn 2]
  end.
Definition result_obs (o : outcome) : tr := Nd [outcome_obs o; oopt Nn (status_header o)].

(* registration in the given order, then one request *)
Definition obs_serve (l : list service) (path : list N) : tr :=
  match build l with
  | None => Nd [Nn 99]                       (* add_service panicked *)
  | Some r => result_obs (serve r path)
  end.
(* the same request against every registration order *)
Definition obs_orders (l : list service) (path : list N) : tr :=
  Nd (map (fun p => obs_serve p path) (perms l)).
(* does registration succeed *)
Definition obs_build (l : list service) : tr :=
  match build l with None => Nd [Nn 0] | Some r => Nd [Nn 1; Nn (nlen r)] end.
