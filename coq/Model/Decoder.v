(* Model of the receiving side of tonic's codec:
     tonic/src/codec/decode.rs   Streaming, StreamingInner::{decode_chunk, poll_frame, response},
                                 Streaming::{decode_chunk, poll_next}
     tonic/src/codec/compression.rs   decompress   (the library call is a Section variable)
     tonic/src/codec/buffer.rs   DecodeBuf (a window of exactly [len] bytes handed to the decoder)
   Same state fields, same branch order as the Rust.  Definitions only; proofs are in
   Proofs/Decoder.v.

   External code is a Section variable:
     deser      : the message decoder (tonic::codec::Decoder::decode) applied to exactly the payload
                  window; None = it returned Err.  MODELLING ASSUMPTION (stated in checks/C07.json):
                  a decoder consumes its whole window and never answers Ok(None) (prost does both).
     decompress : flate2 / zstd on exactly the [len] compressed bytes; None = io::Error.

   Panic sites of the Rust are explicit [KPanic]/[FPanic]/[Panic] outcomes:
     Buf::get_u8 / get_u32 (panic when fewer bytes remain), the slice [0..len] in decompress,
     Frame::into_data().unwrap() / into_trailers().unwrap(), panic!("unexpected frame").
   [usize] is modelled unbounded (64-bit target: a u32 length and 2*len always fit). *)
From Verif Require Import Lib.Bytes Lib.Obs Lib.BE32 Lib.HeaderMap Model.Frame Model.Status.
From Verif Require Import Gen.StatusTables.
Open Scope N_scope.

(* tonic/src/codec/mod.rs: const DEFAULT_MAX_RECV_MESSAGE_SIZE: usize = 4 * 1024 * 1024;
   (tied by the correspondence cases with max_message_size = None and declared lengths
   4194303 / 4194304 / 4194305) *)
Definition DEFAULT_MAX_RECV_MESSAGE_SIZE : N := 4194304.   (* = 4 * 1024 * 1024 *)

(* enum Direction *)
Inductive direction := Request | Response (http : N) | EmptyResponse.
Definition is_request (d : direction) : bool := match d with Request => true | _ => false end.

(* ghost events: where the code calls self.buf.reserve(len) *)
Inductive ghost := Reserve (n : N).

(* http_body::Frame<Bytes>: its Kind has exactly the two variants Data and Trailers *)
Inductive hframe := FData (b : list N) | FTrailers (t : hm).
Definition is_data (f : hframe) : bool := match f with FData _ => true | _ => false end.
Definition is_trailers (f : hframe) : bool := match f with FTrailers _ => true | _ => false end.
Definition into_data (f : hframe) : option (list N) := match f with FData b => Some b | _ => None end.
Definition into_trailers (f : hframe) : option hm := match f with FTrailers t => Some t | _ => None end.

(* scripted body: one event per poll; after the list the body answers End forever *)
Inductive bev := BPending | BData (b : list N) | BTrailers (t : hm) | BErr (st : status).
(* what one poll of the body answers *)
Inductive answer := APending | AFrame (f : hframe) | AErr (st : status) | AEnd.
Definition answer_of (e : bev) : answer :=
  match e with
  | BPending => APending
  | BData b => AFrame (FData b)
  | BTrailers t => AFrame (FTrailers t)
  | BErr st => AErr st
  end.

(* ghost bookkeeping of the body: how often it was polled with its script exhausted.
   vcommon::body::ScriptBody::polls_after_end = end_polls - 1 (it does not count the poll that
   first observes the end). *)
Record bstat := mkB { b_end_polls : N }.
Definition end_poll (g : bstat) : bstat := mkB (b_end_polls g + 1).
Definition polls_after_end (g : bstat) : N := b_end_polls g - 1.

(* statuses made by the decoder itself; texts are implementation defined, only the code is
   compared *)
Definition st_of_code (c : N) : status := mkStatus c [] [] [].
Definition st_flag_no_encoding : status := st_of_code Code_Internal.  (* compressed-flag but no grpc-encoding *)
Definition st_bad_flag : status := st_of_code Code_Internal.          (* invalid compression flag *)
Definition st_too_large : status := st_of_code Code_OutOfRange.       (* decoded message length too large *)
Definition st_decompress : status := st_of_code Code_Internal.        (* Error decompressing *)
Definition st_eof : status := st_of_code Code_Internal.               (* Unexpected EOF decoding stream. *)
Definition st_decode : status := st_of_code Code_Internal.            (* the Decoder's own error (prost: internal) *)

(* Buf::get_u8 / Buf::get_u32 (big endian): None = the panic of the bytes crate *)
Definition get_u8 (b : list N) : option (N * list N) :=
  match b with x :: r => Some (x, r) | [] => None end.
Definition get_u32 (b : list N) : option (N * list N) :=
  match b with a :: b :: c :: d :: r => Some (un_be32 a b c d, r) | _ => None end.

Section Decoder.
Context {enc msg : Type}.
Variable deser : list N -> option msg.
Variable decompress : enc -> list N -> option (list N).

(* enum State *)
Inductive dstate :=
| ReadHeader
| ReadBody (compression : option enc) (len : N)
| Error (st : option status).

(* struct StreamingInner (body is the event list, decompress_buf is scratch) *)
Record dec := mkDec {
  d_buf : list N;
  d_state : dstate;
  d_trailers : option hm;
  d_dir : direction;
  d_encoding : option enc;
  d_max : option N;
  d_log : list ghost }.

Definition with_state (d : dec) (s : dstate) : dec :=
  mkDec (d_buf d) s (d_trailers d) (d_dir d) (d_encoding d) (d_max d) (d_log d).
Definition with_buf (d : dec) (b : list N) : dec :=
  mkDec b (d_state d) (d_trailers d) (d_dir d) (d_encoding d) (d_max d) (d_log d).
Definition with_trailers (d : dec) (t : option hm) : dec :=
  mkDec (d_buf d) (d_state d) t (d_dir d) (d_encoding d) (d_max d) (d_log d).
Definition with_log (d : dec) (l : list ghost) : dec :=
  mkDec (d_buf d) (d_state d) (d_trailers d) (d_dir d) (d_encoding d) (d_max d) l.

(* Streaming::new *)
Definition dec_new (dir : direction) (encoding : option enc) (max : option N) : dec :=
  mkDec [] ReadHeader None dir encoding max [].

Definition limit_of (d : dec) : N :=
  match d_max d with Some l => l | None => DEFAULT_MAX_RECV_MESSAGE_SIZE end.

(* ---- StreamingInner::decode_chunk ------------------------------------------------------ *)
(* Ok(Some(DecodeBuf)) carries the window the decoder will read; [d] in [CSome p d] is the
   state once that window has been consumed *)
Inductive cres := CPanic | CErr (st : status) (d : dec) | CNone (d : dec) | CSome (p : list N) (d : dec).

(* second block: if let State::ReadBody { len, compression } = self.state *)
Definition read_body (d : dec) : cres :=
  match d_state d with
  | ReadBody compression len =>
      if nlen (d_buf d) <? len then CNone d
      else match compression with
           | Some e =>
               (* decompress(): &compressed_buf[0..len] panics if the buffer is shorter *)
               if nlen (d_buf d) <? len then CPanic
               else match decompress e (ntake len (d_buf d)) with
                    | None => CErr st_decompress d
                    | Some out => CSome out (with_buf d (ndrop len (d_buf d)))   (* advance(len) *)
                    end
           | None => CSome (ntake len (d_buf d)) (with_buf d (ndrop len (d_buf d)))
           end
  | _ => CNone d
  end.

Definition inner_decode_chunk (d : dec) : cres :=
  match d_state d with
  | ReadHeader =>
      if nlen (d_buf d) <? HEADER_SIZE then CNone d
      else match get_u8 (d_buf d) with
      | None => CPanic
      | Some (flag, b1) =>
          let d1 := with_buf d b1 in
          match (if flag =? 0 then inl None
                 else if flag =? 1 then
                   match d_encoding d with
                   | Some e => inl (Some e)
                   | None => inr st_flag_no_encoding
                   end
                 else inr st_bad_flag) with
          | inr st => CErr st d1
          | inl compression =>
              match get_u32 b1 with
              | None => CPanic
              | Some (len, b2) =>
                  let d2 := with_buf d b2 in
                  if limit_of d <? len then CErr st_too_large d2
                  else
                    (* self.buf.reserve(len) *)
                    let d3 := with_log d2 (d_log d ++ [Reserve len]) in
                    read_body (with_state d3 (ReadBody compression len))
              end
          end
      end
  | _ => read_body d
  end.

(* ---- Streaming::decode_chunk ------------------------------------------------------------ *)
Inductive chunk := KPanic | KErr (st : status) (d : dec) | KNone (d : dec) | KItem (m : msg) (d : dec).

Definition decode_chunk (d : dec) : chunk :=
  match inner_decode_chunk d with
  | CPanic => KPanic
  | CErr st d' => KErr st d'
  | CNone d' => KNone d'
  | CSome p d' =>
      match deser p with
      | Some m => KItem m (with_state d' ReadHeader)
      | None => KErr st_decode d'
      end
  end.

(* ---- StreamingInner::poll_frame --------------------------------------------------------- *)
(* http::HeaderMap holds at most 24576 distinct names (raw capacity MAX_SIZE = 2^15, usable
   capacity 3/4 of it).  HeaderMap::extend on a NON-EMPTY self panics exactly when the number
   of distinct names reaches that bound before the last name of the argument is processed.
   The model over-approximates: Panic whenever the two blocks together hold more than 24576
   ENTRIES (entries >= distinct names, so every real panic is inside this class; a first
   trailers block never panics here - it replaces None without any extend). *)
Definition HM_MAX_NAMES : N := 24576.
Definition extend_may_panic (old : option hm) (t : hm) : bool :=
  match old with
  | Some t0 => HM_MAX_NAMES <? nlen t0 + nlen t
  | None => false
  end.

(* StreamingInner::is_incomplete: a message is incomplete if bytes are left over, or if its
   header has been consumed and its payload is still outstanding *)
Definition is_incomplete (d : dec) : bool :=
  match d_buf d with [] => false | _ :: _ => true end ||
  match d_state d with ReadBody _ _ => true | _ => false end.

(* FSome = Ok(Some(())), FNone = Ok(None), FErr = Err(status) *)
Inductive fres := FPending | FPanic | FSome (d : dec) | FNone (d : dec) | FErr (st : status) (d : dec).

Definition poll_frame (a : answer) (d : dec) : fres :=
  match a with
  | APending => FPending
  | AErr st =>
      if is_request (d_dir d) && (st_code st =? Code_Cancelled) then FNone d
      else FErr st (with_state d (Error (Some st)))
  | AEnd => if is_incomplete d then FErr st_eof d else FNone d
  | AFrame f =>
      if is_data f then
        match into_data f with
        | Some b => FSome (with_buf d (d_buf d ++ b))
        | None => FPanic
        end
      else if is_trailers f then
        match into_trailers f with
        | Some t =>
            (* trailers.extend(..) panics ("size overflows MAX_SIZE") when the map would need
               more than 24576 distinct names; over-approximated by the entry counts *)
            if extend_may_panic (d_trailers d) t then FPanic
            else
            FNone (with_trailers d (Some (match d_trailers d with
                                          | Some t0 => hm_extend t0 t
                                          | None => t
                                          end)))
        | None => FPanic
        end
      else FPanic                                   (* panic!("unexpected frame") *)
  end.

(* ---- StreamingInner::response ----------------------------------------------------------- *)
Definition response (d : dec) : (unit + status) * dec :=
  match d_dir d with
  | Response http =>
      match infer_grpc_status (d_trailers d) http with
      | inr (Some e) => (inr e, with_trailers d None)
      | _ => (inl tt, d)
      end
  | _ => (inl tt, d)
  end.

(* ---- Stream::poll_next ------------------------------------------------------------------ *)
Inductive item := IOk (m : msg) | IErr (st : status).
Inductive pres := Pending | Item (i : item) | Done | Panic.

(* Ok(None) from poll_frame: response();
   Ok and trailers present and a message still incomplete -> state = Error(None),
     Ready(Some(Err(INTERNAL "Unexpected EOF decoding stream.")))          (fix c94b9d29);
   Ok otherwise -> Ready(None);
   Err(err) -> state = Error(Some(err)), and the next loop iteration takes it out again:
     Ready(Some(Err(err))), state = Error(None) *)
Definition after_none (d : dec) : pres * dec :=
  match response d with
  | (inl _, d') =>
      if match d_trailers d' with Some _ => true | None => false end && is_incomplete d'
      then (Item (IErr st_eof), with_state d' (Error None))
      else (Done, d')
  | (inr e, d') => (Item (IErr e), with_state d' (Error None))
  end.

(* One call of poll_next.  Every iteration of its loop either returns or consumes one body
   event, hence structural recursion on the event list. *)
Fixpoint poll_next (evs : list bev) (g : bstat) (d : dec) {struct evs} : pres * dec * list bev * bstat :=
  match d_state d with
  | Error st =>
      (* return Poll::Ready(status.take().map(Err)) *)
      (match st with Some e => Item (IErr e) | None => Done end, with_state d (Error None), evs, g)
  | _ =>
      match decode_chunk d with
      | KPanic => (Panic, d, evs, g)
      | KItem m d1 => (Item (IOk m), d1, evs, g)
      | KErr st d1 => (Item (IErr st), with_state d1 (Error None), evs, g)
      | KNone d1 =>
          match evs with
          | [] =>
              let g' := end_poll g in
              match poll_frame AEnd d1 with
              | FNone d2 => let '(r, d3) := after_none d2 in (r, d3, [], g')
              | FErr st d2 => (Item (IErr st), with_state d2 (Error None), [], g')
              | _ => (Panic, d1, [], g')          (* an ended body yields neither a frame nor Pending *)
              end
          | ev :: evs' =>
              match poll_frame (answer_of ev) d1 with
              | FPending => (Pending, d1, evs', g)
              | FPanic => (Panic, d1, evs', g)
              | FSome d2 => poll_next evs' g d2
              | FNone d2 => let '(r, d3) := after_none d2 in (r, d3, evs', g)
              | FErr st d2 => (Item (IErr st), with_state d2 (Error None), evs', g)
              end
          end
      end
  end.

Definition dec_poll := poll_next.

(* poll exactly [n] times, whatever the answers *)
Fixpoint polls (n : nat) (evs : list bev) (g : bstat) (d : dec) : list pres * (dec * list bev * bstat) :=
  match n with
  | O => ([], (d, evs, g))
  | S k =>
      let '(r, d', evs', g') := dec_poll evs g d in
      let '(tr, fin) := polls k evs' g' d' in
      (r :: tr, fin)
  end.

(* a caller that drains the stream: poll until Ready(None), re-polling after Pending.
   [None] = out of fuel (the caller would still be polling) *)
Fixpoint drain (fuel : nat) (evs : list bev) (g : bstat) (d : dec)
  : list pres * option (dec * list bev * bstat) :=
  match fuel with
  | O => ([], None)
  | S k =>
      let '(r, d', evs', g') := dec_poll evs g d in
      match r with
      | Done => ([Done], Some (d', evs', g'))
      | _ => let '(tr, fin) := drain k evs' g' d' in (r :: tr, fin)
      end
  end.

(* ---- the wire grammar, independently of the decoder ------------------------------------- *)
End Decoder.

Arguments ReadHeader {enc}.
Arguments Error {enc} st.
Arguments dec : clear implicits.
Arguments dstate : clear implicits.
Arguments chunk : clear implicits.
Arguments cres : clear implicits.
Arguments fres : clear implicits.
Arguments item : clear implicits.
Arguments pres : clear implicits.
Arguments Pending {msg}.
Arguments Done {msg}.
Arguments Panic {msg}.
Arguments IErr {msg} st.
Arguments FPending {enc}.
Arguments FPanic {enc}.
Arguments CPanic {enc}.
Arguments KPanic {enc msg}.

(* Length-Prefixed-Message = flag(1) length(4, big endian) payload(length).  [frames bs] is
   the batch parse of a complete byte string into (flag, payload) pairs, stopping at the
   first incomplete frame.  It knows nothing about flags, limits, compression or chunks. *)
Fixpoint frames_fuel (fuel : nat) (bs : list N) : list (N * list N) :=
  match fuel with
  | O => []
  | S k =>
      match bs with
      | fl :: a :: b :: c :: d :: r =>
          let len := un_be32 a b c d in
          if nlen r <? len then []
          else (fl, ntake len r) :: frames_fuel k (ndrop len r)
      | _ => []
      end
  end.
Definition frames (bs : list N) : list (N * list N) := frames_fuel (length bs) bs.

Definition data_of (evs : list bev) : list N :=
  concat (map (fun e => match e with BData b => b | _ => [] end) evs).

(* the message a well-formed frame stands for under a negotiated encoding *)
Definition frame_msg {enc msg} (deser : list N -> option msg)
           (decompress : enc -> list N -> option (list N))
           (encoding : option enc) (f : N * list N) : option msg :=
  let '(fl, p) := f in
  if fl =? 0 then deser p
  else if fl =? 1 then
    match encoding with
    | Some e => match decompress e p with Some q => deser q | None => None end
    | None => None
    end
  else None.

(* ---- vocabulary of the property statements (Props/C07.v, and the C01 / C06 halves) -------- *)
Definition U32 : N := 4294967296.
(* the wire bytes of a (flag, payload) pair *)
Definition raw (f : N * list N) : list N := frame (fst f) (snd f).
(* data chunks hold bytes *)
Definition ev_ok (e : bev) : Prop := match e with BData b => bytes_ok b = true | _ => True end.
(* a script made of data chunks and Pending only *)
Definition only_dp (evs : list bev) : Prop :=
  Forall (fun e => match e with BPending | BData _ => True | _ => False end) evs.
(* a script of data chunks and Pending that then ends plainly or with one trailers frame *)
Fixpoint data_then_end (evs : list bev) : Prop :=
  match evs with
  | [] => True
  | e :: r =>
      match e with
      | BPending | BData _ => data_then_end r
      | BTrailers _ => match r with [] => True | _ :: _ => False end
      | BErr _ => False
      end
  end.
(* header entries a decoder already holds as trailers plus those still to come in the script:
   the bound under which no second trailers block can overflow http's HeaderMap *)
Fixpoint trailers_in (evs : list bev) : N :=
  match evs with
  | [] => 0
  | BTrailers t :: r => nlen t + trailers_in r
  | _ :: r => trailers_in r
  end.
Definition trailer_load {enc} (d : dec enc) (evs : list bev) : N :=
  match d_trailers d with Some t => nlen t | None => 0 end + trailers_in evs.
(* the messages among a sequence of poll results *)
Definition oks_of {msg} (t : list (pres msg)) : list msg :=
  flat_map (fun r => match r with Item (IOk m) => [m] | _ => [] end) t.
Definition is_pending {msg} (r : pres msg) : bool := match r with Pending => true | _ => false end.
Definition strip_pending {msg} (t : list (pres msg)) : list (pres msg) :=
  filter (fun r => negb (is_pending r)) t.
(* response() finds no error status: always for Request / EmptyResponse *)
Definition resp_ok (dir : direction) (tr : option hm) : Prop :=
  match dir with
  | Response http => match infer_grpc_status tr http with inr (Some _) => False | _ => True end
  | _ => True
  end.
(* how a well-behaved script ends: the body just ends, or one trailers frame; in both cases
   with a status that is not an error *)
Definition term_ok (dir : direction) (tr0 : option hm) (term : list bev) : Prop :=
  (term = [] /\ resp_ok dir tr0) \/
  (exists t, term = [BTrailers t] /\
     resp_ok dir (Some (match tr0 with Some t0 => hm_extend t0 t | None => t end))).
(* a frame that stands for message [m] and passes the size limit *)
Definition good {enc msg} (deser : list N -> option msg) (decompress : enc -> list N -> option (list N))
           (lim : N) (e0 : option enc) (f : N * list N) (m : msg) : Prop :=
  frame_msg deser decompress e0 f = Some m /\ nlen (snd f) < U32 /\ nlen (snd f) <= lim.
Definition legal_flag {enc} (d : dec enc) (fl : N) : Prop := fl = 0 \/ (fl = 1 /\ d_encoding d <> None).
Definition chunk_log {enc msg} (k : chunk enc msg) (dflt : list ghost) : list ghost :=
  match k with KErr _ d' | KNone d' | KItem _ d' => d_log d' | KPanic => dflt end.
Definition chunk_is_oor {enc msg} (k : chunk enc msg) : bool :=
  match k with KErr st _ => st_code st =? Code_OutOfRange | _ => false end.
(* what an encoder puts on the wire for one message: compressed (flag 1, only under a negotiated
   encoding) or identity (flag 0; also the per-message compression override) *)
Definition wire_frame {enc msg} (ser : msg -> list N) (compress : enc -> list N -> list N)
           (encoding : option enc) (compressed : bool) (m : msg) : N * list N :=
  match compressed, encoding with
  | true, Some e => (1, compress e (ser m))
  | _, _ => (0, ser m)
  end.

(* ---- executable instance and observables (correspondence harness h_decode) --------------- *)
(* encodings are numbered 0 gzip, 1 deflate, 2 zstd; the raw-bytes decoder of the harness fails
   on payloads whose first byte is 0xFF; the results of the real decompressors on the flagged
   payloads of the case are passed in as a table *)
Definition deser_raw (p : list N) : option (list N) :=
  match p with 255 :: _ => None | _ => Some p end.
Fixpoint ztab_lookup (t : list (N * list N * option (list N))) (e : N) (p : list N) : option (list N) :=
  match t with
  | [] => None
  | (e', p', r) :: t' => if (e' =? e) && bytes_eqb p' p then r else ztab_lookup t' e p
  end.

(* payloads above 4096 bytes are compared by length and a digest (the harness's direct oracle
   still compares them byte by byte with the input) *)
Definition digest (p : list N) : N :=
  fold_left (fun h b => (h * 31 + b + 1) mod 4294967291) p 7.
Definition pres_obs (r : pres (list N)) : tr :=
  match r with
  | Pending => Nd [Nn 0]
  | Item (IOk m) => if 4096 <? nlen m then Nd [Nn 1; Nn (nlen m); Nn (digest m)] else Nd [Nn 1; Bs m]
  | Item (IErr st) => Nd [Nn 2; Nn (st_code st)]
  | Done => Nd [Nn 3]
  | Panic => Nd [Nn 4]
  end.

(* the prost decoder's verdict on the payloads of the case, passed in as a table by the harness
   (Some canonical re-encoding of the decoded message | None = DecodeError); payloads that are
   not in the table fail *)
Fixpoint ptab_lookup (t : list (list N * option (list N))) (p : list N) : option (list N) :=
  match t with
  | [] => None
  | (p', r) :: t' => if bytes_eqb p' p then r else ptab_lookup t' p
  end.

(* [n] distinct header names "x<tag>-<i>" with value "v": large trailers blocks *)
Fixpoint dec_digits (fuel : nat) (n : N) (acc : list N) : list N :=
  match fuel with
  | O => acc
  | S f => if n <? 10 then (48 + n) :: acc else dec_digits f (n / 10) ((48 + n mod 10) :: acc)
  end.
Fixpoint names_from (k : nat) (i tag : N) : hm :=
  match k with
  | O => []
  | S k' => ([120; 48 + tag; 45] ++ dec_digits 20 i [], [118]) :: names_from k' (i + 1) tag
  end.
Definition names_hm (n tag : N) : hm := names_from (N.to_nat n) 0 tag.

(* the ghost Reserve log against the allocation meter of the harness: [A] = largest single
   allocation observed while polling, [R] = largest Reserve of the model's log.
   (1) nothing is allocated without a Reserve (or received data / decompression estimate 2*len)
       to justify it;  (2) a large Reserve is really allocated. *)
Definition max_reserve (l : list ghost) : N :=
  fold_left (fun a g => match g with Reserve n => N.max a n end) l 0.
Definition reserve_tie (R A data bs : N) : tr :=
  obool ((A <=? 2 * R + 4 * data + 2 * bs + 1048576) &&
         ((R <? 65536 + data + 2 * bs) || (R <=? A))).

Fixpoint until_panic {msg} (t : list (pres msg)) : list (pres msg) :=
  match t with
  | [] => []
  | Panic :: _ => [Panic]
  | r :: t' => r :: until_panic t'
  end.

(* drain with [fuel] polls, then [extra] more polls; both traces and the ScriptBody counter
   after each phase; (Nd [Nn 5]) closes a drain that ran out of fuel.  Second component: the
   largest Reserve logged (None when the drain ran out of fuel). *)
Definition obs_decode_gen (deser : list N -> option (list N)) (dir : direction) (encoding : option N)
           (max : option N) (ztab : list (N * list N * option (list N))) (evs : list bev)
           (fuel extra : N) : tr * option N :=
  let dz := ztab_lookup ztab in
  let d0 := dec_new dir encoding max in
  match drain deser dz (N.to_nat fuel) evs (mkB 0) d0 with
  | (t1, None) => (Nd [Nd (map pres_obs t1 ++ [Nd [Nn 5]])], None)
  | (t1, Some (d1, evs1, g1)) =>
      let '(t2, (d2, _, g2)) := polls deser dz (N.to_nat extra) evs1 g1 d1 in
      (* a caller stops at a panic: what follows it is not observable *)
      if existsb (fun r => match r with Panic => true | _ => false end) t2 then
        (Nd [Nd (map pres_obs t1); Nn (polls_after_end g1); Nd (map pres_obs (until_panic t2))], None)
      else
      (Nd [Nd (map pres_obs t1); Nn (polls_after_end g1); Nd (map pres_obs t2); Nn (polls_after_end g2)],
       Some (max_reserve (d_log d2)))
  end.

Definition obs_decode (dir : direction) (encoding : option N) (max : option N)
           (ztab : list (N * list N * option (list N))) (evs : list bev) (fuel extra : N) : tr :=
  fst (obs_decode_gen deser_raw dir encoding max ztab evs fuel extra).

(* what h_decode compares: the poll results, and the Reserve log against the allocation meter.
   [ptab] = None: the raw-bytes decoder; Some table: the real ProstCodec decoder's verdicts *)
Definition obs_case (ptab : option (list (list N * option (list N)))) (dir : direction)
           (encoding : option N) (max : option N) (ztab : list (N * list N * option (list N)))
           (evs : list bev) (fuel extra A data bs : N) : tr :=
  let deser := match ptab with Some t => ptab_lookup t | None => deser_raw end in
  let '(o, r) := obs_decode_gen deser dir encoding max ztab evs fuel extra in
  Nd [o; match r with Some R => reserve_tie R A data bs | None => obool true end].
