(* C15 - TLS wiring of tonic's channel and server (the WIRING DECISION only).

   Transcribed from
     tonic/src/transport/service/tls.rs            ALPN_H2, convert_certificate_to_pki_types,
                                                   convert_identity_to_pki_types, TlsError
     tonic/src/transport/channel/tls.rs            ClientTlsConfig, into_tls_connector, with_enabled_roots
     tonic/src/transport/channel/service/tls.rs    TlsConnector::new, TlsConnector::connect
     tonic/src/transport/channel/service/connector.rs   Connector::call
     tonic/src/transport/channel/endpoint.rs       Endpoint::new / origin / tls_config / connector
     tonic/src/transport/channel/service/connection.rs  which URI goes where (connector / AddOrigin)
     tonic/src/transport/server/tls.rs             ServerTlsConfig, tls_acceptor
     tonic/src/transport/server/service/tls.rs     TlsAcceptor::new
     tonic/src/transport/server/mod.rs             Server::tls_config / layer / setters / serve_internal
     tonic/src/transport/server/io_stream.rs       ServerIoStream::poll_next (what the listener yields)
     tonic/src/transport/server/conn.rs            Connected for TlsStream (peer_certificates)
     tonic/src/transport/server/service/io.rs      ServerIo::connect_info, ConnectInfo::call (request extensions)
     tonic/src/request.rs                          Request::peer_certs

   rustls is NOT modelled: the TLS handshake is two oracle functions ([rustls_connect],
   [rustls_accept]) that are Section variables; everything cryptographic (chain building,
   signature checks, name matching, validity) is summarised by three oracle predicates
   [chain_ok roots cert], [name_ok domain cert], [client_cert_ok ca cert].  The laws assumed of
   the two handshake oracles are section hypotheses in Proofs/Tls.v.  For execution (matrix,
   correspondence run) a reference instance [ref_connect]/[ref_accept] is given that is
   determined by the three predicates; the harness compares it with real rustls handshakes.

   No proofs in this file. *)
From Coq Require Import List Bool NArith.
From Verif Require Import Lib.Obs.
Import ListNotations.
Open Scope N_scope.

(* ------------------------------------------------------------------ protocols, schemes *)
Definition proto := list N.
Definition ALPN_H2 : proto := [104; 50].                          (* service/tls.rs: b"h2" *)
Definition ALPN_HTTP11 : proto := [104; 116; 116; 112; 47; 49; 46; 49].     (* "http/1.1" *)
Definition proto_eqb (a b : proto) : bool := list_eqb N.eqb a b.
Definition oproto_eqb (a b : option proto) : bool :=
  match a, b with
  | None, None => true
  | Some x, Some y => proto_eqb x y
  | _, _ => false
  end.

(* connector.rs: [uri.scheme_str() == Some("https")]; anything else is "not https" *)
Inductive scheme := Http | Https | OtherScheme.
Definition is_https (s : scheme) : bool := match s with Https => true | _ => false end.

(* errors *)
Inductive tls_err :=                                                    (* rustls' *)
| EAlpnAbort | EBadChain | EBadSignature | EBadName | ENotTls | EOtherTls.
Inductive conn_err :=
| HttpsUriWithoutTlsSupport            (* connector.rs *)
| H2NotNegotiated                      (* service/tls.rs, TlsError::H2NotNegotiated *)
| TlsHandshake (e : tls_err).          (* the [?] after RustlsConnector::connect *)
Inductive cfg_err :=
| EInvalidUri | EInvalidDnsName | ENativeCertsNotFound | EInvalidTlsConfigForUds
| ECertificateParse        (* service/tls.rs TlsError::CertificateParseError *)
| EPrivateKeyParse         (* service/tls.rs TlsError::PrivateKeyParseError *)
| ENoRootAnchors           (* WebPkiClientVerifier::builder(<empty store>).build() *)
| ERustlsKey.              (* with_client_auth_cert / with_single_cert: no certificate, an
                              undecodable leaf, a key that provably is not the leaf's *)

Inductive neg := NegAbort | NegNone | NegProto (p : proto).

(* ------------------------------------------------------------------ PEM inputs *)
(* tonic's [Certificate] is a PEM blob.  What rustls-pki-types' [pem_reader_iter] makes of it:
   text outside sections and sections of another kind (keys) are skipped, so a blob is the list
   of its CERTIFICATE sections; a section is a certificate, or well-formed base64 that is not a
   certificate (kept by the PEM reader, dropped later by [add_parsable_certificates]), or
   undecodable / truncated (the reader fails) *)
Inductive pem_sec (A : Type) := SecCert (x : A) | SecJunk | SecBroken.
Arguments SecCert {A} x.
Arguments SecJunk {A}.
Arguments SecBroken {A}.
Inductive der (A : Type) := DerCert (x : A) | DerJunk.
Arguments DerCert {A} x.
Arguments DerJunk {A}.

Section Pem.
  Context {A : Type}.
  (* service/tls.rs convert_certificate_to_pki_types:
       pem_reader_iter(..).collect::<Result<Vec<_>, _>>().map_err(|_| CertificateParseError) *)
  Fixpoint convert_certificate (p : list (pem_sec A)) : option (list (der A)) :=
    match p with
    | [] => Some []
    | SecBroken :: _ => None
    | SecCert x :: r =>
        match convert_certificate r with Some l => Some (DerCert x :: l) | None => None end
    | SecJunk :: r =>
        match convert_certificate r with Some l => Some (DerJunk :: l) | None => None end
    end.
  (* RootCertStore::add_parsable_certificates: what does not parse is skipped *)
  Definition add_parsable (l : list (der A)) : list A :=
    flat_map (fun d => match d with DerCert x => [x] | DerJunk => [] end) l.

  (* specification vocabulary: the certificates of a blob, and "every section decodes" *)
  Definition pem_certs (p : list (pem_sec A)) : list A :=
    flat_map (fun s => match s with SecCert x => [x] | _ => [] end) p.
  Definition pem_decodes (p : list (pem_sec A)) : bool :=
    forallb (fun s => match s with SecBroken => false | _ => true end) p.
End Pem.

(* tonic's [Identity]: a certificate blob and a key blob.  [id_key = Some c]: the blob holds the
   private key that belongs to certificate [c]; [None]: it holds no private key section, or one
   that does not decode (PrivateKeyDer::from_pem_reader fails either way) *)
Record Identity (cert : Type) := { id_cert : list (pem_sec cert); id_key : option cert }.
Arguments id_cert {cert} i.
Arguments id_key {cert} i.

Section Wiring.
  (* certificates, CA certificates / trust anchors, DNS names: opaque *)
  Context {cert ca dname : Type}.

  (* what rustls decides, as oracles *)
  Variable chain_ok : list ca -> cert -> bool.        (* cert chains to one of the roots *)
  Variable name_ok : dname -> cert -> bool.           (* cert is valid for the name *)
  Variable client_cert_ok : ca -> cert -> bool.       (* client cert issued by that CA *)
  Variable valid_name : dname -> bool.                (* ServerName::try_from succeeds *)
  Variable key_matches : cert -> cert -> bool.        (* the private key of the first is the key the
                                                         second certifies (CertifiedKey::keys_match) *)

  (* the build and the platform *)
  (* cargo features of the tonic build.  [f_tls] is [_tls-any] (tls-ring / tls-aws-lc): without
     it the [is_https] branch of Connector::call, Endpoint::tls_config and Server::tls_config
     do not exist *)
  Record features := { f_tls : bool; f_native_roots : bool; f_webpki_roots : bool }.
  Variable native_certs : list ca.                    (* rustls_native_certs::load_native_certs *)
  Variable webpki_roots : list ca.                    (* webpki_roots::TLS_SERVER_ROOTS *)

  (* ---------------------------------------------------------------- service/tls.rs *)
  (* convert_identity_to_pki_types (certificate blob, then key blob) followed by what rustls'
     with_client_auth_cert / with_single_cert do with the pair (CertifiedKey::from_der: the chain
     must not be empty, its first certificate must decode, the key must not provably belong to
     another certificate).  The result is the leaf that will be presented. *)
  Definition certified_key (id : Identity cert) : cfg_err + cert :=
    match convert_certificate (id_cert id) with
    | None => inl ECertificateParse
    | Some chain =>
        match id_key id with
        | None => inl EPrivateKeyParse
        | Some k =>
            match chain with
            | [] => inl ERustlsKey                          (* NoCertificatesPresented *)
            | DerJunk :: _ => inl ERustlsKey                (* InvalidCertificate(BadEncoding) *)
            | DerCert leaf :: _ =>
                if key_matches k leaf then inr leaf
                else inl ERustlsKey                         (* InconsistentKeys(KeyMismatch) *)
            end
        end
    end.

  (* specification vocabulary: the certificate a configured identity presents *)
  Definition identity_leaf (o : option (Identity cert)) : option cert :=
    match o with
    | Some id => match certified_key id with inr leaf => Some leaf | inl _ => None end
    | None => None
    end.

  (* ---------------------------------------------------------------- channel/tls.rs *)
  Record ClientTlsConfig := {
    c_domain : option dname;
    c_certs : list (list (pem_sec ca));           (* Vec<Certificate>: one blob per call *)
    c_trust_anchors : list ca;
    c_identity : option (Identity cert);
    c_assume_http2 : bool;
    c_with_native_roots : bool;
    c_with_webpki_roots : bool }.

  Definition client_tls_config_new : ClientTlsConfig :=
    {| c_domain := None; c_certs := []; c_trust_anchors := []; c_identity := None;
       c_assume_http2 := false; c_with_native_roots := false; c_with_webpki_roots := false |}.

  Definition domain_name (c : ClientTlsConfig) (d : dname) :=
    {| c_domain := Some d; c_certs := c_certs c; c_trust_anchors := c_trust_anchors c;
       c_identity := c_identity c; c_assume_http2 := c_assume_http2 c;
       c_with_native_roots := c_with_native_roots c; c_with_webpki_roots := c_with_webpki_roots c |}.
  Definition ca_certificate (c : ClientTlsConfig) (x : list (pem_sec ca)) :=
    {| c_domain := c_domain c; c_certs := c_certs c ++ [x]; c_trust_anchors := c_trust_anchors c;
       c_identity := c_identity c; c_assume_http2 := c_assume_http2 c;
       c_with_native_roots := c_with_native_roots c; c_with_webpki_roots := c_with_webpki_roots c |}.
  Definition trust_anchor (c : ClientTlsConfig) (x : ca) :=
    {| c_domain := c_domain c; c_certs := c_certs c; c_trust_anchors := c_trust_anchors c ++ [x];
       c_identity := c_identity c; c_assume_http2 := c_assume_http2 c;
       c_with_native_roots := c_with_native_roots c; c_with_webpki_roots := c_with_webpki_roots c |}.
  Definition identity (c : ClientTlsConfig) (i : Identity cert) :=
    {| c_domain := c_domain c; c_certs := c_certs c; c_trust_anchors := c_trust_anchors c;
       c_identity := Some i; c_assume_http2 := c_assume_http2 c;
       c_with_native_roots := c_with_native_roots c; c_with_webpki_roots := c_with_webpki_roots c |}.
  Definition assume_http2 (c : ClientTlsConfig) (b : bool) :=
    {| c_domain := c_domain c; c_certs := c_certs c; c_trust_anchors := c_trust_anchors c;
       c_identity := c_identity c; c_assume_http2 := b;
       c_with_native_roots := c_with_native_roots c; c_with_webpki_roots := c_with_webpki_roots c |}.

  (* cfg(feature = "tls-native-roots") / cfg(feature = "tls-webpki-roots"): the setters exist
     only in builds with the feature *)
  Definition with_native_roots (c : ClientTlsConfig) :=
    {| c_domain := c_domain c; c_certs := c_certs c; c_trust_anchors := c_trust_anchors c;
       c_identity := c_identity c; c_assume_http2 := c_assume_http2 c;
       c_with_native_roots := true; c_with_webpki_roots := c_with_webpki_roots c |}.
  Definition with_webpki_roots (c : ClientTlsConfig) :=
    {| c_domain := c_domain c; c_certs := c_certs c; c_trust_anchors := c_trust_anchors c;
       c_identity := c_identity c; c_assume_http2 := c_assume_http2 c;
       c_with_native_roots := c_with_native_roots c; c_with_webpki_roots := true |}.

  (* [with_enabled_roots(self)] starts from [ClientTlsConfig::new()]: [self] is dropped *)
  Definition with_enabled_roots (f : features) (_self : ClientTlsConfig) : ClientTlsConfig :=
    {| c_domain := None; c_certs := []; c_trust_anchors := []; c_identity := None;
       c_assume_http2 := false;
       c_with_native_roots := f_native_roots f; c_with_webpki_roots := f_webpki_roots f |}.

  Inductive cli_setter :=
  | CSetCa (blob : list (pem_sec ca)) | CSetDomain (d : dname) | CSetIdentity (i : Identity cert)
  | CSetAssume (b : bool).
  Definition apply_cli_setter (c : ClientTlsConfig) (s : cli_setter) : ClientTlsConfig :=
    match s with
    | CSetCa blob => ca_certificate c blob
    | CSetDomain d => domain_name c d
    | CSetIdentity i => identity c i
    | CSetAssume b => assume_http2 c b
    end.

  (* ---------------------------------------------------------------- channel/service/tls.rs *)
  Record TlsConnector := {
    tc_roots : list ca;               (* config: the root store *)
    tc_identity : option cert;        (* config: client auth cert (the leaf) *)
    tc_alpn : list proto;             (* config.alpn_protocols *)
    tc_domain : dname;
    tc_assume_http2 : bool }.

  (* [for cert in ca_certs { roots.add_parsable_certificates(convert_certificate_to_pki_types(&cert)?) }] *)
  Fixpoint add_ca_certs (roots : list ca) (ca_certs : list (list (pem_sec ca))) : cfg_err + list ca :=
    match ca_certs with
    | [] => inr roots
    | c :: r =>
        match convert_certificate c with
        | None => inl ECertificateParse
        | Some ders => add_ca_certs (roots ++ add_parsable ders) r
        end
    end.

  (* TlsConnector::new, in the order of the code: trust anchors, platform roots, webpki roots,
     the CA blobs, the identity, the server name *)
  Definition tls_connector_new (f : features) (ca_certs : list (list (pem_sec ca)))
      (trust_anchors : list ca) (ident : option (Identity cert)) (domain : dname) (assume : bool)
      (with_native with_webpki : bool) : cfg_err + TlsConnector :=
    let roots := trust_anchors in
    match (if f_native_roots f && with_native
           then match native_certs with
                | [] => inl ENativeCertsNotFound
                | _ => inr (roots ++ native_certs)
                end
           else inr roots) with
    | inl e => inl e
    | inr roots =>
        let roots := if f_webpki_roots f && with_webpki then roots ++ webpki_roots else roots in
        match add_ca_certs roots ca_certs with
        | inl e => inl e
        | inr roots =>
            match (match ident with
                   | Some id => match certified_key id with
                                | inl e => inl e
                                | inr leaf => inr (Some leaf)
                                end
                   | None => inr None
                   end) with
            | inl e => inl e
            | inr client_cert =>
                if valid_name domain
                then inr {| tc_roots := roots; tc_identity := client_cert; tc_alpn := [ALPN_H2];
                            tc_domain := domain; tc_assume_http2 := assume |}
                else inl EInvalidDnsName
            end
        end
    end.

  (* ClientTlsConfig::into_tls_connector(self, uri) *)
  Definition into_tls_connector (f : features) (c : ClientTlsConfig) (uri_host : option dname)
      : cfg_err + TlsConnector :=
    match (match c_domain c with Some d => Some d | None => uri_host end) with
    | None => inl EInvalidUri
    | Some domain =>
        tls_connector_new f (c_certs c) (c_trust_anchors c) (c_identity c) domain
          (c_assume_http2 c) (c_with_native_roots c) (c_with_webpki_roots c)
    end.

  (* ---------------------------------------------------------------- channel/endpoint.rs *)
  (* [e_uds]: EndpointType::Uds (then [uri()] is the fallback http://tonic);
     [e_scheme]/[e_host]: the endpoint URI; [e_origin]: the optional origin override
     (scheme, host) *)
  Record Endpoint := {
    e_uds : bool;
    e_scheme : scheme; e_host : option dname;
    e_origin : option (scheme * option dname);
    e_tls : option TlsConnector }.

  (* Endpoint::from_static / from_shared / new_uri *)
  Definition endpoint_from_uri (s : scheme) (h : option dname) : Endpoint :=
    {| e_uds := false; e_scheme := s; e_host := h; e_origin := None; e_tls := None |}.
  (* from_shared("unix:..."): new_uds *)
  Definition endpoint_from_uds : Endpoint :=
    {| e_uds := true; e_scheme := Http; e_host := None; e_origin := None; e_tls := None |}.

  (* Endpoint::origin: Endpoint { origin: Some(origin), ..self } *)
  Definition endpoint_origin (e : Endpoint) (o : scheme * option dname) : Endpoint :=
    {| e_uds := e_uds e; e_scheme := e_scheme e; e_host := e_host e; e_origin := Some o;
       e_tls := e_tls e |}.
  Definition apply_origin (o : option (scheme * option dname)) (e : Endpoint) : Endpoint :=
    match o with Some x => endpoint_origin e x | None => e end.

  (* Endpoint::tls_config: for a Uri endpoint into_tls_connector(uri) with the endpoint URI as it
     is at the time of the call (the origin is not consulted), replacing any earlier connector;
     for a Uds endpoint an error *)
  Definition endpoint_tls_config (f : features) (e : Endpoint) (c : ClientTlsConfig)
      : cfg_err + Endpoint :=
    if e_uds e then inl EInvalidTlsConfigForUds
    else match into_tls_connector f c (e_host e) with
         | inl err => inl err
         | inr t => inr {| e_uds := e_uds e; e_scheme := e_scheme e; e_host := e_host e;
                           e_origin := e_origin e; e_tls := Some t |}
         end.

  (* Endpoint::new (used by generated clients' [connect]) *)
  Definition endpoint_new_of (f : features) (me : Endpoint) : cfg_err + Endpoint :=
    if negb (e_uds me) && is_https (e_scheme me)
    then endpoint_tls_config f me (with_enabled_roots f client_tls_config_new)
    else inr me.
  Definition endpoint_new (f : features) (s : scheme) (h : option dname) : cfg_err + Endpoint :=
    endpoint_new_of f (endpoint_from_uri s h).

  (* connection.rs: the connector is called with [endpoint.uri()] (Reconnect::new), requests get
     the scheme and authority of [origin.unwrap_or(uri)] (AddOrigin::new) *)
  Definition connect_uri (e : Endpoint) : scheme * option dname := (e_scheme e, e_host e).
  Definition request_target (e : Endpoint) : scheme * option dname :=
    match e_origin e with Some o => o | None => (e_scheme e, e_host e) end.

  (* ---------------------------------------------------------------- server/tls.rs, server/service/tls.rs *)
  Record ServerTlsConfig := {
    s_identity : option (Identity cert);
    s_client_ca_root : option (list (pem_sec ca));     (* ONE blob, any number of certificates *)
    s_client_auth_optional : bool }.

  (* server/tls.rs: ServerTlsConfig::new() and the setters, each [ServerTlsConfig { field, ..self }].
     A configuration is a plain value: the setters take [self] and return a new value *)
  Definition server_tls_config_new : ServerTlsConfig :=
    {| s_identity := None; s_client_ca_root := None; s_client_auth_optional := false |}.
  Definition server_identity (c : ServerTlsConfig) (id : Identity cert) : ServerTlsConfig :=
    {| s_identity := Some id; s_client_ca_root := s_client_ca_root c;
       s_client_auth_optional := s_client_auth_optional c |}.
  Definition server_client_ca_root (c : ServerTlsConfig) (blob : list (pem_sec ca)) : ServerTlsConfig :=
    {| s_identity := s_identity c; s_client_ca_root := Some blob;
       s_client_auth_optional := s_client_auth_optional c |}.
  Definition server_client_auth_optional (c : ServerTlsConfig) (b : bool) : ServerTlsConfig :=
    {| s_identity := s_identity c; s_client_ca_root := s_client_ca_root c;
       s_client_auth_optional := b |}.
  Inductive srv_setter :=
  | SetIdentity (id : Identity cert) | SetClientCa (blob : list (pem_sec ca)) | SetOptional (b : bool).
  Definition apply_srv_setter (c : ServerTlsConfig) (s : srv_setter) : ServerTlsConfig :=
    match s with
    | SetIdentity id => server_identity c id
    | SetClientCa blob => server_client_ca_root c blob
    | SetOptional b => server_client_auth_optional c b
    end.

  Inductive client_verifier :=
  | NoClientAuth                                     (* builder.with_no_client_auth() *)
  | WebPki (roots : list ca) (allow_unauthenticated : bool).

  Record TlsAcceptor := { a_cert : cert; a_verifier : client_verifier; a_alpn : list proto }.

  Inductive acc_result := AccPanic | AccErr (e : cfg_err) | AccOk (a : TlsAcceptor).

  (* TlsAcceptor::new, first half: the client verifier.  Every certificate of the blob becomes a
     root; a blob without any leaves the store empty and the verifier builder fails *)
  Definition client_verifier_of (client_ca_root : option (list (pem_sec ca))) (optional : bool)
      : cfg_err + client_verifier :=
    match client_ca_root with
    | None => inr NoClientAuth
    | Some blob =>
        match convert_certificate blob with
        | None => inl ECertificateParse
        | Some ders =>
            match add_parsable ders with
            | [] => inl ENoRootAnchors
            | roots => inr (if optional then WebPki roots true else WebPki roots false)
            end
        end
    end.

  (* ServerTlsConfig::tls_acceptor = TlsAcceptor::new(self.identity.as_ref().unwrap(), ..): the
     unwrap is evaluated first; then the verifier, then the identity.
     [config.session_storage] is not touched: every call builds a new rustls ServerConfig, which
     comes with a session cache of its own (see [spawn_servers] below). *)
  Definition tls_acceptor (s : ServerTlsConfig) : acc_result :=
    match s_identity s with
    | None => AccPanic                                (* Option::unwrap on None *)
    | Some id =>
        match client_verifier_of (s_client_ca_root s) (s_client_auth_optional s) with
        | inl e => AccErr e
        | inr v =>
            match certified_key id with
            | inl e => AccErr e
            | inr leaf => AccOk {| a_cert := leaf; a_verifier := v; a_alpn := [ALPN_H2] |}
            end
        end
    end.

  (* ---------------------------------------------------------------- server/mod.rs: the builder *)
  (* Server<L>: the [tls] field and, abstractly, everything else: the number of layers and the
     list of options that were set *)
  Record Server := { sv_tls : option TlsAcceptor; sv_layers : nat; sv_opts : list N }.
  Definition server_builder : Server := {| sv_tls := None; sv_layers := O; sv_opts := [] |}.

  Inductive build_result := BuildPanic | BuildErr | BuildOk (s : Server).

  (* Server::tls_config: Server { tls: Some(acceptor), ..self } *)
  Definition server_tls_config (s : Server) (c : ServerTlsConfig) : build_result :=
    match tls_acceptor c with
    | AccPanic => BuildPanic
    | AccErr _ => BuildErr
    | AccOk a => BuildOk {| sv_tls := Some a; sv_layers := sv_layers s; sv_opts := sv_opts s |}
    end.
  (* timeout, concurrency_limit_per_connection, the window sizes, keep-alives, max_frame_size,
     accept_http1, trace_fn, ...: Server { <field>: v, ..self } *)
  Definition server_set (s : Server) (opt : N) : Server :=
    {| sv_tls := sv_tls s; sv_layers := sv_layers s; sv_opts := opt :: sv_opts s |}.
  (* Server::layer: the struct is rebuilt field by field, [tls: self.tls] *)
  Definition server_layer (s : Server) : Server :=
    {| sv_tls := sv_tls s; sv_layers := S (sv_layers s); sv_opts := sv_opts s |}.

  Inductive builder_op := OpSet (opt : N) | OpLayer | OpTls (c : ServerTlsConfig).
  Definition not_tls_op (o : builder_op) : Prop :=         (* specification vocabulary *)
    match o with OpTls _ => False | _ => True end.
  Fixpoint server_build (s : Server) (ops : list builder_op) : build_result :=
    match ops with
    | [] => BuildOk s
    | OpSet o :: r => server_build (server_set s o) r
    | OpLayer :: r => server_build (server_layer s) r
    | OpTls c :: r =>
        match server_tls_config s c with
        | BuildOk s' => server_build s' r
        | x => x
        end
    end.
  (* specification vocabulary: the configuration of the last tls_config call *)
  Fixpoint last_tls (ops : list builder_op) : option ServerTlsConfig :=
    match ops with
    | [] => None
    | OpTls c :: r => match last_tls r with Some c' => Some c' | None => Some c end
    | _ :: r => last_tls r
    end.

  (* the peer of a channel: a plaintext listener, or a TLS listener with some rustls config
     (tonic's own acceptor has [a_alpn = [h2]]; other servers may differ) *)
  Inductive server := SPlain | STls (a : TlsAcceptor).

  (* serve_with_incoming / serve: ServerIoStream::new(incoming, self.tls) *)
  Definition server_listener (s : Server) : server :=
    match sv_tls s with Some a => STls a | None => SPlain end.

  Definition with_alpn (a : TlsAcceptor) (l : list proto) : TlsAcceptor :=
    {| a_cert := a_cert a; a_verifier := a_verifier a; a_alpn := l |}.

  (* ---------------------------------------------------------------- rustls: the two oracles *)
  Inductive hs_client := HsErr (e : tls_err) | HsOk (alpn : option proto).
  Inductive hs_server := SrvReject | SrvAccept (peer_certs : option cert).

  Variable rustls_connect : TlsConnector -> server -> hs_client.      (* client side of the handshake *)
  Variable rustls_accept : TlsAcceptor -> option cert -> hs_server.   (* server side; the client's identity *)

  (* ---------------------------------------------------------------- TlsConnector::connect *)
  Inductive conn := ConnErr (e : conn_err) | ConnPlain | ConnTls (alpn : option proto).

  Definition tls_connect (t : TlsConnector) (srv : server) : conn :=
    match rustls_connect t srv with
    | HsErr e => ConnErr (TlsHandshake e)
    | HsOk alpn_protocol =>
        if negb (oproto_eqb alpn_protocol (Some ALPN_H2) || tc_assume_http2 t)
        then ConnErr H2NotNegotiated
        else ConnTls alpn_protocol
    end.

  (* ---------------------------------------------------------------- Connector::call *)
  (* the [is_https] test (on the URI the connector is called with, [connect_uri]) and the whole
     branch are under cfg(feature = "_tls-any") *)
  Definition connect_outcome (f : features) (e : Endpoint) (srv : server) : conn :=
    if f_tls f && is_https (fst (connect_uri e))
    then match e_tls e with
         | Some tls => tls_connect tls srv
         | None => ConnErr HttpsUriWithoutTlsSupport
         end
    else ConnPlain.

  (* the io Connector::call hands to hyper, which writes the HTTP/2 preface and the request to
     it: the raw io, the TLS session, or - after an error - none *)
  Inductive chan := ChPlain | ChTls.
  Definition chan_eqb (a b : chan) : bool :=
    match a, b with ChPlain, ChPlain | ChTls, ChTls => true | _, _ => false end.
  Definition request_channel (c : conn) : option chan :=
    match c with
    | ConnErr _ => None
    | ConnPlain => Some ChPlain
    | ConnTls _ => Some ChTls
    end.
  Definition call_transmitted (c : conn) : bool :=
    match request_channel c with Some _ => true | None => false end.

  Definition endpoint_identity (e : Endpoint) : option cert :=
    match e_tls e with Some t => tc_identity t | None => None end.

  (* ---------------------------------------------------------------- server side *)
  (* the accept task of io_stream.rs ([tls.accept(stream).await?]) for the connection of this
     client: the rustls handshake completes on both sides or not at all, which needs the client
     to have started one *)
  Definition tls_accept_task (f : features) (e : Endpoint) (a : TlsAcceptor) : hs_server :=
    if f_tls f && is_https (fst (connect_uri e))
    then match e_tls e with
         | Some t => match rustls_connect t (STls a) with
                     | HsOk _ => rustls_accept a (tc_identity t)
                     | HsErr _ => SrvReject
                     end
         | None => SrvReject                      (* nothing was sent *)
         end
    else SrvReject.                               (* plaintext bytes into a TLS acceptor *)
  Definition server_handshake (f : features) (e : Endpoint) (srv : server) : hs_server :=
    match srv with
    | SPlain => SrvAccept None
    | STls a => tls_accept_task f e a
    end.

  (* ServerIoStream::poll_next for this connection, i.e. what serve_internal gets to serve:
     without an acceptor every incoming io as it is (poll_next_without_tls, ServerIo::Io); with
     one, the TLS stream if the accept task succeeded (SelectOutput::Io, ServerIo::TlsIo) and
     nothing if it failed (SelectOutput::TlsErr is logged and the stream goes on) *)
  Inductive server_io := IoPlain | IoTls (peer_certificates : option cert).
  Definition listener_yields (f : features) (e : Endpoint) (srv : server) : option server_io :=
    match srv with
    | SPlain => Some IoPlain
    | STls a => match tls_accept_task f e a with
                | SrvAccept pc => Some (IoTls pc)
                | SrvReject => None
                end
    end.
  Definition io_chan (io : server_io) : chan :=
    match io with IoPlain => ChPlain | IoTls _ => ChTls end.
  (* serve_connection: hyper finds a request on the io iff the peer wrote one to its end of the
     same channel (TLS records are no HTTP/2 preface and vice versa) *)
  Definition io_delivers (io : server_io) (sent : option chan) : bool :=
    match sent with
    | Some k => chan_eqb (io_chan io) k
    | None => false
    end.
  (* the connection a handler runs on, if one does *)
  Definition handler_io (f : features) (e : Endpoint) (srv : server) : option server_io :=
    match listener_yields f e srv with
    | Some io => if io_delivers io (request_channel (connect_outcome f e srv)) then Some io else None
    | None => None
    end.
  Definition request_reaches_handler (f : features) (e : Endpoint) (srv : server) : bool :=
    match handler_io f e srv with Some _ => true | None => false end.

  (* conn.rs: TlsConnectInfo { certs: session.peer_certificates() } of that connection *)
  Definition peer_certs_exposed (f : features) (e : Endpoint) (srv : server) : option cert :=
    match handler_io f e srv with
    | Some (IoTls pc) => pc
    | _ => None
    end.

  (* ---------------------------------------------------------------- request extensions *)
  (* T::ConnectInfo of the IO type the server was given *)
  Inductive info_ty := InfoTcp | InfoOther.
  Definition info_ty_eqb (a b : info_ty) : bool :=
    match a, b with InfoTcp, InfoTcp | InfoOther, InfoOther => true | _, _ => false end.
  (* the two kinds of extension values tonic inserts: T::ConnectInfo and TlsConnectInfo<T::ConnectInfo> *)
  Inductive ext := ExtConn (t : info_ty) | ExtTls (t : info_ty) (certs : option cert).
  (* service/io.rs: ServerIo::connect_info and ConnectInfo::call *)
  Definition connect_info_exts (t : info_ty) (io : server_io) : list ext :=
    match io with
    | IoPlain => [ExtConn t]
    | IoTls pc => [ExtConn t; ExtTls t pc]
    end.
  (* extensions().get::<TlsConnectInfo<T>>().map(|i| i.peer_certs()) *)
  Definition ext_tls_certs (t : info_ty) (l : list ext) : option (option cert) :=
    match find (fun x => match x with ExtTls t' _ => info_ty_eqb t t' | _ => false end) l with
    | Some (ExtTls _ pc) => Some pc
    | _ => None
    end.
  (* request.rs Request::peer_certs: get::<TlsConnectInfo<TcpConnectInfo>>().and_then(peer_certs) *)
  Definition request_peer_certs (l : list ext) : option cert :=
    match ext_tls_certs InfoTcp l with Some pc => pc | None => None end.
  (* what the handler finds in its request *)
  Definition handler_exts (t : info_ty) (f : features) (e : Endpoint) (srv : server) : list ext :=
    match handler_io f e srv with Some io => connect_info_exts t io | None => [] end.

  (* ---------------------------------------------------------------- observable of one call *)
  (* 2 = the peer aborted the handshake before the client's side completed (connect fails),
     6 = the client's side completed (connect succeeds) and the peer then refused the
     connection (TLS 1.3: the client certificate is judged after the client has finished) *)
  Definition class_of (c : conn) (reached : bool) : N :=
    match c with
    | ConnErr HttpsUriWithoutTlsSupport => 1
    | ConnErr (TlsHandshake EAlpnAbort) => 2
    | ConnErr (TlsHandshake EBadChain) => 3
    | ConnErr (TlsHandshake EBadSignature) => 10
    | ConnErr (TlsHandshake EBadName) => 4
    | ConnErr H2NotNegotiated => 5
    | ConnErr (TlsHandshake ENotTls) => 8
    | ConnErr (TlsHandshake EOtherTls) => 9
    | ConnTls _ => if reached then 0 else 6
    | ConnPlain => if reached then 7 else 6
    end.

  (* ---------------------------------------------------------------- session resumption *)
  (* A TLS listener in the process: an acceptor together with the session store of its
     ServerConfig.  Stores are named by numbers. *)
  Record listener := { l_store : nat; l_acc : TlsAcceptor }.

  (* one listener per successful tls_acceptor call; the k-th ServerConfig owns store k *)
  Fixpoint spawn_from (n : nat) (cfgs : list ServerTlsConfig) : list (option listener) :=
    match cfgs with
    | [] => []
    | c :: r =>
        (match tls_acceptor c with
         | AccOk a => Some {| l_store := n; l_acc := a |}
         | _ => None
         end) :: spawn_from (S n) r
    end.
  Definition spawn_servers (cfgs : list ServerTlsConfig) : list (option listener) := spawn_from O cfgs.

  Definition listeners (l : list (option listener)) : list listener :=
    flat_map (fun o => match o with Some x => [x] | None => [] end) l.
  (* specification vocabulary: no two listeners of the process share a session store *)
  Definition store_injective (procs : list listener) : Prop :=
    forall l l', In l procs -> In l' procs -> l_store l = l_store l' -> l = l'.

  (* what a resumption-capable client holds for the server name: the store that keeps the
     session and the peer certificates recorded in that session *)
  Definition ticket : Type := (nat * option cert)%type.

  (* rustls, server side, offered a ticket / session id: Some pc = the session is resumed, the
     client-certificate request is skipped and [peer_certificates] is the stored [pc];
     None = full handshake *)
  Variable rustls_resume : listener -> ticket -> option (option cert).

  (* assumed of rustls: a session is only ever resumed out of the store that holds it, with the
     peer certificates it was stored with *)
  Definition resume_sound : Prop :=
    forall l sid pc pc', rustls_resume l (sid, pc) = Some pc' -> sid = l_store l /\ pc' = pc.

  (* one connection of a client with identity [ident] and cached ticket [tk] to listener [l]:
     what the listener yields, and the ticket the client holds afterwards *)
  Definition visit (ident : option cert) (l : listener) (tk : option ticket)
      : hs_server * option ticket :=
    match (match tk with Some t => rustls_resume l t | None => None end) with
    | Some pc => (SrvAccept pc, Some (l_store l, pc))
    | None =>
        match rustls_accept (l_acc l) ident with
        | SrvAccept pc => (SrvAccept pc, Some (l_store l, pc))
        | SrvReject => (SrvReject, None)
        end
    end.

  Fixpoint visits (ident : option cert) (tk : option ticket) (ls : list listener) : list hs_server :=
    match ls with
    | [] => []
    | l :: r => let (res, tk') := visit ident l tk in res :: visits ident tk' r
    end.

  (* ---------------------------------------------------------------- what is assumed of rustls *)
  (* a completed client handshake means: the peer spoke TLS, its certificate chains to the
     root store of the client configuration and is valid for the name given to [connect] *)
  Definition connect_sound : Prop :=
    forall t srv alpn, rustls_connect t srv = HsOk alpn ->
      exists a, srv = STls a /\
        chain_ok (tc_roots t) (a_cert a) = true /\ name_ok (tc_domain t) (a_cert a) = true.
  (* a completed server handshake means: without a verifier no certificate is requested or
     seen; with WebPkiClientVerifier the client presented a certificate that verifies against
     one of the roots and that is what [peer_certificates] returns, or it presented none and
     [allow_unauthenticated] was set *)
  Definition accept_sound : Prop :=
    forall a ident pc, rustls_accept a ident = SrvAccept pc ->
      match a_verifier a with
      | NoClientAuth => pc = None
      | WebPki roots allow =>
          (exists c r, ident = Some c /\ pc = Some c /\ In r roots /\ client_cert_ok r c = true) \/
          (allow = true /\ ident = None /\ pc = None)
      end.

  (* specification vocabulary for the theorems (not used by the functions above) *)
  Definition configured_roots (f : features) (c : ClientTlsConfig) : list ca :=
    c_trust_anchors c
    ++ (if f_native_roots f && c_with_native_roots c then native_certs else [])
    ++ (if f_webpki_roots f && c_with_webpki_roots c then webpki_roots else [])
    ++ flat_map pem_certs (c_certs c).
  Definition effective_domain (c : ClientTlsConfig) (uri_host : option dname) : option dname :=
    match c_domain c with Some d => Some d | None => uri_host end.

  (* first bytes the client puts on the raw pipe: 0 nothing, 1 TLS records, 2 plaintext HTTP/2 *)
  Definition wire_of (f : features) (e : Endpoint) : N :=
    if f_tls f && is_https (fst (connect_uri e))
    then match e_tls e with Some _ => 1 | None => 0 end
    else 2.
End Wiring.


(* ------------------------------------------------------------------ configuration values over time *)
(* A process builds configuration values step by step, clones them, derives new ones from
   values that were already used (a server built and serving, an endpoint connected), and uses
   them in any order.  [V] = ServerTlsConfig / ClientTlsConfig, [S] = their setter calls.
   Bindings are named by numbers.  A value used without [.clone()] is moved out of its binding
   (Rust ownership); a step naming a binding that holds nothing changes nothing (such a program
   does not compile). *)
Section ValueHistory.
  Context {V S : Type}.
  Variable vnew : V.                      (* ::new() *)
  Variable vapp : V -> S -> V.            (* value.setter(..) *)

  Inductive vstep :=
  | VNew (dst : nat)                                       (* let dst = T::new() *)
  | VSet (dst src : nat) (s : S) (by_clone : bool)         (* let dst = src[.clone()].setter(..) *)
  | VUse (src : nat) (by_clone : bool)                     (* tls_config(src[.clone()]): the next server / endpoint *)
  | VNop.                                                  (* anything else the process does: servers
                                                              serving, handshakes, calls *)
  Definition vstore := list (nat * V).
  Fixpoint vget (st : vstore) (k : nat) : option V :=
    match st with
    | [] => None
    | (j, v) :: r => if Nat.eqb k j then Some v else vget r k
    end.
  Definition vdel (st : vstore) (k : nat) : vstore := filter (fun p => negb (Nat.eqb k (fst p))) st.
  Definition vput (st : vstore) (k : nat) (v : V) : vstore := (k, v) :: vdel st k.
  Definition vtake (st : vstore) (k : nat) (by_clone : bool) : vstore := if by_clone then st else vdel st k.

  (* one step: the bindings afterwards and the values handed to tls_config by it *)
  Definition vstep_run (st : vstore) (x : vstep) : vstore * list (option V) :=
    match x with
    | VNew d => (vput st d vnew, [])
    | VSet d s op cl =>
        match vget st s with
        | Some v => (vput (vtake st s cl) d (vapp v op), [])
        | None => (st, [])
        end
    | VUse s cl => (vtake st s cl, [vget st s])
    | VNop => (st, [])
    end.
  Fixpoint vrun (st : vstore) (h : list vstep) : vstore * list (option V) :=
    match h with
    | [] => (st, [])
    | x :: r =>
        let (st1, u1) := vstep_run st x in
        let (st2, u2) := vrun st1 r in
        (st2, u1 ++ u2)
    end.
  (* the values handed to tls_config, in order *)
  Definition vuses (h : list vstep) : list (option V) := snd (vrun [] h).

  (* specification vocabulary: a value written as the chain of setter calls that made it *)
  Inductive vexpr := XNew | XSet (e : vexpr) (s : S).
  Fixpoint veval (e : vexpr) : V :=
    match e with
    | XNew => vnew
    | XSet e s => vapp (veval e) s
    end.
End ValueHistory.

(* ------------------------------------------------------------------ the listener over time *)
(* ---------------------------------------------------------------- io_stream.rs as a state machine *)
Section IoStream.
  Context {io : Type}.
  (* the outcome of the accept task of the k-th incoming connection ([tls.accept(stream).await]):
     the TLS stream, or an error *)
  Variable accept : nat -> option io.

  (* what can happen between two returns of poll_next: the incoming stream yields connection k,
     yields an error (fatal or not: handle_tcp_accept_error), ends; the accept task of
     connection k finishes (JoinSet::join_next) *)
  Inductive sio_event := EvIncoming (k : nat) | EvIncomingErr (fatal : bool) | EvIncomingEnd | EvTaskDone (k : nat).
  Inductive sio_out := OutIo (k : nat) (x : io) | OutErr.

  Fixpoint remove_task (k : nat) (l : list nat) : list nat :=
    match l with
    | [] => []
    | x :: r => if Nat.eqb k x then r else x :: remove_task k r
    end.

  (* one event with a TLS acceptor: [tasks] = the JoinSet.  Result: the JoinSet afterwards, what
     poll_next hands to serve_internal, and whether the stream has ended *)
  Definition sio_step (tasks : list nat) (ev : sio_event) : list nat * list sio_out * bool :=
    match ev with
    | EvIncoming k => (k :: tasks, [], false)                    (* SelectOutput::Incoming: spawn, Pending *)
    | EvTaskDone k =>
        if existsb (Nat.eqb k) tasks                             (* join_next returns members of the set only *)
        then (remove_task k tasks,
              match accept k with
              | Some x => [OutIo k x]                             (* SelectOutput::Io *)
              | None => []                                        (* SelectOutput::TlsErr: logged, Pending *)
              end, false)
        else (tasks, [], false)
    | EvIncomingErr fatal => (tasks, if fatal then [OutErr] else [], false)   (* SelectOutput::TcpErr *)
    | EvIncomingEnd => (tasks, [], true)                          (* SelectOutput::Done: Ready(None) *)
    end.
  Fixpoint sio_run (tasks : list nat) (evs : list sio_event) : list sio_out :=
    match evs with
    | [] => []
    | ev :: r =>
        match sio_step tasks ev with
        | (t, o, true) => o
        | (t, o, false) => o ++ sio_run t r
        end
    end.

  (* without an acceptor (poll_next_without_tls): every incoming connection is handed on as it is *)
  Variable plain : nat -> io.
  Fixpoint sio_run_plain (evs : list sio_event) : list sio_out :=
    match evs with
    | [] => []
    | EvIncoming k :: r => OutIo k (plain k) :: sio_run_plain r
    | EvIncomingErr fatal :: r => (if fatal then [OutErr] else []) ++ sio_run_plain r
    | EvIncomingEnd :: _ => []
    | EvTaskDone _ :: r => sio_run_plain r                      (* there is no JoinSet *)
    end.

  (* specification vocabulary *)
  Definition arrivals (evs : list sio_event) : list nat :=
    flat_map (fun e => match e with EvIncoming k => [k] | _ => [] end) evs.
  Definition yielded (o : list sio_out) : list nat :=
    flat_map (fun x => match x with OutIo k _ => [k] | OutErr => [] end) o.
  Definition no_end (evs : list sio_event) : Prop := ~ In EvIncomingEnd evs.

End IoStream.


(* ------------------------------------------------------------------ reference handshake *)
(* What a rustls client / server pair does, as far as the three predicates determine it.
   Order of the client's checks as observed: ALPN (the server aborts in its ClientHello
   processing when it has protocols and none is offered), then chain, then name. *)
Section Reference.
  Context {cert ca dname : Type}.
  Variable chain_ok : list ca -> cert -> bool.
  Variable name_ok : dname -> cert -> bool.
  Variable client_cert_ok : ca -> cert -> bool.
  (* the certificate NAMES one of the roots as its issuer (whether or not it was really signed
     by it): webpki then reports a signature error instead of an unknown issuer, which is how
     the presence of a root in the store can be observed without a certificate it issued *)
  Variable anchor_named : list ca -> cert -> bool.

  (* rustls server: no ALPN extension from the client, or no protocols configured: nothing is
     negotiated; otherwise the first of the server's protocols that the client offers, and a
     fatal no_application_protocol alert when there is none *)
  Definition ref_negotiate (offers server_protocols : list proto) : neg :=
    match offers, server_protocols with
    | [], _ => NegNone
    | _, [] => NegNone
    | _, _ => match find (fun p => existsb (proto_eqb p) offers) server_protocols with
              | Some p => NegProto p
              | None => NegAbort
              end
    end.

  Definition ref_connect (t : @TlsConnector cert ca dname) (srv : @server cert ca) : hs_client :=
    match srv with
    | SPlain => HsErr ENotTls
    | STls a =>
        match ref_negotiate (tc_alpn t) (a_alpn a) with
        | NegAbort => HsErr EAlpnAbort
        | n =>
            if negb (chain_ok (tc_roots t) (a_cert a))
            then HsErr (if anchor_named (tc_roots t) (a_cert a) then EBadSignature else EBadChain)
            else if negb (name_ok (tc_domain t) (a_cert a)) then HsErr EBadName
            else HsOk (match n with NegProto p => Some p | _ => None end)
        end
    end.

  (* a certificate is requested only when a verifier is installed; a presented certificate
     must verify (against any one of the roots) even when unauthenticated clients are allowed *)
  Definition ref_accept (a : @TlsAcceptor cert ca) (client_identity : option cert) : @hs_server cert :=
    match a_verifier a with
    | NoClientAuth => SrvAccept None
    | WebPki roots allow =>
        match client_identity with
        | Some c => if existsb (fun r => client_cert_ok r c) roots then SrvAccept (Some c) else SrvReject
        | None => if allow then SrvAccept None else SrvReject
        end
    end.
  (* specification vocabulary: what the reference server side admits *)
  Definition ref_admits (a : @TlsAcceptor cert ca) (ident : option cert) : bool :=
    match a_verifier a with
    | NoClientAuth => true
    | WebPki roots allow =>
        match ident with
        | Some c => existsb (fun r => client_cert_ok r c) roots
        | None => allow
        end
    end.
  Definition ref_resume (l : @listener cert ca) (t : @ticket cert) : option (option cert) :=
    if Nat.eqb (fst t) (l_store l) then Some (snd t) else None.
End Reference.

(* ------------------------------------------------------------------ the finite test PKI *)
Inductive caid :=
| CA1          (* issues the server certificates *)
| CA2          (* the client CA *)
| CAPublic.    (* stands for the webpki-roots set: issues nothing in the test PKI *)
Inductive dn := DExample | DOther | DBad.    (* "example.test", "other.test", not a DNS name
                                                (over TCP: "localhost", "127.0.0.1") *)
Inductive certid :=
| SrvExample      (* CA1, SAN example.test, serverAuth *)
| SrvOther        (* CA1, SAN other.test,   serverAuth *)
| CliCA2          (* CA2, clientAuth *)
| CliCA1          (* CA1, clientAuth *)
| SrvFakePublic.  (* SAN example.test, names a CA of the webpki-roots set as issuer but is signed
                     by a key of ours: no root store makes it valid *)

Definition ca_eqb (a b : caid) : bool :=
  match a, b with
  | CA1, CA1 | CA2, CA2 | CAPublic, CAPublic => true
  | _, _ => false
  end.
Definition dn_eqb (a b : dn) : bool :=
  match a, b with DExample, DExample | DOther, DOther | DBad, DBad => true | _, _ => false end.
Definition issuer (c : certid) : caid :=          (* the issuer the certificate names *)
  match c with SrvExample | SrvOther | CliCA1 => CA1 | CliCA2 => CA2 | SrvFakePublic => CAPublic end.
Definition genuine (c : certid) : bool :=        (* ... and whether that issuer signed it *)
  match c with SrvFakePublic => false | _ => true end.
Definition san (c : certid) : option dn :=
  match c with SrvExample | SrvFakePublic => Some DExample | SrvOther => Some DOther | _ => None end.
Definition is_client_cert (c : certid) : bool :=
  match c with CliCA1 | CliCA2 => true | _ => false end.
Definition cert_code (c : certid) : N :=
  match c with SrvExample => 11 | SrvOther => 12 | SrvFakePublic => 13 | CliCA2 => 1 | CliCA1 => 2 end.

(* the certificate facts that instantiate the predicates *)
Definition t_anchor_named (roots : list caid) (c : certid) : bool := existsb (ca_eqb (issuer c)) roots.
Definition t_chain_ok (roots : list caid) (c : certid) : bool := genuine c && t_anchor_named roots c.
Definition t_name_ok (d : dn) (c : certid) : bool :=
  match san c with Some s => dn_eqb s d | None => false end.
Definition t_client_cert_ok (root : caid) (c : certid) : bool :=
  is_client_cert c && ca_eqb (issuer c) root.
Definition t_valid_name (d : dn) : bool := match d with DBad => false | _ => true end.
Definition t_key_matches (k c : certid) : bool := N.eqb (cert_code k) (cert_code c).

(* the harness build: features tls-ring, tls-native-roots, tls-webpki-roots.  The platform's
   root set is whatever SSL_CERT_FILE names (a parameter of every case); the webpki set is the
   Mozilla list, which contains neither test CA *)
Definition t_features : features :=
  {| f_tls := true; f_native_roots := true; f_webpki_roots := true |}.
Definition t_webpki : list caid := [CAPublic].

Definition t_connect := ref_connect t_chain_ok t_name_ok t_anchor_named.
Definition t_accept := ref_accept t_client_cert_ok.

Definition t_tls_config (native : list caid) (e : @Endpoint certid caid dn)
    (c : @ClientTlsConfig certid caid dn) : cfg_err + @Endpoint certid caid dn :=
  endpoint_tls_config t_valid_name t_key_matches native t_webpki t_features e c.
Definition t_endpoint_tls (native : list caid) (s : scheme) (h : option dn)
    (c : option (@ClientTlsConfig certid caid dn)) : cfg_err + @Endpoint certid caid dn :=
  match c with
  | None => inr (endpoint_from_uri s h)
  | Some c => t_tls_config native (endpoint_from_uri s h) c
  end.
Definition t_acceptor (s : @ServerTlsConfig certid caid) := tls_acceptor t_key_matches s.

Definition t_outcome (e : @Endpoint certid caid dn) (srv : @server certid caid) :=
  connect_outcome t_connect t_features e srv.
Definition t_srv_handshake (e : @Endpoint certid caid dn) (srv : @server certid caid) :=
  server_handshake t_connect t_accept t_features e srv.
Definition t_reaches (e : @Endpoint certid caid dn) (srv : @server certid caid) :=
  request_reaches_handler t_connect t_accept t_features e srv.
Definition t_peer_certs (e : @Endpoint certid caid dn) (srv : @server certid caid) :=
  peer_certs_exposed t_connect t_accept t_features e srv.
Definition t_exts (t : info_ty) (e : @Endpoint certid caid dn) (srv : @server certid caid) :=
  handler_exts t_connect t_accept t t_features e srv.

(* ------------------------------------------------------------------ observables *)
Definition cfg_err_code (e : cfg_err) : N :=
  match e with EInvalidUri => 1 | EInvalidDnsName => 2 | ENativeCertsNotFound => 3
             | EInvalidTlsConfigForUds => 4 | ECertificateParse => 5 | EPrivateKeyParse => 6
             | ENoRootAnchors => 7 | ERustlsKey => 8 end.
Definition ocert (o : option certid) : tr := oopt (fun x => Nn (cert_code x)) o.

(* [class; handler ran; Request::peer_certs seen by the handler; peer_certs of the
    TlsConnectInfo<T> extension of the io's own connect-info type; is that extension there;
    wire].  [tls12]: the listener only speaks TLS 1.2, where the server judges the client
    certificate before the client's handshake completes, so a refusal is seen by the client as
    an aborted handshake (class 2) instead of a refusal after connecting (class 6) - or instead
    of H2NotNegotiated (class 5), which the client only decides after its handshake *)
Definition obs_of_call (tls12 : bool) (t : info_ty) (e : @Endpoint certid caid dn)
    (srv : @server certid caid) : tr :=
  let c := t_outcome e srv in
  let reached := t_reaches e srv in
  let exts := t_exts t e srv in
  let cl := class_of c reached in
  let srv_rejects := match t_srv_handshake e srv with SrvReject => true | SrvAccept _ => false end in
  let cl := match c with
            | ConnTls _ | ConnErr H2NotNegotiated => if tls12 && srv_rejects then 2 else cl
            | _ => cl
            end in
  Nd [ Nn cl;
       obool reached;
       ocert (request_peer_certs exts);
       ocert (match ext_tls_certs t exts with Some pc => pc | None => None end);
       obool (match ext_tls_certs t exts with Some _ => true | None => false end);
       Nn (wire_of t_features e) ].
Definition io_ty (io_is_tcp : bool) : info_ty := if io_is_tcp then InfoTcp else InfoOther.

(* a call through [Endpoint::from_shared(uri)] (+ optional [tls_config]) against a server;
   [native] = the certificates SSL_CERT_FILE names *)
Definition obs_call (native : list caid) (io_is_tcp : bool) (s : scheme) (h : option dn)
    (c : option (@ClientTlsConfig certid caid dn)) (srv : @server certid caid) : tr :=
  match t_endpoint_tls native s h c with
  | inl e => tag 100 [Nn (cfg_err_code e)]
  | inr ep => obs_of_call false (io_ty io_is_tcp) ep srv
  end.

(* two tls_config calls in a row: the second replaces the first (and an error of either is the
   error of the chain) *)
Definition obs_call2 (native : list caid) (s : scheme) (h : option dn)
    (c1 c2 : @ClientTlsConfig certid caid dn) (srv : @server certid caid) : tr :=
  match t_tls_config native (endpoint_from_uri s h) c1 with
  | inl e => tag 100 [Nn (cfg_err_code e)]
  | inr e1 =>
      match t_tls_config native e1 c2 with
      | inl e => tag 100 [Nn (cfg_err_code e)]
      | inr ep => obs_of_call false InfoTcp ep srv
      end
  end.

(* [Endpoint::from_shared("unix:..")] . tls_config *)
Definition obs_uds_tls_config (native : list caid) (c : @ClientTlsConfig certid caid dn) : tr :=
  match t_tls_config native endpoint_from_uds c with
  | inl e => tag 100 [Nn (cfg_err_code e)]
  | inr _ => tag 0 []
  end.

Definition scheme_code (s : scheme) : N := match s with Http => 0 | Https => 1 | OtherScheme => 2 end.
Definition dn_code (d : dn) : N := match d with DExample => 1 | DOther => 2 | DBad => 3 end.
(* scheme and authority of the request the handler gets (when one runs) *)
Definition target_tr (reached : bool) (e : @Endpoint certid caid dn) : tr :=
  if reached
  then Nd [Nn (scheme_code (fst (request_target e))); oopt (fun d => Nn (dn_code d)) (snd (request_target e))]
  else Nd [].

(* [Endpoint::from_shared(uri)], [.origin(o)] before and/or after [.tls_config(c)]:
   the observable of the call and the target of the request *)
Definition obs_call_origin (native : list caid) (o_before o_after : option (scheme * option dn))
    (s : scheme) (h : option dn) (c : @ClientTlsConfig certid caid dn) (srv : @server certid caid) : tr :=
  match t_tls_config native (apply_origin o_before (endpoint_from_uri s h)) c with
  | inl e => tag 100 [Nn (cfg_err_code e)]
  | inr ep =>
      let ep := apply_origin o_after ep in
      Nd [obs_of_call false InfoTcp ep srv; target_tr (t_reaches ep srv) ep]
  end.

(* Channel::new / Channel::connect, the public lower-level constructors: the connector is used
   as it is given; Endpoint::connector - and with it the endpoint's TLS configuration - is NOT
   applied, whatever the scheme of the endpoint.  [class; handler ran; wire] *)
Definition raw_channel_outcome (e : @Endpoint certid caid dn) : @conn := ConnPlain.
Definition obs_raw_channel (e : cfg_err + @Endpoint certid caid dn) (srv : @server certid caid) : tr :=
  match e with
  | inl err => tag 100 [Nn (cfg_err_code err)]
  | inr ep =>
      let reached := match srv with SPlain => true | STls _ => false end in
      Nd [Nn (class_of (raw_channel_outcome ep) reached); obool reached; Nn 2]
  end.

(* configuration errors without their reason (used where several inputs are faulty at once and
   the reason reported depends on the order in which tonic looks at them) *)
Definition coarse (t : tr) : tr :=
  match t with
  | Nd [Nn 100; _] => Nd [Nn 100]
  | Nd [Nn 102; _] => Nd [Nn 102]
  | t => t
  end.

(* a call through [Endpoint::new(uri)] *)
Definition obs_call_endpoint_new (native : list caid) (s : scheme) (h : option dn)
    (srv : @server certid caid) : tr :=
  match endpoint_new t_valid_name t_key_matches native t_webpki t_features s h with
  | inl e => tag 100 [Nn (cfg_err_code e)]
  | inr ep => obs_of_call false InfoTcp ep srv
  end.

(* shorthands used by the generated case files *)
Definition cfg0 : @ClientTlsConfig certid caid dn := client_tls_config_new.
Definition pem1 {A : Type} (x : A) : list (pem_sec A) := [SecCert x].
Definition good_id (c : certid) : Identity certid := {| id_cert := [SecCert c]; id_key := Some c |}.
Definition mk_id (chain : list (pem_sec certid)) (key : option certid) : Identity certid :=
  {| id_cert := chain; id_key := key |}.
Definition mk_server_cfg_pem (id : option (Identity certid)) (client_ca : option (list (pem_sec caid)))
    (optional : bool) : @ServerTlsConfig certid caid :=
  {| s_identity := id; s_client_ca_root := client_ca; s_client_auth_optional := optional |}.
(* a well-formed identity and a client CA blob with one certificate *)
Definition mk_server_cfg (id : option certid) (client_ca : option caid) (optional : bool)
    : @ServerTlsConfig certid caid :=
  mk_server_cfg_pem (option_map good_id id) (option_map pem1 client_ca) optional.
Definition srv_of_cfg (s : @ServerTlsConfig certid caid) : @server certid caid :=
  match t_acceptor s with
  | AccOk a => STls a
  | _ => SPlain
  end.
(* tonic's own TLS server for a configuration with an identity *)
Definition mk_srv (id : certid) (client_ca : option caid) (optional : bool) : @server certid caid :=
  srv_of_cfg (mk_server_cfg (Some id) client_ca optional).

(* [Server::tls_config(cfg)]: 0 = panicked, 1 = acceptor built, 2 = Err with the reason *)
Definition obs_acceptor (s : @ServerTlsConfig certid caid) : tr :=
  match t_acceptor s with
  | AccPanic => Nd [Nn 0]
  | AccOk _ => Nd [Nn 1]
  | AccErr e => Nd [Nn 2; Nn (cfg_err_code e)]
  end.

(* a call against tonic's server built from an arbitrary configuration *)
Definition obs_call_cfg (native : list caid) (s : scheme) (h : option dn)
    (c : option (@ClientTlsConfig certid caid dn)) (sc : @ServerTlsConfig certid caid) : tr :=
  match t_acceptor sc with
  | AccPanic => tag 101 []
  | AccErr e => tag 102 [Nn (cfg_err_code e)]
  | AccOk a => obs_call native true s h c (STls a)
  end.

(* a call against the listener of [Server::builder()] after the builder calls [ops] *)
Definition obs_call_built (native : list caid) (s : scheme) (h : option dn)
    (c : option (@ClientTlsConfig certid caid dn)) (ops : list (@builder_op certid caid)) : tr :=
  match server_build t_key_matches server_builder ops with
  | BuildPanic => tag 101 []
  | BuildErr => tag 102 []
  | BuildOk sv => obs_call native true s h c (server_listener sv)
  end.

(* ---- configuration values derived from values that were already used (kinds sequence.derived_config.x) *)
(* a process: steps on ServerTlsConfig values ([VUse] = Server::builder().tls_config(value), the
   next server, built and serving from then on) interleaved with calls of clients to the servers
   built so far.  Result: the servers' configurations and the observable of every call *)
Inductive sh_step :=
| ShVal (v : @vstep (@srv_setter certid caid))
| ShCall (k : nat) (s : scheme) (h : option dn) (c : option (@ClientTlsConfig certid caid dn)).
Fixpoint srv_history_run (native : list caid) (st : @vstore (@ServerTlsConfig certid caid))
    (servers : list (option (@ServerTlsConfig certid caid))) (h : list sh_step)
    : list (option (@ServerTlsConfig certid caid)) * list tr :=
  match h with
  | [] => (servers, [])
  | ShVal v :: r =>
      let (st', u) := vstep_run server_tls_config_new apply_srv_setter st v in
      srv_history_run native st' (servers ++ u) r
  | ShCall k s hh c :: r =>
      let o := match nth_error servers k with
               | Some (Some cfg) => obs_call_cfg native s hh c cfg
               | _ => tag 103 []
               end in
      let (sv, os) := srv_history_run native st servers r in
      (sv, o :: os)
  end.
Definition obs_srv_history (native : list caid) (h : list sh_step) : tr :=
  Nd (snd (srv_history_run native [] [] h)).
(* specification vocabulary: the value steps of a process, the calls being "anything else" *)
Definition sh_vals (h : list sh_step) : list (@vstep (@srv_setter certid caid)) :=
  map (fun x => match x with ShVal v => v | ShCall _ _ _ _ => VNop end) h.

(* the client side: steps on ClientTlsConfig values ([VUse] = Endpoint::from_shared(uri).tls_config(value),
   the next endpoint) interleaved with calls through the endpoints built so far *)
Inductive ch_step :=
| ChVal (v : @vstep (@cli_setter certid caid dn))
| ChCall (ep : nat) (srv : @server certid caid).
Fixpoint cli_history_run (native : list caid) (s : scheme) (h : option dn)
    (st : @vstore (@ClientTlsConfig certid caid dn))
    (eps : list (option (@ClientTlsConfig certid caid dn))) (hist : list ch_step)
    : list (option (@ClientTlsConfig certid caid dn)) * list tr :=
  match hist with
  | [] => (eps, [])
  | ChVal v :: r =>
      let (st', u) := vstep_run client_tls_config_new apply_cli_setter st v in
      cli_history_run native s h st' (eps ++ u) r
  | ChCall k srv :: r =>
      let o := match nth_error eps k with
               | Some (Some cfg) => obs_call native true s h (Some cfg) srv
               | _ => tag 103 []
               end in
      let (e, os) := cli_history_run native s h st eps r in
      (e, o :: os)
  end.
Definition obs_cli_history (native : list caid) (s : scheme) (h : option dn) (hist : list ch_step) : tr :=
  Nd (snd (cli_history_run native s h [] [] hist)).
Definition ch_vals (h : list ch_step) : list (@vstep (@cli_setter certid caid dn)) :=
  map (fun x => match x with ChVal v => v | ChCall _ _ => VNop end) h.

(* ONE listener, several clients one after the other (each on a connection of its own): what
   the listener does with one connection does not depend on the others (a failed accept task is
   logged, the stream goes on) *)
Definition obs_sequence (native : list caid) (sc : @ServerTlsConfig certid caid)
    (clients : list (scheme * option (@ClientTlsConfig certid caid dn))) : tr :=
  match t_acceptor sc with
  | AccPanic => tag 101 []
  | AccErr e => tag 102 [Nn (cfg_err_code e)]
  | AccOk a => olist (fun cl => obs_call native true (fst cl) (Some DExample) (snd cl) (STls a)) clients
  end.

(* servers built from [cfgs] in one process; a resumption-capable client (one shared rustls
   ClientConfig, right roots, identity [ident]) connects to them in the order [order] (indices
   into [cfgs]): per visit [handler ran; peer certificates] *)
Definition obs_resumption (ident : option certid) (cfgs : list (@ServerTlsConfig certid caid))
    (order : list nat) : tr :=
  let procs := spawn_servers t_key_matches cfgs in
  let ls := flat_map (fun k => match nth k procs None with Some l => [l] | None => [] end) order in
  olist (fun r => match r with
                  | SrvAccept pc => Nd [obool true; ocert pc]
                  | SrvReject => Nd [obool false; Nd []]
                  end)
        (visits t_accept ref_resume ident None ls).

(* a bare rustls client offering [offers] against tonic's acceptor: 0 = aborted,
   1 = completed with the selected protocol *)
Definition obs_negotiate (offers : list proto) (s : @ServerTlsConfig certid caid) : tr :=
  match t_acceptor s with
  | AccOk a =>
      match ref_negotiate offers (a_alpn a) with
      | NegAbort => Nd [Nn 0]
      | NegNone => Nd [Nn 1; Nd []]
      | NegProto p => Nd [Nn 1; Nd [Bs p]]
      end
  | _ => Nd [Nn 99]
  end.

(* ------------------------------------------------------------------ the matrix *)
Inductive m_roots := RightCA | OtherCA | NoRoots.
Inductive m_dom := DomMatchingCfg | DomOtherCfg | DomFromUri.   (* domain_name("example.test") / ("other.test") / unset *)
Inductive m_host := HostExample | HostOther.                    (* https://example.test / https://other.test *)
Inductive m_scert := SCertExample | SCertOther.                 (* SAN of the certificate the server presents *)
Inductive m_alpn := AlpnH2 | AlpnNone | AlpnHttp11.
Inductive m_cauth := CaNone | CaNoneOptional | CaRequired | CaOptional.
Inductive m_ident := IdNone | IdValid | IdOtherCA.

Record cell := mkCell {
  x_roots : m_roots; x_dom : m_dom; x_host : m_host; x_scert : m_scert;
  x_alpn : m_alpn; x_assume : bool; x_cauth : m_cauth; x_ident : m_ident }.

Definition all_roots := [RightCA; OtherCA; NoRoots].
Definition all_dom := [DomMatchingCfg; DomOtherCfg; DomFromUri].
Definition all_host := [HostExample; HostOther].
Definition all_scert := [SCertExample; SCertOther].
Definition all_alpn := [AlpnH2; AlpnNone; AlpnHttp11].
Definition all_bool := [false; true].
Definition all_cauth := [CaNone; CaNoneOptional; CaRequired; CaOptional].
Definition all_ident := [IdNone; IdValid; IdOtherCA].

Definition all_cells : list cell :=
  flat_map (fun r => flat_map (fun d => flat_map (fun h => flat_map (fun sc =>
  flat_map (fun al => flat_map (fun asm => flat_map (fun cau =>
  map (fun idt => mkCell r d h sc al asm cau idt) all_ident)
  all_cauth) all_bool) all_alpn) all_scert) all_host) all_dom) all_roots.

Definition cell_client_cfg (x : cell) : @ClientTlsConfig certid caid dn :=
  let c := client_tls_config_new in
  let c := match x_roots x with
           | RightCA => ca_certificate c (pem1 CA1)
           | OtherCA => ca_certificate c (pem1 CA2)
           | NoRoots => c
           end in
  let c := match x_dom x with
           | DomMatchingCfg => domain_name c DExample
           | DomOtherCfg => domain_name c DOther
           | DomFromUri => c
           end in
  let c := match x_ident x with
           | IdNone => c
           | IdValid => identity c (good_id CliCA2)
           | IdOtherCA => identity c (good_id CliCA1)
           end in
  assume_http2 c (x_assume x).

Definition cell_host (x : cell) : dn :=
  match x_host x with HostExample => DExample | HostOther => DOther end.

Definition cell_server_cfg (x : cell) : @ServerTlsConfig certid caid :=
  mk_server_cfg
    (Some (match x_scert x with SCertExample => SrvExample | SCertOther => SrvOther end))
    (match x_cauth x with CaNone | CaNoneOptional => None | _ => Some CA2 end)
    (match x_cauth x with CaNoneOptional | CaOptional => true | _ => false end).

(* ALPN h2 is tonic's own acceptor; the other two are the same rustls configuration with the
   protocol list replaced (tonic cannot be configured to produce them) *)
Definition cell_server (x : cell) : option (@server certid caid) :=
  match t_acceptor (cell_server_cfg x) with
  | AccPanic | AccErr _ => None
  | AccOk a =>
      Some (STls (match x_alpn x with
                  | AlpnH2 => a
                  | AlpnNone => with_alpn a []
                  | AlpnHttp11 => with_alpn a [ALPN_HTTP11]
                  end))
  end.

(* during the matrix the platform (SSL_CERT_FILE) trusts CA1, the CA of the server
   certificates: no cell enables the platform roots, so this must not matter *)
Definition cell_native : list caid := [CA1].
Definition cell_endpoint (x : cell) : cfg_err + @Endpoint certid caid dn :=
  t_endpoint_tls cell_native Https (Some (cell_host x)) (Some (cell_client_cfg x)).

Definition obs_cell_v (tls12 : bool) (x : cell) : tr :=
  match cell_server x, cell_endpoint x with
  | Some srv, inr ep => obs_of_call tls12 InfoTcp ep srv
  | None, _ => tag 101 []
  | _, inl e => tag 100 [Nn (cfg_err_code e)]
  end.

Definition obs_cell := obs_cell_v false.
(* the same cell over real TCP (Endpoint::connect against Server::serve): everything but the
   wire, which cannot be tapped there *)
Definition obs_cell_tcp (x : cell) : tr :=
  match obs_cell x with
  | Nd [a; b; c; d; e; _] => Nd [a; b; c; d; e]
  | t => t
  end.
(* ... through connect_lazy / a balance channel, where a failure has no class: 1 = served *)
Definition obs_cell_tcp_served (x : cell) : tr :=
  match obs_cell x with
  | Nd [Nn a; b; c; d; e; _] => Nd [obool (N.eqb a 0); b; c; d; e]
  | t => t
  end.
(* the same cell with Endpoint::origin called before / after tls_config *)
Definition obs_cell_origin (o_before o_after : option (scheme * option dn)) (x : cell) : tr :=
  match cell_server x with
  | Some srv => obs_call_origin cell_native o_before o_after Https (Some (cell_host x))
                  (cell_client_cfg x) srv
  | None => tag 101 []
  end.
(* the same cell against a listener restricted to TLS 1.2 *)
Definition obs_cell_tls12 := obs_cell_v true.

(* operational verdicts of a cell *)
Definition cell_served (x : cell) : bool :=
  match cell_server x, cell_endpoint x with
  | Some srv, inr ep => t_reaches ep srv
  | _, _ => false
  end.
Definition cell_peer_certs (x : cell) : option certid :=
  match cell_server x, cell_endpoint x with
  | Some srv, inr ep => request_peer_certs (t_exts InfoTcp ep srv)
  | _, _ => None
  end.
Definition cell_plaintext (x : cell) : bool :=
  match cell_server x, cell_endpoint x with
  | Some srv, inr ep => match t_outcome ep srv with ConnPlain => true | _ => false end
  | _, _ => false
  end.

(* declarative reading of the property on a cell, written without the model's functions *)
Definition spec_name_matches (x : cell) : bool :=
  let effective := match x_dom x with
                   | DomMatchingCfg => DExample | DomOtherCfg => DOther
                   | DomFromUri => cell_host x end in
  match effective, x_scert x with
  | DExample, SCertExample | DOther, SCertOther => true
  | _, _ => false
  end.
Definition spec_http2 (x : cell) : bool :=
  match x_alpn x with
  | AlpnH2 => true                     (* negotiated *)
  | AlpnNone => x_assume x             (* not negotiated: only if the caller opted out *)
  | AlpnHttp11 => false                (* the handshake itself is aborted *)
  end.
Definition spec_client_auth (x : cell) : bool :=
  match x_cauth x, x_ident x with
  | (CaNone | CaNoneOptional), _ => true
  | CaRequired, IdValid => true
  | CaRequired, _ => false
  | CaOptional, IdValid => true
  | CaOptional, IdNone => true
  | CaOptional, IdOtherCA => false
  end.
Definition spec_served (x : cell) : bool :=
  match x_roots x with RightCA => true | _ => false end
  && spec_name_matches x && spec_http2 x && spec_client_auth x.
Definition spec_peer_certs (x : cell) : option certid :=
  if spec_served x
  then match x_cauth x, x_ident x with
       | (CaRequired | CaOptional), IdValid => Some CliCA2
       | _, _ => None
       end
  else None.

Definition ocert_eqb (a b : option certid) : bool :=
  match a, b with
  | None, None => true
  | Some x, Some y => N.eqb (cert_code x) (cert_code y)
  | _, _ => false
  end.

Definition cell_ok (x : cell) : bool :=
  Bool.eqb (cell_served x) (spec_served x)
  && ocert_eqb (cell_peer_certs x) (spec_peer_certs x)
  && negb (cell_plaintext x).
