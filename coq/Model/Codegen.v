(* Model of the service code generator (C11), function by function:
     tonic-build/src/lib.rs       traits Service / Method, format_service_name, format_method_path,
                                  naive_snake_case
     tonic-build/src/client.rs    generate_internal, generate_methods, generate_unary /
                                  generate_server_streaming / generate_client_streaming / generate_streaming
     tonic-build/src/server.rs    generate_internal, generate_trait_methods (the 8-arm match),
                                  generate_named, generate_methods and its four arm generators
     tonic-build/src/code_gen.rs  CodeGenBuilder (setters, generate_client, generate_server)
     tonic-build/src/manual.rs    Service / Method (trait impls), ServiceGenerator::generate
     tonic-build/src/prost.rs     TonicBuildService / TonicBuildMethod (trait impls, convert_type),
                                  ServiceGenerator::generate, configure()
   What is kept of the emitted code is what the property speaks about: every string that reaches
   the wire (path literal, GrpcMethod pair, match-arm literal, SERVICE_NAME, NamedService::NAME),
   the streaming shape in each of the places it is written (client signature, client Grpc call,
   <Kind>Service impl, `fn call` argument, server Grpc call, trait signature), the message types in
   each of those places, the handler that an arm calls (trait, fn, receiver convention), and the
   public names derived from Service::name().  Strings are byte lists; a type is its token text
   without white space.
   Panics are outcomes: every `format_ident!` (quote::__private::mk_ident -> proc_macro2 fallback
   validate_ident / validate_ident_raw), every `syn::parse_str::<syn::Path>(..).unwrap()` and the
   `expect("not a valid tokenstream")` of the two `finalize` functions is [None] here.
   syn's and unicode-ident's verdicts are inputs (external libraries): whether a string parses as a
   syn::Path is a field of the descriptor filled in by the harness from syn itself; identifiers are
   judged on ASCII (XID_Start/XID_Continue restricted to ASCII - names are ASCII in this model).
   No proofs here. *)
From Verif Require Import Lib.Bytes Lib.Obs Model.Router.
From Coq Require Import String.
Open Scope N_scope.

Definition dot : N := 46.
Definition underscore : N := 95.
Definition str (s : string) : list N := bytes_of_string s.

Definition starts_with (p l : list N) : bool :=
  match strip_prefix p l with Some _ => true | None => false end.

(* option as "value or panic" *)
Definition bind {A B} (x : option A) (f : A -> option B) : option B :=
  match x with Some a => f a | None => None end.
Notation "x <- e ;; k" := (bind e (fun x => k)) (at level 61, e at next level, right associativity).
Fixpoint mapM {A B} (f : A -> option B) (l : list A) : option (list B) :=
  match l with
  | [] => Some []
  | x :: l' => y <- f x ;; ys <- mapM f l' ;; Some (y :: ys)
  end.

(* ------------------------------------------------------------------------------------------
   proc_macro2 (fallback) + quote: identifiers *)
Definition is_ident_start (c : N) : bool := (c =? underscore) || is_upper c || is_lower c.
Definition is_ident_continue (c : N) : bool := (c =? underscore) || is_upper c || is_lower c || is_digit c.
Definition ident_ok (s : list N) : bool :=
  match s with
  | [] => false
  | first :: rest => is_ident_start first && forallb is_ident_continue rest
  end.
(* fn validate_ident: true = does not panic *)
Definition validate_ident (s : list N) : bool :=
  match s with
  | [] => false                                           (* "Ident is not allowed to be empty" *)
  | _ => if forallb is_digit s then false                 (* "Ident cannot be a number" *)
         else ident_ok s                                  (* "{:?} is not a valid Ident" *)
  end.
(* fn validate_ident_raw *)
Definition not_raw_able (s : list N) : bool :=
  bytes_eqb s (str "_") || bytes_eqb s (str "super") || bytes_eqb s (str "self") ||
  bytes_eqb s (str "Self") || bytes_eqb s (str "crate").
Definition validate_ident_raw (s : list N) : bool := validate_ident s && negb (not_raw_able s).
(* quote: mk_ident / ident_maybe_raw; the identifier prints as the text it was made from *)
Definition mk_ident (id : list N) : option (list N) :=
  match strip_prefix (str "r#") id with
  | Some rest => if validate_ident_raw rest then Some id else None
  | None => if validate_ident id then Some id else None
  end.

(* syn: the words `Ident::parse` refuses (syn/src/ident.rs); the generated text is parsed again by
   `finalize` (manual.rs / prost.rs), where a defined name that is one of these does not parse *)
Definition syn_keywords : list (list N) := map str
  [ "_"; "abstract"; "as"; "async"; "await"; "become"; "box"; "break"; "const"; "continue";
    "crate"; "do"; "dyn"; "else"; "enum"; "extern"; "false"; "final"; "fn"; "for"; "if"; "impl";
    "in"; "let"; "loop"; "macro"; "match"; "mod"; "move"; "mut"; "override"; "priv"; "pub"; "ref";
    "return"; "Self"; "self"; "static"; "struct"; "super"; "trait"; "true"; "try"; "type";
    "typeof"; "unsafe"; "unsized"; "use"; "virtual"; "where"; "while"; "yield" ]%string.
Definition is_syn_keyword (s : list N) : bool := existsb (bytes_eqb s) syn_keywords.

(* token text modulo white space (how types are compared) *)
Definition is_ws (c : N) : bool := (c =? 32) || ((9 <=? c) && (c <=? 13)).
Definition strip_ws (l : list N) : list N := filter (fun c => negb (is_ws c)) l.

(* ------------------------------------------------------------------------------------------
   lib.rs *)
(* trait Method *)
Record method := mkMethod {
  m_name : list N;              (* name(): the Rust fn name ("say_hello", "r#type") *)
  m_ident : list N;             (* identifier(): the proto / route name ("SayHello") *)
  m_codec_ok : bool;            (* syn::parse_str::<syn::Path>(codec_path()) succeeds *)
  m_client_streaming : bool;
  m_server_streaming : bool;
  (* request_response_name(proto_path, compile_well_known_types); None = it panics *)
  m_types : list N -> bool -> option (list N * list N)
}.
(* trait Service *)
Record svc := mkService {
  s_name : list N;              (* name(): Rust type name stem *)
  s_package : list N;           (* package() *)
  s_ident : list N;             (* identifier(): proto name *)
  s_methods : list method
}.

(* fn format_service_name(service, emit_package) *)
Definition format_service_name (s : svc) (emit_package : bool) : list N :=
  let package := if emit_package then s_package s else [] in
  package ++ (match package with [] => [] | _ => [dot] end) ++ s_ident s.

(* fn format_method_path(service, method, emit_package) = format!("/{}/{}", ..) *)
Definition format_method_path (s : svc) (m : method) (emit_package : bool) : list N :=
  slash :: format_service_name s emit_package ++ slash :: m_ident m.

(* fn naive_snake_case (char::is_uppercase / to_ascii_lowercase on ASCII) *)
Fixpoint naive_snake_case (name : list N) : list N :=
  match name with
  | [] => []
  | x :: rest =>
      to_lower x ::
      (match rest with
       | y :: _ => if is_upper y then [underscore] else []
       | [] => []
       end) ++ naive_snake_case rest
  end.

Inductive shape := Unary | ServerStreaming | ClientStreaming | Streaming.
Definition shape_code (k : shape) : N :=
  match k with Unary => 0 | ServerStreaming => 1 | ClientStreaming => 2 | Streaming => 3 end.
(* what a descriptor asks for *)
Definition shape_of (client_streaming server_streaming : bool) : shape :=
  match client_streaming, server_streaming with
  | false, false => Unary
  | false, true => ServerStreaming
  | true, false => ClientStreaming
  | true, true => Streaming
  end.

(* ------------------------------------------------------------------------------------------
   client.rs *)
(* one generated `pub async fn` *)
Record client_fn := mkClientFn {
  c_fn : list N;                      (* pub async fn <ident> *)
  c_req_streaming : bool;             (* request: impl IntoStreamingRequest<Message = Req> / impl IntoRequest<Req> *)
  c_input : list N;
  c_resp_streaming : bool;            (* -> Result<Response<Streaming<Resp>>, Status> / Response<Resp> *)
  c_output : list N;
  c_path : list N;                    (* PathAndQuery::from_static(<path>) *)
  c_grpc_method : list N * list N;    (* GrpcMethod::new(<service_name>, <method_name>) *)
  c_call : shape                      (* self.inner.<shape>(req, path, codec) *)
}.

Definition client_generate_unary (s : svc) (m : method) (emit_package : bool)
    (proto_path : list N) (cwkt : bool) : option client_fn :=
  _codec_name <- (if m_codec_ok m then Some tt else None) ;;
  ident <- mk_ident (m_name m) ;;
  rr <- m_types m proto_path cwkt ;;
  let service_name := format_service_name s emit_package in
  let path := format_method_path s m emit_package in
  let method_name := m_ident m in
  Some (mkClientFn ident false (fst rr) false (snd rr) path (service_name, method_name) Unary).

Definition client_generate_server_streaming (s : svc) (m : method) (emit_package : bool)
    (proto_path : list N) (cwkt : bool) : option client_fn :=
  _codec_name <- (if m_codec_ok m then Some tt else None) ;;
  ident <- mk_ident (m_name m) ;;
  rr <- m_types m proto_path cwkt ;;
  let service_name := format_service_name s emit_package in
  let path := format_method_path s m emit_package in
  let method_name := m_ident m in
  Some (mkClientFn ident false (fst rr) true (snd rr) path (service_name, method_name) ServerStreaming).

Definition client_generate_client_streaming (s : svc) (m : method) (emit_package : bool)
    (proto_path : list N) (cwkt : bool) : option client_fn :=
  _codec_name <- (if m_codec_ok m then Some tt else None) ;;
  ident <- mk_ident (m_name m) ;;
  rr <- m_types m proto_path cwkt ;;
  let service_name := format_service_name s emit_package in
  let path := format_method_path s m emit_package in
  let method_name := m_ident m in
  Some (mkClientFn ident true (fst rr) false (snd rr) path (service_name, method_name) ClientStreaming).

Definition client_generate_streaming (s : svc) (m : method) (emit_package : bool)
    (proto_path : list N) (cwkt : bool) : option client_fn :=
  _codec_name <- (if m_codec_ok m then Some tt else None) ;;
  ident <- mk_ident (m_name m) ;;
  rr <- m_types m proto_path cwkt ;;
  let service_name := format_service_name s emit_package in
  let path := format_method_path s m emit_package in
  let method_name := m_ident m in
  Some (mkClientFn ident true (fst rr) true (snd rr) path (service_name, method_name) Streaming).

(* fn generate_methods: match (method.client_streaming(), method.server_streaming()) *)
Definition client_generate_method (s : svc) (emit_package : bool) (proto_path : list N) (cwkt : bool)
    (m : method) : option client_fn :=
  match m_client_streaming m, m_server_streaming m with
  | false, false => client_generate_unary s m emit_package proto_path cwkt
  | false, true => client_generate_server_streaming s m emit_package proto_path cwkt
  | true, false => client_generate_client_streaming s m emit_package proto_path cwkt
  | true, true => client_generate_streaming s m emit_package proto_path cwkt
  end.
Definition client_generate_methods (s : svc) (emit_package : bool) (proto_path : list N) (cwkt : bool)
    : option (list client_fn) :=
  mapM (client_generate_method s emit_package proto_path cwkt) (s_methods s).

Record client_mod := mkClientMod {
  cm_mod : list N;                    (* pub mod <snake>_client *)
  cm_struct : list N;                 (* pub struct <Name>Client<T> *)
  cm_fns : list client_fn
}.
(* client::generate_internal (build_transport / attributes / disable_comments carry no path, shape,
   type or name and are left out) *)
Definition client_generate_internal (s : svc) (emit_package : bool) (proto_path : list N) (cwkt : bool)
    : option client_mod :=
  service_ident <- mk_ident (s_name s ++ str "Client") ;;
  client_mod <- mk_ident (naive_snake_case (s_name s) ++ str "_client") ;;
  methods <- client_generate_methods s emit_package proto_path cwkt ;;
  Some (mkClientMod client_mod service_ident methods).

(* ------------------------------------------------------------------------------------------
   server.rs *)
(* the type inside tonic::Response<..> of a handler / the ResponseStream of an arm *)
Inductive resp_ty :=
| RPlain (t : list N)                 (* Resp *)
| RAssoc (stream : list N)            (* Self::<X>Stream  /  T::<X>Stream *)
| RBox (t : list N).                  (* BoxStream<Resp> *)

(* one method of the generated trait *)
Record trait_fn := mkTraitFn {
  t_assoc : option (list N * list N); (* `type <X>Stream: Stream<Item = Result<Resp, Status>>` before the fn *)
  t_fn : list N;                      (* async fn <name> *)
  t_arc_self : bool;                  (* self: std::sync::Arc<Self>  /  &self *)
  t_req_streaming : bool;             (* request: Request<Streaming<Req>> / Request<Req> *)
  t_input : list N;
  t_resp : resp_ty;                   (* -> Result<Response<..>, Status> *)
  t_default_body : bool               (* { Err(Status::unimplemented(..)) }  /  ; *)
}.

(* fn generate_trait_methods: the body of the loop *)
Definition generate_trait_method (proto_path : list N) (cwkt : bool)
    (use_arc_self generate_default_stubs : bool) (m : method) : option trait_fn :=
  name <- mk_ident (m_name m) ;;
  rr <- m_types m proto_path cwkt ;;
  let req_message := fst rr in
  let res_message := snd rr in
  let self_param := use_arc_self in
  match m_client_streaming m, m_server_streaming m, generate_default_stubs with
  | false, false, true =>
      Some (mkTraitFn None name self_param false req_message (RPlain res_message) true)
  | false, false, false =>
      Some (mkTraitFn None name self_param false req_message (RPlain res_message) false)
  | true, false, true =>
      Some (mkTraitFn None name self_param true req_message (RPlain res_message) true)
  | true, false, false =>
      Some (mkTraitFn None name self_param true req_message (RPlain res_message) false)
  | false, true, true =>
      Some (mkTraitFn None name self_param false req_message (RBox res_message) true)
  | false, true, false =>
      stream <- mk_ident (m_ident m ++ str "Stream") ;;
      Some (mkTraitFn (Some (stream, res_message)) name self_param false req_message (RAssoc stream) false)
  | true, true, true =>
      Some (mkTraitFn None name self_param true req_message (RBox res_message) true)
  | true, true, false =>
      stream <- mk_ident (m_ident m ++ str "Stream") ;;
      Some (mkTraitFn (Some (stream, res_message)) name self_param true req_message (RAssoc stream) false)
  end.
Definition generate_trait_methods (s : svc) (proto_path : list N) (cwkt : bool)
    (use_arc_self generate_default_stubs : bool) : option (list trait_fn) :=
  mapM (generate_trait_method proto_path cwkt use_arc_self generate_default_stubs) (s_methods s).

(* one arm of the generated `call`: "<path>" => { struct <X>Svc; impl <Kind>Service<Req> for <X>Svc
   { type Response; [type ResponseStream;] fn call(&mut self, request) { <T as Trait>::f(inner, request) } }
   .. grpc.<shape>(method, req) } *)
Record server_arm := mkArm {
  a_literal : list N;
  a_kind : shape;                     (* impl tonic::server::<Kind>Service<Req> *)
  a_input : list N;                   (* .. <Req> *)
  a_output : list N;                  (* type Response = Resp *)
  a_response_stream : option resp_ty; (* type ResponseStream = T::<X>Stream | BoxStream<Resp> *)
  a_call_req_streaming : bool;        (* fn call(&mut self, request: Request<Streaming<Req>>) *)
  a_trait : list N;                   (* <T as <Trait>>::<fn>( *)
  a_fn : list N;
  a_inner_by_value : bool;            (* (inner, request)  /  (&inner, request) *)
  a_grpc_call : shape                 (* grpc.<shape>(method, req) *)
}.

Definition server_generate_unary (m : method) (proto_path : list N) (cwkt : bool)
    (method_ident server_trait : list N) (use_arc_self : bool) (path : list N) : option server_arm :=
  _codec_name <- (if m_codec_ok m then Some tt else None) ;;
  _service_ident <- mk_ident (m_ident m ++ str "Svc") ;;
  rr <- m_types m proto_path cwkt ;;
  let inner_arg := use_arc_self in
  Some (mkArm path Unary (fst rr) (snd rr) None false server_trait method_ident inner_arg Unary).

Definition server_generate_server_streaming (m : method) (proto_path : list N) (cwkt : bool)
    (method_ident server_trait : list N) (use_arc_self generate_default_stubs : bool) (path : list N)
    : option server_arm :=
  _codec_name <- (if m_codec_ok m then Some tt else None) ;;
  _service_ident <- mk_ident (m_ident m ++ str "Svc") ;;
  rr <- m_types m proto_path cwkt ;;
  response_stream <-
    (if negb generate_default_stubs
     then stream <- mk_ident (m_ident m ++ str "Stream") ;; Some (RAssoc stream)
     else Some (RBox (snd rr))) ;;
  let inner_arg := use_arc_self in
  Some (mkArm path ServerStreaming (fst rr) (snd rr) (Some response_stream) false
              server_trait method_ident inner_arg ServerStreaming).

Definition server_generate_client_streaming (m : method) (proto_path : list N) (cwkt : bool)
    (method_ident server_trait : list N) (use_arc_self : bool) (path : list N) : option server_arm :=
  _service_ident <- mk_ident (m_ident m ++ str "Svc") ;;
  rr <- m_types m proto_path cwkt ;;
  _codec_name <- (if m_codec_ok m then Some tt else None) ;;
  let inner_arg := use_arc_self in
  Some (mkArm path ClientStreaming (fst rr) (snd rr) None true server_trait method_ident inner_arg
              ClientStreaming).

Definition server_generate_streaming (m : method) (proto_path : list N) (cwkt : bool)
    (method_ident server_trait : list N) (use_arc_self generate_default_stubs : bool) (path : list N)
    : option server_arm :=
  _codec_name <- (if m_codec_ok m then Some tt else None) ;;
  _service_ident <- mk_ident (m_ident m ++ str "Svc") ;;
  rr <- m_types m proto_path cwkt ;;
  response_stream <-
    (if negb generate_default_stubs
     then stream <- mk_ident (m_ident m ++ str "Stream") ;; Some (RAssoc stream)
     else Some (RBox (snd rr))) ;;
  let inner_arg := use_arc_self in
  Some (mkArm path Streaming (fst rr) (snd rr) (Some response_stream) true
              server_trait method_ident inner_arg Streaming).

(* fn generate_methods: the body of the loop *)
Definition server_generate_method (s : svc) (emit_package : bool) (proto_path : list N) (cwkt : bool)
    (use_arc_self generate_default_stubs : bool) (m : method) : option server_arm :=
  let path := format_method_path s m emit_package in
  ident <- mk_ident (m_name m) ;;
  server_trait <- mk_ident (s_name s) ;;
  match m_client_streaming m, m_server_streaming m with
  | false, false => server_generate_unary m proto_path cwkt ident server_trait use_arc_self path
  | false, true => server_generate_server_streaming m proto_path cwkt ident server_trait use_arc_self
                                                    generate_default_stubs path
  | true, false => server_generate_client_streaming m proto_path cwkt ident server_trait use_arc_self path
  | true, true => server_generate_streaming m proto_path cwkt ident server_trait use_arc_self
                                            generate_default_stubs path
  end.
Definition server_generate_methods (s : svc) (emit_package : bool) (proto_path : list N) (cwkt : bool)
    (use_arc_self generate_default_stubs : bool) : option (list server_arm) :=
  mapM (server_generate_method s emit_package proto_path cwkt use_arc_self generate_default_stubs)
       (s_methods s).

Record server_mod := mkServerMod {
  sm_mod : list N;                    (* pub mod <snake>_server *)
  sm_trait : list N;                  (* pub trait <Name> *)
  sm_struct : list N;                 (* pub struct <Name>Server<T> *)
  sm_trait_fns : list trait_fn;
  sm_arms : list server_arm;          (* in order; then the default arm `_ => UNIMPLEMENTED` *)
  sm_service_name : list N;           (* pub const SERVICE_NAME: &str = <lit> *)
  sm_named : list N                   (* NamedService::NAME, as a value (generate_named: = SERVICE_NAME) *)
}.
(* server::generate_internal *)
Definition server_generate_internal (s : svc) (emit_package : bool) (proto_path : list N) (cwkt : bool)
    (use_arc_self generate_default_stubs : bool) : option server_mod :=
  methods <- server_generate_methods s emit_package proto_path cwkt use_arc_self generate_default_stubs ;;
  server_service <- mk_ident (s_name s ++ str "Server") ;;
  server_trait <- mk_ident (s_name s) ;;
  server_mod <- mk_ident (naive_snake_case (s_name s) ++ str "_server") ;;
  generated_trait <- generate_trait_methods s proto_path cwkt use_arc_self generate_default_stubs ;;
  let service_name := format_service_name s emit_package in
  (* generate_named(&server_service, &service_name) *)
  let const_SERVICE_NAME := service_name in
  let named_NAME := const_SERVICE_NAME in
  Some (mkServerMod server_mod server_trait server_service generated_trait methods
                    const_SERVICE_NAME named_NAME).

(* ------------------------------------------------------------------------------------------
   code_gen.rs *)
Record codegen_builder := mkCGB {
  cg_emit_package : bool;
  cg_compile_well_known_types : bool;
  cg_use_arc_self : bool;
  cg_generate_default_stubs : bool
}.
(* CodeGenBuilder::new() = Default *)
Definition cgb_new : codegen_builder := mkCGB true false false false.
Definition cgb_emit_package (v : bool) (b : codegen_builder) :=
  mkCGB v (cg_compile_well_known_types b) (cg_use_arc_self b) (cg_generate_default_stubs b).
Definition cgb_compile_well_known_types (v : bool) (b : codegen_builder) :=
  mkCGB (cg_emit_package b) v (cg_use_arc_self b) (cg_generate_default_stubs b).
Definition cgb_use_arc_self (v : bool) (b : codegen_builder) :=
  mkCGB (cg_emit_package b) (cg_compile_well_known_types b) v (cg_generate_default_stubs b).
Definition cgb_generate_default_stubs (v : bool) (b : codegen_builder) :=
  mkCGB (cg_emit_package b) (cg_compile_well_known_types b) (cg_use_arc_self b) v.
Definition generate_client (b : codegen_builder) (s : svc) (proto_path : list N) : option client_mod :=
  client_generate_internal s (cg_emit_package b) proto_path (cg_compile_well_known_types b).
Definition generate_server (b : codegen_builder) (s : svc) (proto_path : list N) : option server_mod :=
  server_generate_internal s (cg_emit_package b) proto_path (cg_compile_well_known_types b)
                           (cg_use_arc_self b) (cg_generate_default_stubs b).

(* what one ServiceGenerator::generate call adds: (clients, servers) *)
Record gen_out := mkOut { g_client : option client_mod; g_server : option server_mod }.

(* `finalize`: syn::parse2(..).expect("not a valid tokenstream") - a defined name that syn does not
   accept as an identifier (trait name, fn names) makes the emitted text unparsable *)
Definition client_parses (c : client_mod) : bool :=
  forallb (fun f => negb (is_syn_keyword (c_fn f))) (cm_fns c).
Definition server_parses (sv : server_mod) : bool :=
  negb (is_syn_keyword (sm_trait sv)) &&
  forallb (fun t => negb (is_syn_keyword (t_fn t))) (sm_trait_fns sv).
Definition out_parses (g : gen_out) : bool :=
  match g_client g with Some c => client_parses c | None => true end &&
  match g_server g with Some sv => server_parses sv | None => true end.
Definition finalize (g : gen_out) : option gen_out := if out_parses g then Some g else None.

(* ------------------------------------------------------------------------------------------
   manual.rs *)
Record manual_method := mkMM {
  mm_name : list N;
  mm_route_name : list N;
  mm_input_type : list N;
  mm_output_type : list N;
  mm_client_streaming : bool;
  mm_server_streaming : bool;
  mm_input_is_path : bool;            (* syn::parse_str::<syn::Path>(input_type) succeeds (observed) *)
  mm_output_is_path : bool;
  mm_codec_is_path : bool
}.
Record manual_service := mkMS {
  ms_name : list N;
  ms_package : list N;
  ms_methods : list manual_method
}.
(* impl crate::Method for manual::Method *)
Definition manual_method_view (m : manual_method) : method :=
  mkMethod (mm_name m) (mm_route_name m) (mm_codec_is_path m)
           (mm_client_streaming m) (mm_server_streaming m)
           (fun _proto_path _cwkt =>
              request <- (if mm_input_is_path m then Some (strip_ws (mm_input_type m)) else None) ;;
              response <- (if mm_output_is_path m then Some (strip_ws (mm_output_type m)) else None) ;;
              Some (request, response)).
(* impl crate::Service for manual::Service: identifier() is the name *)
Definition manual_service_view (s : manual_service) : svc :=
  mkService (ms_name s) (ms_package s) (ms_name s) (map manual_method_view (ms_methods s)).

Record manual_builder := mkMB { mb_build_client : bool; mb_build_server : bool }.
(* manual::ServiceGenerator::generate *)
Definition manual_generate (b : manual_builder) (s : manual_service) : option gen_out :=
  server <-
    (if mb_build_server b
     then sv <- generate_server (cgb_compile_well_known_types false (cgb_emit_package true cgb_new))
                                (manual_service_view s) [] ;; Some (Some sv)
     else Some None) ;;
  client <-
    (if mb_build_client b
     then c <- generate_client (cgb_compile_well_known_types false (cgb_emit_package true cgb_new))
                               (manual_service_view s) [] ;; Some (Some c)
     else Some None) ;;
  Some (mkOut client server).
(* manual::Builder::compile, one service: generate, finalize *)
Definition manual_compile (b : manual_builder) (s : manual_service) : option gen_out :=
  g <- manual_generate b s ;; finalize g.

(* ------------------------------------------------------------------------------------------
   prost.rs *)
(* prost_build::Method / Service as handed to ServiceGenerator::generate *)
Record prost_method := mkPM {
  pm_name : list N;
  pm_proto_name : list N;
  pm_input_type : list N;
  pm_output_type : list N;
  pm_input_proto_type : list N;
  pm_output_proto_type : list N;
  pm_client_streaming : bool;
  pm_server_streaming : bool
}.
Record prost_service := mkPS {
  ps_name : list N;
  ps_proto_name : list N;
  ps_package : list N;
  ps_methods : list prost_method
}.
Definition is_google_type (ty : list N) : bool := starts_with (str ".google.protobuf") ty.
Definition non_path_type_allowlist : list (list N) := [str "()"].
(* the closure convert_type of TonicBuildMethod::request_response_name; its three parses are
   assumed to succeed (prost-build's type names and proto_path are paths) *)
Definition convert_type (proto_path : list N) (cwkt : bool) (proto_type rust_type : list N) : list N :=
  if (is_google_type proto_type && negb cwkt)
     || starts_with (str "::") rust_type
     || existsb (bytes_eqb rust_type) non_path_type_allowlist
  then strip_ws rust_type
  else if starts_with (str "crate::") rust_type
  then strip_ws rust_type
  else strip_ws (proto_path ++ str "::" ++ rust_type).
(* impl crate::Method for TonicBuildMethod (codec_path: the default, a path) *)
Definition prost_method_view (m : prost_method) : method :=
  mkMethod (pm_name m) (pm_proto_name m) true (pm_client_streaming m) (pm_server_streaming m)
           (fun proto_path cwkt =>
              Some (convert_type proto_path cwkt (pm_input_proto_type m) (pm_input_type m),
                    convert_type proto_path cwkt (pm_output_proto_type m) (pm_output_type m))).
(* impl crate::Service for TonicBuildService *)
Definition prost_service_view (s : prost_service) : svc :=
  mkService (ps_name s) (ps_package s) (ps_proto_name s) (map prost_method_view (ps_methods s)).

Record prost_builder := mkPB {
  pb_build_client : bool;
  pb_build_server : bool;
  pb_proto_path : list N;
  pb_emit_package : bool;
  pb_compile_well_known_types : bool;
  pb_use_arc_self : bool;
  pb_generate_default_stubs : bool
}.
(* fn configure() *)
Definition configure : prost_builder := mkPB true true (str "super") true false false false.
(* prost::ServiceGenerator::generate *)
Definition prost_generate (b : prost_builder) (s : prost_service) : option gen_out :=
  server <-
    (if pb_build_server b
     then sv <- generate_server
                  (cgb_generate_default_stubs (pb_generate_default_stubs b)
                     (cgb_use_arc_self (pb_use_arc_self b)
                        (cgb_compile_well_known_types (pb_compile_well_known_types b)
                           (cgb_emit_package (pb_emit_package b) cgb_new))))
                  (prost_service_view s) (pb_proto_path b) ;; Some (Some sv)
     else Some None) ;;
  client <-
    (if pb_build_client b
     then c <- generate_client
                 (cgb_compile_well_known_types (pb_compile_well_known_types b)
                    (cgb_emit_package (pb_emit_package b) cgb_new))
                 (prost_service_view s) (pb_proto_path b) ;; Some (Some c)
     else Some None) ;;
  Some (mkOut client server).
(* one service through generate + finalize (compile_fds / compile_protos) *)
Definition prost_compile (b : prost_builder) (s : prost_service) : option gen_out :=
  g <- prost_generate b s ;; finalize g.

(* CodeGenBuilder used directly (token streams, no finalize) *)
Definition codegen_direct (b : codegen_builder) (build_client build_server : bool) (s : svc)
    (proto_path : list N) : option gen_out :=
  client <- (if build_client then c <- generate_client b s proto_path ;; Some (Some c) else Some None) ;;
  server <- (if build_server then sv <- generate_server b s proto_path ;; Some (Some sv) else Some None) ;;
  Some (mkOut client server).

(* ------------------------------------------------------------------------------------------
   the generated server as a request meets it *)
(* generated `call`: match req.uri().path() { <literal> => arm, .., _ => UNIMPLEMENTED } *)
Definition call_arm (sv : server_mod) (path : list N) : option server_arm :=
  find (fun a => bytes_eqb (a_literal a) path) (sm_arms sv).
(* what C10's router sees of it: NamedService::NAME and, per arm, the part of the literal after
   "/NAME/" (the whole literal if it does not start that way) *)
Definition arm_method (name : list N) (a : server_arm) : list N :=
  match strip_prefix (slash :: name ++ [slash]) (a_literal a) with
  | Some rest => rest
  | None => a_literal a
  end.
Definition registered (sv : server_mod) : service :=
  mkSvc (sm_named sv) (map (arm_method (sm_named sv)) (sm_arms sv)).

(* ------------------------------------------------------------------------------------------
   observables *)
Definition client_fn_obs (c : client_fn) : tr :=
  Nd [Bs (c_fn c); obool (c_req_streaming c); Bs (c_input c); obool (c_resp_streaming c); Bs (c_output c);
      Bs (c_path c); Bs (fst (c_grpc_method c)); Bs (snd (c_grpc_method c)); Nn (shape_code (c_call c))].
Definition client_mod_obs (c : client_mod) : tr :=
  Nd [Bs (cm_mod c); Bs (cm_struct c); olist client_fn_obs (cm_fns c)].
Definition resp_obs (r : resp_ty) : tr :=
  match r with
  | RPlain t => Nd [Nn 0; Bs t]
  | RAssoc x => Nd [Nn 1; Bs x]
  | RBox t => Nd [Nn 2; Bs t]
  end.
Definition trait_fn_obs (t : trait_fn) : tr :=
  Nd [oopt (fun p => Nd [Bs (fst p); Bs (snd p)]) (t_assoc t); Bs (t_fn t); obool (t_arc_self t);
      obool (t_req_streaming t); Bs (t_input t); resp_obs (t_resp t); obool (t_default_body t)].
Definition arm_obs (a : server_arm) : tr :=
  Nd [Bs (a_literal a); Nn (shape_code (a_kind a)); Bs (a_input a); Bs (a_output a);
      oopt resp_obs (a_response_stream a); obool (a_call_req_streaming a); Bs (a_trait a); Bs (a_fn a);
      obool (a_inner_by_value a); Nn (shape_code (a_grpc_call a))].
Definition server_mod_obs (sv : server_mod) : tr :=
  Nd [Bs (sm_mod sv); Bs (sm_trait sv); Bs (sm_struct sv); olist trait_fn_obs (sm_trait_fns sv);
      olist arm_obs (sm_arms sv); Bs (sm_service_name sv); Bs (sm_named sv)].
Definition gen_out_obs (g : option gen_out) : tr :=
  match g with
  | None => Nd [Nn 99]                                (* the generator panicked *)
  | Some g => Nd [oopt client_mod_obs (g_client g); oopt server_mod_obs (g_server g)]
  end.

(* CodeGenBuilder::generate_client / generate_server on a tonic_build::manual descriptor; the
   token streams are parsed by the harness: 98 = they do not parse *)
Definition obs_codegen (b : codegen_builder) (build_client build_server : bool) (s : manual_service) : tr :=
  match codegen_direct b build_client build_server (manual_service_view s) [] with
  | None => Nd [Nn 99]
  | Some g => if out_parses g then gen_out_obs (Some g) else Nd [Nn 98]
  end.
(* manual::Builder::compile *)
Definition obs_manual (b : manual_builder) (s : manual_service) : tr :=
  gen_out_obs (manual_compile b s).
(* tonic_build::configure()..compile_fds / compile_protos, one service of the file *)
Definition obs_prost (b : prost_builder) (s : prost_service) : tr :=
  gen_out_obs (prost_compile b s).

(* a generated client method (the j-th of [s]) called through Routes on which the generated
   servers of [regs] are registered: which handler runs, and with which streaming shape on either
   side (manual::Builder, as the fixture is built) *)
Definition manual_server (s : manual_service) : option server_mod :=
  g <- manual_compile (mkMB true true) s ;; g_server g.
Definition manual_client (s : manual_service) : option client_mod :=
  g <- manual_compile (mkMB true true) s ;; g_client g.
Definition obs_e2e (regs : list manual_service) (s : manual_service) (j : N) : tr :=
  match mapM manual_server regs, manual_client s, manual_server s with
  | Some svs, Some c, Some sv =>
      match nth_error (cm_fns c) (N.to_nat j) with
      | Some f =>
          Nd [ obs_serve (map registered svs) (c_path f);
               Nn (shape_code (c_call f));
               match call_arm sv (c_path f) with
               | Some a => Nn (shape_code (a_grpc_call a))
               | None => Nn 9
               end ]
      | None => Nd [Nn 96]
      end
  | _, _, _ => Nd [Nn 99]
  end.

(* the same for servers generated through the prost path under any Builder options, registered
   next to other generated servers: who answers the j-th client method of [s] - the user's handler
   (0), or the default body `Err(Status::unimplemented(..))` that generate_default_stubs put into the
   trait when the implementation does not override the method (3) *)
Inductive reg := RegProst (b : prost_builder) (s : prost_service) | RegManual (s : manual_service).
Definition reg_server (r : reg) : option server_mod :=
  match r with
  | RegProst b s => g <- prost_compile b s ;; g_server g
  | RegManual s => manual_server s
  end.
Definition obs_e2e_prost (regs : list reg) (b : prost_builder) (s : prost_service) (j : N)
    (overridden : bool) : tr :=
  match mapM reg_server regs, (g <- prost_compile b s ;; g_client g),
        (g <- prost_compile b s ;; g_server g) with
  | Some svs, Some c, Some sv =>
      match nth_error (cm_fns c) (N.to_nat j), build (map registered svs) with
      | Some f, Some r =>
          match serve r (c_path f) with
          | Handler name m =>
              match call_arm sv (c_path f) with
              | Some a =>
                  let stub :=
                    match find (fun t => bytes_eqb (t_fn t) (a_fn a)) (sm_trait_fns sv) with
                    | Some t => t_default_body t && negb overridden
                    | None => false
                    end in
                  if stub
                  then Nd [Nd [Nn 3]; Nn (shape_code (c_call f)); Nn 9; Nn 12]
                  else Nd [Nd [Nn 0; Bs name; Bs m]; Nn (shape_code (c_call f));
                           Nn (shape_code (a_grpc_call a)); Nn 0]
              | None => Nd [Nn 97]
              end
          | UnimplService name => Nd [Nd [Nn 1; Bs name]; Nn (shape_code (c_call f)); Nn 9; Nn 12]
          | UnimplFallback => Nd [Nd [Nn 2]; Nn (shape_code (c_call f)); Nn 9; Nn 12]
          end
      | _, _ => Nd [Nn 96]
      end
  | _, _, _ => Nd [Nn 99]
  end.

(* committed file = generator output: the comparison either holds or not *)
Definition obs_regen : tr := Nd [Nn 1].
