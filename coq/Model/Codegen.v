(* Model of the service code generator (C11):
     tonic-build/src/lib.rs      format_service_name / format_method_path, traits Service / Method
     tonic-build/src/client.rs   generate_methods: one `pub async fn` per method
     tonic-build/src/server.rs   generate_methods: one match arm per method; generate_named
     tonic-build/src/code_gen.rs CodeGenBuilder (options), manual.rs / prost.rs (descriptors)
   Only what the property speaks about is kept: the strings, the streaming shape and the message
   types each side is generated with.  Strings are byte lists.  No proofs here. *)
From Verif Require Import Lib.Bytes Lib.Obs Model.Router.
Open Scope N_scope.

Definition dot : N := 46.

(* tonic_build::Method *)
Record method := mkMethod {
  m_name : list N;            (* Method::name(): the Rust fn name ("say_hello", "r#type") *)
  m_ident : list N;           (* Method::identifier(): the proto / route name ("SayHello") *)
  m_client_streaming : bool;
  m_server_streaming : bool;
  m_input : list N;           (* request_response_name(): request type tokens *)
  m_output : list N           (* .. response type tokens *)
}.
(* tonic_build::Service *)
Record svc := mkService {
  s_name : list N;            (* Service::name(): Rust type name stem *)
  s_package : list N;         (* Service::package() *)
  s_ident : list N;           (* Service::identifier(): proto name *)
  s_methods : list method
}.
(* CodeGenBuilder / Builder options that are in scope of the property *)
Record opts := mkOpts {
  o_emit_package : bool;
  o_use_arc_self : bool;
  o_default_stubs : bool;
  o_build_client : bool;
  o_build_server : bool
}.

(* fn format_service_name(service, emit_package) *)
Definition format_service_name (s : svc) (emit_package : bool) : list N :=
  let package := if emit_package then s_package s else [] in
  package ++ (match package with [] => [] | _ => [dot] end) ++ s_ident s.

(* fn format_method_path(service, method, emit_package) = format!("/{}/{}", ..) *)
Definition format_method_path (s : svc) (m : method) (emit_package : bool) : list N :=
  slash :: format_service_name s emit_package ++ slash :: m_ident m.

Inductive shape := Unary | ServerStreaming | ClientStreaming | Streaming.
Definition shape_code (k : shape) : N :=
  match k with Unary => 0 | ServerStreaming => 1 | ClientStreaming => 2 | Streaming => 3 end.

(* client.rs generate_methods: match (method.client_streaming(), method.server_streaming()) *)
Definition client_shape (m : method) : shape :=
  match m_client_streaming m, m_server_streaming m with
  | false, false => Unary               (* generate_unary            -> self.inner.unary *)
  | false, true => ServerStreaming      (* generate_server_streaming -> self.inner.server_streaming *)
  | true, false => ClientStreaming      (* generate_client_streaming -> self.inner.client_streaming *)
  | true, true => Streaming             (* generate_streaming        -> self.inner.streaming *)
  end.
(* server.rs generate_methods: the same match, written a second time in the source *)
Definition server_shape (m : method) : shape :=
  match m_client_streaming m, m_server_streaming m with
  | false, false => Unary               (* UnaryService,           grpc.unary *)
  | false, true => ServerStreaming      (* ServerStreamingService, grpc.server_streaming *)
  | true, false => ClientStreaming      (* ClientStreamingService, grpc.client_streaming *)
  | true, true => Streaming             (* StreamingService,       grpc.streaming *)
  end.

(* one generated client method *)
Record client_fn := mkClientFn {
  c_fn : list N;                      (* pub async fn <name> *)
  c_path : list N;                    (* PathAndQuery::from_static(<path>) *)
  c_shape : shape;                    (* self.inner.<shape>(req, path, codec) *)
  c_grpc_method : list N * list N;    (* GrpcMethod::new(<service>, <method>) *)
  c_input : list N;
  c_output : list N
}.
Definition gen_client_fn (o : opts) (s : svc) (m : method) : client_fn :=
  mkClientFn (m_name m) (format_method_path s m (o_emit_package o)) (client_shape m)
             (format_service_name s (o_emit_package o), m_ident m) (m_input m) (m_output m).
Definition gen_client (o : opts) (s : svc) : list client_fn := map (gen_client_fn o s) (s_methods s).

(* one generated server match arm *)
Record server_arm := mkArm {
  a_literal : list N;                 (* "<path>" => { .. } *)
  a_shape : shape;                    (* impl <Kind>Service .. ; grpc.<shape>(method, req) *)
  a_fn : list N;                      (* <T as Trait>::<name>(&inner, request) *)
  a_input : list N;
  a_output : list N
}.
Definition gen_arm (o : opts) (s : svc) (m : method) : server_arm :=
  mkArm (format_method_path s m (o_emit_package o)) (server_shape m) (m_name m) (m_input m) (m_output m).
Record server := mkServer {
  sv_service_name : list N;           (* pub const SERVICE_NAME; NamedService::NAME = SERVICE_NAME *)
  sv_arms : list server_arm           (* in order; then the default arm (UNIMPLEMENTED) *)
}.
Definition gen_server (o : opts) (s : svc) : server :=
  mkServer (format_service_name s (o_emit_package o)) (map (gen_arm o s) (s_methods s)).

(* the generated server as C10's router sees it: NAME and the arm literals' method parts *)
Definition registered (o : opts) (s : svc) : service :=
  mkSvc (sv_service_name (gen_server o s)) (map m_ident (s_methods s)).

(* ---- observables ---- *)
Definition client_fn_obs (full : bool) (c : client_fn) : tr :=
  Nd ([Bs (c_path c); Nn (shape_code (c_shape c)); Bs (fst (c_grpc_method c)); Bs (snd (c_grpc_method c))]
      ++ if full then [Bs (c_fn c); Bs (c_input c); Bs (c_output c)] else []).
Definition arm_obs (full : bool) (a : server_arm) : tr :=
  Nd ([Bs (a_literal a); Nn (shape_code (a_shape a))]
      ++ if full then [Bs (a_fn a); Bs (a_input a); Bs (a_output a)] else []).
Definition server_obs (full : bool) (sv : server) : tr :=
  Nd [Bs (sv_service_name sv); olist (arm_obs full) (sv_arms sv)].

(* what the two generators emit for one service; [full]: also fn names and message types
   (known for tonic_build::manual descriptors; prost-build derives them itself) *)
Definition obs_gen (full : bool) (o : opts) (s : svc) : tr :=
  Nd [ if o_build_client o then Nd [olist (client_fn_obs full) (gen_client o s)] else Nd [];
       if o_build_server o then Nd [server_obs full (gen_server o s)] else Nd [] ].

(* a generated client method called through Routes on which the generated server is registered
   (with other services): which handler runs, and with which streaming shape on either side *)
Definition obs_e2e (o : opts) (regs : list svc) (s : svc) (m : method) : tr :=
  let c := gen_client_fn o s m in
  Nd [ obs_serve (map (registered o) regs) (c_path c);
       Nn (shape_code (c_shape c)); Nn (shape_code (server_shape m)) ].

(* committed file = generator output: the comparison either holds or not *)
Definition obs_regen : tr := Nd [Nn 1].
