(* Model of tonic/src/status.rs: Status <-> header map, Code tables, status inference.
   Tables come from Gen/StatusTables.v, regenerated from the source on every run. *)
From Verif Require Import Lib.Bytes Lib.Obs Lib.Base64 Lib.Percent Lib.Utf8 Lib.HeaderMap.
From Verif Require Import Gen.StatusTables.
From Coq Require Import String.
Open Scope string_scope.
Open Scope N_scope.

Record status := mkStatus { st_code : N; st_msg : list N; st_details : list N; st_md : hm }.

Fixpoint assoc_bytes {V} (t : list (list N * V)) (k : list N) : option V :=
  match t with
  | [] => None
  | (k', v) :: r => if bytes_eqb k' k then Some v else assoc_bytes r k
  end.
Fixpoint assoc_n {V} (t : list (N * V)) (k : N) : option V :=
  match t with
  | [] => None
  | (k', v) :: r => if k' =? k then Some v else assoc_n r k
  end.
Fixpoint assoc_z {V} (t : list (Z * V)) (k : Z) : option V :=
  match t with
  | [] => None
  | (k', v) :: r => if (k' =? k)%Z then Some v else assoc_z r k
  end.

Definition code_from_bytes (b : list N) : N :=
  match assoc_bytes from_bytes_table b with Some c => c | None => from_bytes_default end.
Definition code_from_i32 (z : Z) : N :=
  match assoc_z from_i32_table z with Some c => c | None => from_i32_default end.
(* the Rust match is exhaustive over the enum; None only for a number that is not a Code *)
Definition code_to_hv (c : N) : option (list N) := assoc_n to_header_value_table c.
Definition is_code (c : N) : bool := existsb (N.eqb c) code_discriminants.

Definition in_encoding_set (b : N) : bool :=
  (b <? 32) || (b =? 127) || existsb (N.eqb b) encoding_set_extra.

Definition sanitize (m : hm) : hm := hm_remove_all m reserved_headers.

(* HeaderValue::from_maybe_shared succeeds iff every byte is legal *)
Definition mk_hv (v : list N) : option (list N) := if hv_ok v then Some v else None.

(* Status::add_header; None = Err(invalid header value).
   After fix ed827503 (F-C04e) a status WITHOUT details removes the details header from the map
   (`else { header_map.remove(GRPC_STATUS_DETAILS) }`): an entry of that name in the custom
   metadata (the name is not reserved, so it survives sanitising) or in the map written into can
   no longer be read back as the details of the status. *)
Definition add_header (st : status) (m : hm) : option hm :=
  let m1 := hm_extend m (sanitize (st_md st)) in
  match code_to_hv (st_code st) with
  | None => None
  | Some cv =>
      let m2 := hm_insert m1 hdr_grpc_status cv in
      let m3 :=
        match st_msg st with
        | [] => Some m2
        | _ => match mk_hv (pct_encode in_encoding_set (st_msg st)) with
               | Some v => Some (hm_insert m2 hdr_grpc_message v)
               | None => None
               end
        end in
      match m3 with
      | None => None
      | Some m3 =>
          match st_details st with
          | [] => Some (hm_remove m3 hdr_grpc_status_details)
          | _ => match mk_hv (enc false (st_details st)) with
                 | Some v => Some (hm_insert m3 hdr_grpc_status_details v)
                 | None => None
                 end
          end
      end
  end.

Definition to_header_map (st : status) : option hm := add_header st [].

(* text tonic puts into the message of a degraded status (the Display of the underlying
   error follows it in the implementation; observables are cut after this prefix) *)
Definition msg_err_prefix : list N :=
  Eval vm_compute in bytes_of_string "Error deserializing status message header: ".
Definition details_err_prefix : list N :=
  Eval vm_compute in bytes_of_string "Error deserializing status details header: ".

(* Status::from_header_map *)
Definition from_header_map (m : hm) : option status :=
  match hm_get m hdr_grpc_status with
  | None => None
  | Some cv =>
      let code := code_from_bytes cv in
      let msg : option (list N) :=
        match hm_get m hdr_grpc_message with
        | Some h => let d := pct_decode h in if utf8_valid d then Some d else None
        | None => Some []
        end in
      let det : option (list N) :=
        match hm_get m hdr_grpc_status_details with
        | Some h => dec h
        | None => Some []
        end in
      let other := hm_remove (hm_remove (hm_remove m hdr_grpc_status) hdr_grpc_message)
                             hdr_grpc_status_details in
      let '(code, message) :=
        match msg with Some d => (code, d) | None => (Code_Unknown, msg_err_prefix) end in
      let '(code, message, details) :=
        match det with
        | Some d => (code, message, d)
        | None => (Code_Unknown, details_err_prefix, [])
        end in
      Some (mkStatus code message details other)
  end.

(* infer_grpc_status(trailers, http status):
   inl tt = Ok(()), inr None = Err(None), inr (Some st) = Err(Some st) *)
Definition http_msg_prefix : list N :=
  Eval vm_compute in bytes_of_string "grpc-status header missing, mapped from HTTP status code ".

Definition infer_code_from_http (s : N) : option N :=
  if existsb (N.eqb s) http_no_status then None
  else Some match assoc_n http_code_table s with Some c => c | None => http_code_default end.

Definition infer_grpc_status (trailers : option hm) (http : N) : unit + option status :=
  let fallback :=
    match infer_code_from_http http with
    | None => inr None
    | Some c => inr (Some (mkStatus c http_msg_prefix [] []))
    end in
  match trailers with
  | Some t =>
      match from_header_map t with
      | Some st => if st_code st =? Code_Ok then inl tt else inr (Some st)
      | None => fallback
      end
  | None => fallback
  end.

Definition code_from_h2 (reason : N) : N :=
  match assoc_n h2_code_table reason with Some c => c | None => h2_code_default end.
Definition to_h2_error (code : N) : N :=
  match assoc_n to_h2_table code with Some r => r | None => to_h2_default end.

(* ---- observables ---- *)
Fixpoint is_prefix (p l : list N) : bool :=
  match p, l with
  | [], _ => true
  | x :: p', y :: l' => (x =? y) && is_prefix p' l'
  | _ :: _, [] => false
  end.
(* messages produced by the degradations carry implementation-defined detail text: cut *)
Definition canon_msg (m : list N) : list N :=
  if is_prefix msg_err_prefix m then msg_err_prefix
  else if is_prefix details_err_prefix m then details_err_prefix
  else if is_prefix http_msg_prefix m then http_msg_prefix
  else m.

Definition status_obs (st : status) : tr :=
  Nd [Nn (st_code st); Bs (canon_msg (st_msg st)); Bs (st_details st); hm_canon (st_md st)].

Definition obs_roundtrip (st : status) : tr :=
  match to_header_map st with
  | None => Nd [Nn 0]
  | Some m => Nd [Nn 1; hm_canon m; oopt status_obs (from_header_map m)]
  end.
Definition obs_from_headers (m : hm) : tr := oopt status_obs (from_header_map m).
Definition obs_infer (trailers : option hm) (http : N) : tr :=
  match infer_grpc_status trailers http with
  | inl _ => Nd [Nn 0]
  | inr None => Nd [Nn 1]
  | inr (Some st) => Nd [Nn 2; status_obs st]
  end.
(* what Streaming::message shows of the inference: Ok(()) and Err(None) both end cleanly *)
Definition obs_infer_stream (trailers : option hm) (http : N) : tr :=
  match infer_grpc_status trailers http with
  | inr (Some st) => Nd [Nn 2; status_obs st]
  | _ => Nd [Nn 0]
  end.

(* ---- Status::from_error / try_from_error on an error source chain ----
   A chain is the error followed by its sources.  try_from_error downcasts the ERROR ITSELF to
   Status, then to h2::Error; otherwise find_status_in_source_chain walks the chain and
   recognises Status, TimeoutExpired (CANCELLED), ConnectError (UNAVAILABLE) and hyper::Error
   (timeout -> UNAVAILABLE, canceled -> CANCELLED, an h2::Error as its direct source -> the
   HTTP/2 table); an h2::Error deeper in a chain is not recognised by itself.  Anything else is
   UNKNOWN. *)
Inductive enode :=
| EStatus (code : N)
| ETimeout
| EConnect
| EH2 (reason : option N)
| EHyper (timeout canceled : bool) (h2src : option (option N))
| EOther.

Definition code_from_h2_opt (r : option N) : N :=
  match r with Some n => code_from_h2 n | None => h2_code_default end.

Definition from_hyper_error (timeout canceled : bool) (h2src : option (option N)) : option N :=
  if timeout then Some Code_Unavailable
  else if canceled then Some Code_Cancelled
  else match h2src with Some r => Some (code_from_h2_opt r) | None => None end.

Fixpoint find_status_in_chain (l : list enode) : option N :=
  match l with
  | [] => None
  | EStatus c :: _ => Some c
  | ETimeout :: _ => Some Code_Cancelled
  | EConnect :: _ => Some Code_Unavailable
  | EHyper t c h :: r =>
      match from_hyper_error t c h with Some x => Some x | None => find_status_in_chain r end
  | _ :: r => find_status_in_chain r
  end.

Definition from_error_code (l : list enode) : N :=
  match l with
  | EStatus c :: _ => c
  | EH2 r :: _ => code_from_h2_opt r
  | _ => match find_status_in_chain l with Some c => c | None => Code_Unknown end
  end.

(* what a call sees when the peer resets its stream with HTTP/2 error code [r]: hyper reports an
   error whose source is the h2 error (neither a timeout nor a cancellation of hyper's own) *)
Definition reset_stream_code (r : N) : N := from_error_code [EHyper false false (Some (Some r))].
