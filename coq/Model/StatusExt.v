(* C04, extension of Model/Status.v (which is shared and frozen):
   - http::HeaderMap capacity: Status::add_header / to_header_map / into_http with the
     "size overflows MAX_SIZE" panics of the http crate as explicit outcomes;
   - the observables of the harness kinds trailers / into_http / add_header / capacity;
   - Status::from_error on chains that contain genuine hyper errors.
   No proofs here. *)
From Verif Require Import Lib.Bytes Lib.Obs Lib.Base64 Lib.Percent Lib.Utf8 Lib.HeaderMap.
From Verif Require Import Gen.StatusTables Gen.ConstTables Model.Status.
From Coq Require Import String.
Open Scope string_scope.
Open Scope list_scope.
Open Scope N_scope.

(* ---------------------------------------------------------------- http::HeaderMap capacity *)
(* http-1.5.0 src/header/map.rs: MAX_SIZE = 1 << 15 raw slots, usable_capacity(cap) = cap - cap/4.
   A map holds one slot per distinct NAME (further values of a name live in a side table that is
   not limited).  *)
Definition HM_MAX_SIZE : N := 32768.
Definition HM_MAX_NAMES : N := 24576.            (* usable_capacity(MAX_SIZE) *)

(* HeaderMap::keys_len *)
Definition hm_names (m : hm) : N := nlen (sorted_keys m).

(* HeaderMap::try_with_capacity(c) is Err (and with_capacity(c) panics) iff
   raw_cap = to_raw_capacity(c) = c + c/3, rounded up to a power of two, exceeds MAX_SIZE
   (itself a power of two, so the rounding does not matter for the comparison) *)
Definition with_capacity_panics (c : N) : bool := HM_MAX_SIZE <? c + c / 3.

(* insert / append / entry all start with try_reserve_one(): when every usable slot is taken
   (len == capacity == 24576) the table would have to double beyond MAX_SIZE -> Err ->
   expect() panics.  The check comes BEFORE the lookup, so it also hits a name that is already
   in the map.  (Danger::Yellow - a probe sequence of >= 128 displaced entries - can make
   try_reserve_one fail earlier; header names of that kind are outside the model, see
   checks/C04.json.)  None = panic. *)
Definition hm_full (m : hm) : bool := HM_MAX_NAMES <=? hm_names m.
Definition insert_c (m : hm) (k : hname) (v : hvalue) : option hm :=
  if hm_full m then None else Some (hm_insert m k v).

(* Extend<HeaderMap<T>>: the up-front reserve is clamped to the room that is left and cannot
   fail; then one try_entry2 (= one try_reserve_one) per name of the argument.  The number of
   names only grows, so the check that decides is the one before the LAST name of the argument:
   at that point the map holds every name of the result except that last one if it is new.
   (The argument is the iteration of a HeaderMap: the values of one name are adjacent, the last
   pair carries the last name.) *)
Definition last_name (o : hm) : hname := match last o ([], []) with (k, _) => k end.
Definition extend_c (m o : hm) : option hm :=
  let r := hm_extend m o in
  match o with
  | [] => Some r                                    (* iter.next() = None: nothing is inserted *)
  | _ =>
      let before_last := if hm_contains m (last_name o) then hm_names r else hm_names r - 1 in
      if HM_MAX_NAMES <=? before_last then None else Some r
  end.

(* ---------------------------------------------------------------- writing a status *)
Inductive wres := WOk (m : hm) | WErr | WPanic.

(* Status::add_header, statement by statement:
     header_map.extend(self.metadata.clone().into_sanitized_headers());
     header_map.insert(GRPC_STATUS, self.code.to_header_value());
     if !message.is_empty() { insert(GRPC_MESSAGE, from_maybe_shared(pct)?) }
     if !details.is_empty() { insert(GRPC_STATUS_DETAILS, from_maybe_shared(b64)?) }
     else { remove(GRPC_STATUS_DETAILS) }                       (fix ed827503, F-C04e)
   The `?` is evaluated before the insert it feeds; `remove` reserves nothing and cannot panic. *)
Definition add_header_c (st : status) (m : hm) : wres :=
  match extend_c m (sanitize (st_md st)) with
  | None => WPanic
  | Some m1 =>
  match code_to_hv (st_code st) with
  | None => WErr                      (* not a Code: unreachable, the Rust match is exhaustive *)
  | Some cv =>
  match insert_c m1 hdr_grpc_status cv with
  | None => WPanic
  | Some m2 =>
      let after_msg : wres :=
        match st_msg st with
        | [] => WOk m2
        | _ => match mk_hv (pct_encode in_encoding_set (st_msg st)) with
               | None => WErr
               | Some v => match insert_c m2 hdr_grpc_message v with
                           | None => WPanic
                           | Some m3 => WOk m3
                           end
               end
        end in
      match after_msg with
      | WOk m3 =>
          match st_details st with
          | [] => WOk (hm_remove m3 hdr_grpc_status_details)
          | _ => match mk_hv (enc false (st_details st)) with
                 | None => WErr
                 | Some v => match insert_c m3 hdr_grpc_status_details v with
                             | None => WPanic
                             | Some m4 => WOk m4
                             end
                 end
          end
      | r => r
      end
  end end end.

(* Status::to_header_map (the trailers of a server stream, codec/encode.rs), after fix 08dc8d0b
   (F-C04d):
     let mut header_map = HeaderMap::try_with_capacity(3 + self.metadata.len()).unwrap_or_default();
     self.add_header(&mut header_map)?;
   The capacity hint counts VALUES; when it is more than a HeaderMap can hold the map simply
   starts empty-handed.  Either way the map has no entries, so what follows is add_header into
   the empty map.  [hint_fails] keeps the branch visible; before the fix it was a panic. *)
Definition to_header_map_c (st : status) : wres :=
  let hint_fails := with_capacity_panics (3 + nlen (st_md st)) in
  if hint_fails then add_header_c st [] (* unwrap_or_default *) else add_header_c st [].

(* Status::into_http: Response::new, insert(CONTENT_TYPE, GRPC_CONTENT_TYPE),
   self.add_header(headers).unwrap()  -  an Err of add_header is a panic here *)
Definition hdr_content_type : hname :=
  Eval vm_compute in bytes_of_string "content-type".
Definition into_http_c (st : status) : option hm :=
  match insert_c [] hdr_content_type grpc_content_type with
  | None => None
  | Some m0 => match add_header_c st m0 with WOk m => Some m | _ => None end
  end.

(* ---------------------------------------------------------------- observables *)
Definition wres_obs (r : wres) : tr :=
  match r with
  | WPanic => Nd [Nn 99]
  | WErr => Nd [Nn 0]
  | WOk m => Nd [Nn 1; hm_canon m; oopt status_obs (from_header_map m)]
  end.
(* kind roundtrip: add_header into a fresh map, read back *)
Definition obs_roundtrip_c (st : status) : tr := wres_obs (add_header_c st []).
(* kind trailers: the trailers frame EncodeBody::new_server produces for Err(st), read back *)
Definition obs_trailers (st : status) : tr := wres_obs (to_header_map_c st).
(* kind add_header: into an arbitrary existing map *)
Definition obs_add_header (st : status) (m : hm) : tr := wres_obs (add_header_c st m).
(* kind into_http *)
Definition obs_into_http (st : status) : tr :=
  match into_http_c st with
  | None => Nd [Nn 99]
  | Some m => Nd [Nn 1; hm_canon m; oopt status_obs (from_header_map m)]
  end.

(* kinds capacity.*: maps near the capacity of http::HeaderMap.  The metadata is [names]
   distinct ascending names (sorted_keys is linear on an ascending list) followed by [dups]
   further values of one more name; only the outcome and the size of the written map are
   observed. *)
(* the names are k00000, k00001, ...: a five-digit decimal counter (incremented digit by digit,
   no division, so that 24576 names cost nothing to build) *)
Fixpoint inc_digits (ds : list N) : list N * bool :=
  match ds with
  | [] => ([], true)
  | d :: r =>
      let '(r', carry) := inc_digits r in
      if carry then (if d =? 57 then (48 :: r', true) else (d + 1 :: r', false)) else (d :: r', false)
  end.
Fixpoint cap_names_from (n : nat) (ds : list N) : hm :=
  match n with O => [] | S k => (107 :: ds, [118]) :: cap_names_from k (fst (inc_digits ds)) end.
Definition cap_dup_name : hname := [120; 45; 100; 117; 112].          (* "x-dup" *)
Definition cap_md (names dups : N) : hm :=
  cap_names_from (N.to_nat names) [48; 48; 48; 48; 48] ++ repeat (cap_dup_name, [118]) (N.to_nat dups).
Definition size_obs (m : hm) : tr := Nd [Nn 1; Nn (hm_names m); Nn (nlen m)].
Definition wres_size_obs (r : wres) : tr :=
  match r with WPanic => Nd [Nn 99] | WErr => Nd [Nn 0] | WOk m => size_obs m end.
Definition cap_status (code : N) (msg details : list N) (names dups : N) : status :=
  mkStatus code msg details (cap_md names dups).
Definition obs_cap_add (code : N) (msg details : list N) (names dups : N) (pre : hm) : tr :=
  wres_size_obs (add_header_c (cap_status code msg details names dups) pre).
Definition obs_cap_trailers (code : N) (msg details : list N) (names dups : N) : tr :=
  wres_size_obs (to_header_map_c (cap_status code msg details names dups)).
Definition obs_cap_into_http (code : N) (msg details : list N) (names dups : N) : tr :=
  match into_http_c (cap_status code msg details names dups) with
  | None => Nd [Nn 99]
  | Some m => size_obs m
  end.

(* ---------------------------------------------------------------- status inference *)
(* what Streaming::message shows for an empty body with these trailers, with the reason kept
   apart: 0 = clean end (Ok(()) or Err(None)), 2 = the error status *)
Definition infer_code (trailers : option hm) (http : N) : option N :=
  match infer_grpc_status trailers http with
  | inr (Some st) => Some (st_code st)
  | _ => None
  end.
