(* Model of tonic-health's server (tonic-health/src/server.rs) together with the two library
   pieces it is made of: tokio's [sync::watch] channel and tokio-stream's [WatchStream].

   Rust                                               here
   ------------------------------------------------   -------------------------------------------
   Arc<RwLock<HashMap<String, StatusPair>>>           [svcs] : name -> channel id (assoc list) and
                                                      [chans] : every channel ever created (the
                                                      Arc<Shared> lives on while a stream holds it)
   watch::channel / Sender::send / drop(Sender)       [new_chan] / [chan_send] / [chan_close]
   Receiver::clone, Receiver {version}                [watcher] ([w_seen]; clone of the stored
                                                      receiver, whose version stays INITIAL)
   tokio_stream::wrappers::WatchStream::poll_next     [poll_ws]  (first future is already Ok)
   tokio_stream Fuse (tonic EncodedBytes.source)      [poll_fused]
   one poll of the client's Streaming: EncodedBytes   [next_client]
     polls the source until it is not ready
   HealthReporter::set_service_status                 [step _ (SetS n v)]      = SetBy n (Direct v)
   HealthReporter::set_serving::<S> / set_not_serving [step _ (SetServing NAME)] / (SetNotServing NAME)
   HealthReporter::clear_service_status               [step _ (Clear n)]
   HealthService::check / watch                       [step _ (Check n)] / [step _ (Watch n)]

   Every operation of the real service runs under the RwLock, so a history is a list of
   operations.  No proofs in this file. *)
From Coq Require Import List NArith Bool Arith.
From Verif Require Import Lib.Obs.
Import ListNotations.
Open Scope N_scope.

(* tonic_health::ServingStatus; [status_wire] is From<ServingStatus> for the pb enum, as i32 *)
Inductive status : Type := Unknown | Serving | NotServing.
Definition status_wire (s : status) : N :=
  match s with Unknown => 0 | Serving => 1 | NotServing => 2 end.

Definition name : Type := list N.          (* service name, bytes; "" = [] *)
Definition name_eqb (a b : name) : bool := list_eqb N.eqb a b.

(* ---- tokio::sync::watch ---- *)
Record chan : Type := mkChan {
  c_ver : N;            (* state.version(): number of sends so far (INITIAL = 0) *)
  c_val : status;       (* the shared value *)
  c_closed : bool;      (* CLOSED bit: the only Sender was dropped *)
  c_rx : nat            (* ref_count_rx *)
}.
Definition new_chan (v : status) : chan := mkChan 0 v false 1.
(* Sender::send: Err iff no receiver is left, else store, bump the version (always, also for an
   equal value), notify *)
Definition chan_send (v : status) (c : chan) : chan := mkChan (c_ver c + 1) v (c_closed c) (c_rx c).
(* dropping the (Sender, Receiver) pair held by the map *)
Definition chan_close (c : chan) : chan := mkChan (c_ver c) (c_val c) true (pred (c_rx c)).
Definition chan_add_rx (c : chan) : chan := mkChan (c_ver c) (c_val c) (c_closed c) (S (c_rx c)).

(* ---- the response stream of one Watch call ---- *)
Record watcher : Type := mkW {
  w_chan : nat;         (* which channel the cloned Receiver points to *)
  w_seen : N;           (* Receiver.version *)
  w_first : bool;       (* the stream still holds its initial, already completed future *)
  w_fused : bool        (* Fuse: the source has returned None *)
}.

Inductive poll : Type := PItem (v : status) | PEnd | PPending.

(* WatchStream::poll_next.  First poll: the future [async { (Ok(()), rx) }] is ready, the value
   is read with borrow_and_update.  Afterwards the future is [rx.changed()]: maybe_changed
   compares versions first and only then looks at the closed bit. *)
Definition poll_ws (c : chan) (w : watcher) : watcher * poll :=
  if w_first w then (mkW (w_chan w) (c_ver c) false (w_fused w), PItem (c_val c))
  else if negb (w_seen w =? c_ver c) then (mkW (w_chan w) (c_ver c) false (w_fused w), PItem (c_val c))
  else if c_closed c then (w, PEnd)
  else (w, PPending).

Definition poll_fused (c : chan) (w : watcher) : watcher * poll :=
  if w_fused w then (w, PEnd)
  else match poll_ws c w with
       | (w', PEnd) => (mkW (w_chan w') (w_seen w') (w_first w') true, PEnd)
       | r => r
       end.

Inductive out : Type :=
| OUnit | OPanic
| OStatus (v : status) | ONotFound
| OWatch (w : nat)
| OItem (v : status) | OEnd | OPending
| ONoWatcher
| OFuel.

(* One poll of the response stream as the caller of the RPC sees it.  The encoder
   (EncodedBytes::poll_next) keeps polling its source while it is ready and hands over the buffer
   when the source is pending or finished; the decoder on the other side yields the one message
   of that buffer.  A second ready item in the same poll would need another loop iteration:
   [OFuel] (shown unreachable in Proofs/Health.v: the second poll never has a new version). *)
Definition next_client (c : chan) (w : watcher) : watcher * out :=
  match poll_fused c w with
  | (w1, PPending) => (w1, OPending)
  | (w1, PEnd) => (w1, OEnd)
  | (w1, PItem v) =>
      match poll_fused c w1 with
      | (w2, PItem _) => (w2, OFuel)
      | (w2, _) => (w2, OItem v)
      end
  end.

(* ---- the service ---- *)
Record state : Type := mkSt {
  chans : list chan;
  svcs : list (name * nat);
  watchers : list watcher
}.

Fixpoint lookup (n : name) (m : list (name * nat)) : option nat :=
  match m with
  | [] => None
  | (k, v) :: m' => if name_eqb n k then Some v else lookup n m'
  end.
Definition remove (n : name) (m : list (name * nat)) : list (name * nat) :=
  filter (fun kv => negb (name_eqb n (fst kv))) m.
Fixpoint upd_nth {A} (i : nat) (f : A -> A) (l : list A) : list A :=
  match l, i with
  | [], _ => []
  | x :: l', O => f x :: l'
  | x :: l', S k => x :: upd_nth k f l'
  end.
Definition dchan : chan := mkChan 0 Unknown true 0.
Definition get_chan (s : state) (id : nat) : chan := nth id (chans s) dchan.

(* HealthReporter::new: the empty name is SERVING *)
Definition init : state := mkSt [new_chan Serving] [([], O)] [].

(* How a status is set.  [Direct v]: set_service_status(name, v).  [ViaServing] /
   [ViaNotServing]: set_serving::<S>() / set_not_serving::<S>(), which call
   set_service_status(<S as NamedService>::NAME, Serving / NotServing); the type parameter S is
   represented by its NAME. *)
Inductive setter : Type := Direct (v : status) | ViaServing | ViaNotServing.
Definition setter_status (k : setter) : status :=
  match k with Direct v => v | ViaServing => Serving | ViaNotServing => NotServing end.
Coercion setter_status : setter >-> status.

Inductive op : Type :=
| SetBy (n : name) (k : setter)
| Clear (n : name)
| Check (n : name)
| Watch (n : name)
| Next (w : nat).

Notation SetS n v := (SetBy n (Direct v)).
Notation SetServing n := (SetBy n ViaServing).
Notation SetNotServing n := (SetBy n ViaNotServing).

Definition step (s : state) (o : op) : state * out :=
  match o with
  | SetBy n v =>
      match lookup n (svcs s) with
      | Some id =>
          (* tx.send(status).expect("channel should not be closed") *)
          if Nat.eqb (c_rx (get_chan s id)) 0 then (s, OPanic)
          else (mkSt (upd_nth id (chan_send v) (chans s)) (svcs s) (watchers s), OUnit)
      | None =>
          (mkSt (chans s ++ [new_chan v]) ((n, length (chans s)) :: svcs s) (watchers s), OUnit)
      end
  | Clear n =>
      match lookup n (svcs s) with
      | Some id => (mkSt (upd_nth id chan_close (chans s)) (remove n (svcs s)) (watchers s), OUnit)
      | None => (s, OUnit)
      end
  | Check n =>
      match lookup n (svcs s) with
      | Some id => (s, OStatus (c_val (get_chan s id)))
      | None => (s, ONotFound)
      end
  | Watch n =>
      match lookup n (svcs s) with
      | Some id =>
          (mkSt (upd_nth id chan_add_rx (chans s)) (svcs s) (watchers s ++ [mkW id 0 true false]),
           OWatch (length (watchers s)))
      | None => (s, ONotFound)
      end
  | Next w =>
      match nth_error (watchers s) w with
      | None => (s, ONoWatcher)
      | Some wr =>
          let r := next_client (get_chan s (w_chan wr)) wr in
          (mkSt (chans s) (svcs s) (upd_nth w (fun _ => fst r) (watchers s)), snd r)
      end
  end.

Definition run (s : state) (h : list op) : state := fold_left (fun s o => fst (step s o)) h s.
Fixpoint trace (s : state) (h : list op) : list (op * out) :=
  match h with
  | [] => []
  | o :: h' => (o, snd (step s o)) :: trace (fst (step s o)) h'
  end.

(* ---- observable ---- *)
Definition out_tr (o : out) : tr :=
  match o with
  | OUnit => Nd [Nn 0]
  | OPanic => Nd [Nn 1]
  | OStatus v => Nd [Nn 2; Nn (status_wire v)]
  | ONotFound => Nd [Nn 3]
  | OWatch w => Nd [Nn 4; Nn (N.of_nat w)]
  | OItem v => Nd [Nn 5; Nn (status_wire v)]
  | OEnd => Nd [Nn 6]
  | OPending => Nd [Nn 7]
  | ONoWatcher => Nd [Nn 8]
  | OFuel => Nd [Nn 9]
  end.
Definition obs_history (h : list op) : tr := Nd (map (fun x => out_tr (snd x)) (trace init h)).

(* ---- linearizability observable (interleaving tier of the harness) ----
   A candidate (pre, a, post) is the sequential history pre ++ a :: post; its observable lists
   the outputs of pre and post (the main task, in program order) and then the output of a (the
   concurrent operation).  Stream numbers are not part of it: they depend on the order. *)
Definition lin_out_tr (o : out) : tr :=
  match o with OWatch _ => Nd [Nn 4] | _ => out_tr o end.
Definition lin_obs (c : list op * op * list op) : tr :=
  let '(pre, a, post) := c in
  let s1 := run init pre in
  let ra := step s1 a in
  Nd (map (fun x => lin_out_tr (snd x)) (trace init pre)
      ++ map (fun x => lin_out_tr (snd x)) (trace (fst ra) post)
      ++ [lin_out_tr (snd ra)]).
(* 1 iff what the implementation showed equals the model's outcome for one of the candidates *)
Definition obs_linearizable (cands : list (list op * op * list op)) (impl : tr) : tr :=
  Nn (if existsb (fun c => tr_eqb (lin_obs c) impl) cands then 1 else 0).
