(* Model of tonic-health's server (tonic-health/src/server.rs) together with the two library
   pieces it is made of: tokio's [sync::watch] channel and tokio-stream's [WatchStream].

   Rust                                               here
   ------------------------------------------------   -------------------------------------------
   Arc<RwLock<HashMap<String, StatusPair>>>           [svcs] : name -> channel id (assoc list) and
                                                      [chans] : every channel ever created (the
                                                      Arc<Shared> lives on while a stream holds it)
   watch::channel / Sender::send / drop(Sender)       [new_chan] / [chan_send] / [chan_close]
   Receiver::clone, Receiver {version}                [watcher] ([w_seen]; clone of the stored
                                                      receiver, whose version stays INITIAL)
   tokio_stream::wrappers::WatchStream::poll_next     [poll_ws]  (first future is already Ok)
   tokio_stream Fuse (tonic EncodedBytes.source)      [poll_fused]
   one poll of the client's Streaming: EncodedBytes   [next_client]
     polls the source until it is not ready
   HealthReporter::set_service_status                 [step _ (SetS n v)]      = SetBy n (Direct v)
   HealthReporter::set_serving::<S> / set_not_serving [step _ (SetServing NAME)] / (SetNotServing NAME)
   HealthReporter::clear_service_status               [step _ (Clear n)]
   HealthService::check / watch                       [step _ (Check n)] / [step _ (Watch n)]

   Every operation of the real service runs under the RwLock, so a history is a list of
   operations ([step], [run], [trace]).  The second part of the file ("concurrent executions")
   is the machine that splits a call into lock acquisition / lookup / effect / return steps
   ([cstep], [cexec]) and the linearizability search the harness evaluates on recorded concurrent
   histories ([lin_check], [obs_conc]).  No proofs in this file. *)
From Coq Require Import List NArith Bool Arith.
From Verif Require Import Lib.Obs.
Import ListNotations.
Open Scope N_scope.

(* tonic_health::ServingStatus; [status_wire] is From<ServingStatus> for the pb enum, as i32 *)
Inductive status : Type := Unknown | Serving | NotServing.
Definition status_wire (s : status) : N :=
  match s with Unknown => 0 | Serving => 1 | NotServing => 2 end.

Definition name : Type := list N.          (* service name, bytes; "" = [] *)
Definition name_eqb (a b : name) : bool := list_eqb N.eqb a b.

(* ---- tokio::sync::watch ---- *)
Record chan : Type := mkChan {
  c_ver : N;            (* state.version(): number of sends so far (INITIAL = 0) *)
  c_val : status;       (* the shared value *)
  c_closed : bool;      (* CLOSED bit: the only Sender was dropped *)
  c_rx : nat            (* ref_count_rx *)
}.
Definition new_chan (v : status) : chan := mkChan 0 v false 1.
(* Sender::send: Err iff no receiver is left, else store, bump the version (always, also for an
   equal value), notify *)
Definition chan_send (v : status) (c : chan) : chan := mkChan (c_ver c + 1) v (c_closed c) (c_rx c).
(* dropping the (Sender, Receiver) pair held by the map *)
Definition chan_close (c : chan) : chan := mkChan (c_ver c) (c_val c) true (pred (c_rx c)).
Definition chan_add_rx (c : chan) : chan := mkChan (c_ver c) (c_val c) (c_closed c) (S (c_rx c)).

(* ---- the response stream of one Watch call ---- *)
Record watcher : Type := mkW {
  w_chan : nat;         (* which channel the cloned Receiver points to *)
  w_seen : N;           (* Receiver.version *)
  w_first : bool;       (* the stream still holds its initial, already completed future *)
  w_fused : bool        (* Fuse: the source has returned None *)
}.

Inductive poll : Type := PItem (v : status) | PEnd | PPending.

(* WatchStream::poll_next.  First poll: the future [async { (Ok(()), rx) }] is ready, the value
   is read with borrow_and_update.  Afterwards the future is [rx.changed()]: maybe_changed
   compares versions first and only then looks at the closed bit. *)
Definition poll_ws (c : chan) (w : watcher) : watcher * poll :=
  if w_first w then (mkW (w_chan w) (c_ver c) false (w_fused w), PItem (c_val c))
  else if negb (w_seen w =? c_ver c) then (mkW (w_chan w) (c_ver c) false (w_fused w), PItem (c_val c))
  else if c_closed c then (w, PEnd)
  else (w, PPending).

Definition poll_fused (c : chan) (w : watcher) : watcher * poll :=
  if w_fused w then (w, PEnd)
  else match poll_ws c w with
       | (w', PEnd) => (mkW (w_chan w') (w_seen w') (w_first w') true, PEnd)
       | r => r
       end.

Inductive out : Type :=
| OUnit | OPanic
| OStatus (v : status) | ONotFound
| OWatch (w : nat)
| OItem (v : status) | OEnd | OPending
| ONoWatcher
| OFuel.

(* One poll of the response stream as the caller of the RPC sees it.  The encoder
   (EncodedBytes::poll_next) keeps polling its source while it is ready and hands over the buffer
   when the source is pending or finished; the decoder on the other side yields the one message
   of that buffer.  A second ready item in the same poll would need another loop iteration:
   [OFuel] (shown unreachable in Proofs/Health.v: the second poll never has a new version). *)
Definition next_client (c : chan) (w : watcher) : watcher * out :=
  match poll_fused c w with
  | (w1, PPending) => (w1, OPending)
  | (w1, PEnd) => (w1, OEnd)
  | (w1, PItem v) =>
      match poll_fused c w1 with
      | (w2, PItem _) => (w2, OFuel)
      | (w2, _) => (w2, OItem v)
      end
  end.

(* ---- the service ---- *)
Record state : Type := mkSt {
  chans : list chan;
  svcs : list (name * nat);
  watchers : list watcher
}.

Fixpoint lookup (n : name) (m : list (name * nat)) : option nat :=
  match m with
  | [] => None
  | (k, v) :: m' => if name_eqb n k then Some v else lookup n m'
  end.
Definition remove (n : name) (m : list (name * nat)) : list (name * nat) :=
  filter (fun kv => negb (name_eqb n (fst kv))) m.
Fixpoint upd_nth {A} (i : nat) (f : A -> A) (l : list A) : list A :=
  match l, i with
  | [], _ => []
  | x :: l', O => f x :: l'
  | x :: l', S k => x :: upd_nth k f l'
  end.
Definition dchan : chan := mkChan 0 Unknown true 0.
Definition get_chan (s : state) (id : nat) : chan := nth id (chans s) dchan.

(* HealthReporter::new: the empty name is SERVING *)
Definition init : state := mkSt [new_chan Serving] [([], O)] [].

(* How a status is set.  [Direct v]: set_service_status(name, v).  [ViaServing] /
   [ViaNotServing]: set_serving::<S>() / set_not_serving::<S>(), which call
   set_service_status(<S as NamedService>::NAME, Serving / NotServing); the type parameter S is
   represented by its NAME. *)
Inductive setter : Type := Direct (v : status) | ViaServing | ViaNotServing.
Definition setter_status (k : setter) : status :=
  match k with Direct v => v | ViaServing => Serving | ViaNotServing => NotServing end.
Coercion setter_status : setter >-> status.

Inductive op : Type :=
| SetBy (n : name) (k : setter)
| Clear (n : name)
| Check (n : name)
| Watch (n : name)
| Next (w : nat).

Notation SetS n v := (SetBy n (Direct v)).
Notation SetServing n := (SetBy n ViaServing).
Notation SetNotServing n := (SetBy n ViaNotServing).

Definition step (s : state) (o : op) : state * out :=
  match o with
  | SetBy n v =>
      match lookup n (svcs s) with
      | Some id =>
          (* tx.send(status).expect("channel should not be closed") *)
          if Nat.eqb (c_rx (get_chan s id)) 0 then (s, OPanic)
          else (mkSt (upd_nth id (chan_send v) (chans s)) (svcs s) (watchers s), OUnit)
      | None =>
          (mkSt (chans s ++ [new_chan v]) ((n, length (chans s)) :: svcs s) (watchers s), OUnit)
      end
  | Clear n =>
      match lookup n (svcs s) with
      | Some id => (mkSt (upd_nth id chan_close (chans s)) (remove n (svcs s)) (watchers s), OUnit)
      | None => (s, OUnit)
      end
  | Check n =>
      match lookup n (svcs s) with
      | Some id => (s, OStatus (c_val (get_chan s id)))
      | None => (s, ONotFound)
      end
  | Watch n =>
      match lookup n (svcs s) with
      | Some id =>
          (mkSt (upd_nth id chan_add_rx (chans s)) (svcs s) (watchers s ++ [mkW id 0 true false]),
           OWatch (length (watchers s)))
      | None => (s, ONotFound)
      end
  | Next w =>
      match nth_error (watchers s) w with
      | None => (s, ONoWatcher)
      | Some wr =>
          let r := next_client (get_chan s (w_chan wr)) wr in
          (mkSt (chans s) (svcs s) (upd_nth w (fun _ => fst r) (watchers s)), snd r)
      end
  end.

Definition run (s : state) (h : list op) : state := fold_left (fun s o => fst (step s o)) h s.
Fixpoint trace (s : state) (h : list op) : list (op * out) :=
  match h with
  | [] => []
  | o :: h' => (o, snd (step s o)) :: trace (fst (step s o)) h'
  end.

(* ---- observable ---- *)
Definition out_tr (o : out) : tr :=
  match o with
  | OUnit => Nd [Nn 0]
  | OPanic => Nd [Nn 1]
  | OStatus v => Nd [Nn 2; Nn (status_wire v)]
  | ONotFound => Nd [Nn 3]
  | OWatch w => Nd [Nn 4; Nn (N.of_nat w)]
  | OItem v => Nd [Nn 5; Nn (status_wire v)]
  | OEnd => Nd [Nn 6]
  | OPending => Nd [Nn 7]
  | ONoWatcher => Nd [Nn 8]
  | OFuel => Nd [Nn 9]
  end.
Definition obs_history (h : list op) : tr := Nd (map (fun x => out_tr (snd x)) (trace init h)).

(* ================================================================== concurrent executions
   The sequential model above treats an operation as one step.  The machine below splits every
   operation of the real service into the steps between which another task can run, with the
   tokio RwLock as the only synchronisation, exactly as in server.rs:

     set_service_status / clear_service_status      check (service_health) / watch
     -------------------------------------------    ------------------------------------------
     EInv   the call starts                          EInv
     EAcq   self.statuses.write().await  returns     EAcq  self.statuses.read().await returns
            (enabled iff nobody holds a guard)             (enabled iff no WRITE guard is held)
     ELook  writer.get(name) / the lookup of remove  ELook reader.get(name)
     EAct   tx.send / insert / remove (drops the     EAct  *p.1.borrow() / rx.clone(); the guard
            Sender); the guard is dropped                  is dropped (for watch it lives to the
                                                           end of the match)
     ERet   the call returns                         ERet
     one poll of a response stream takes no lock:  EInv, EPoll (the poll, atomic on the stream's
     watch channel), ERet.

   Any number of tasks ([nat]), any interleaving of their steps ([list event]).  [g_clock] counts
   the steps (real time); [g_hist] records every completed call with the time of its invocation
   and of its return - that record is all the harness can see of a concurrent run.
   In a concurrent history stream numbers cannot be used (they depend on the order in which the
   Watch calls take effect): [Next k] there means "the stream opened by the Watch call that was
   invoked at time k"; [g_slots] / [slot_lookup] translate.  No proofs in this file. *)
Definition op_name (o : op) : name :=
  match o with SetBy n _ | Clear n | Check n | Watch n => n | Next _ => [] end.
Definition is_locked (o : op) : bool := match o with Next _ => false | _ => true end.
Definition is_write (o : op) : bool := match o with SetBy _ _ | Clear _ => true | _ => false end.

(* what an operation does under its guard once the map lookup has answered [r]
   (same branches as [step], with the lookup taken out) *)
Definition locked_act (s : state) (o : op) (r : option nat) : state * out :=
  match o with
  | SetBy n v =>
      match r with
      | Some id =>
          if Nat.eqb (c_rx (get_chan s id)) 0 then (s, OPanic)
          else (mkSt (upd_nth id (chan_send v) (chans s)) (svcs s) (watchers s), OUnit)
      | None =>
          (mkSt (chans s ++ [new_chan v]) ((n, length (chans s)) :: svcs s) (watchers s), OUnit)
      end
  | Clear n =>
      match r with
      | Some id => (mkSt (upd_nth id chan_close (chans s)) (remove n (svcs s)) (watchers s), OUnit)
      | None => (s, OUnit)
      end
  | Check n =>
      match r with
      | Some id => (s, OStatus (c_val (get_chan s id)))
      | None => (s, ONotFound)
      end
  | Watch n =>
      match r with
      | Some id =>
          (mkSt (upd_nth id chan_add_rx (chans s)) (svcs s) (watchers s ++ [mkW id 0 true false]),
           OWatch (length (watchers s)))
      | None => (s, ONotFound)
      end
  | Next w => step s (Next w)
  end.

Definition slots : Type := list (nat * nat).     (* invocation time of a Watch -> stream number *)
Fixpoint slot_lookup (k : nat) (m : slots) : option nat :=
  match m with
  | [] => None
  | (a, w) :: m' => if Nat.eqb k a then Some w else slot_lookup k m'
  end.
Definition bind_slot (i : nat) (x : out) (sm : slots) : slots :=
  match x with OWatch w => (i, w) :: sm | _ => sm end.

(* the sequential meaning of one operation (invoked at time [i]) of a concurrent history *)
Definition apply_cop (s : state) (sm : slots) (i : nat) (o : op) : state * slots * out :=
  match o with
  | Next k =>
      match slot_lookup k sm with
      | Some w => (fst (step s (Next w)), sm, snd (step s (Next w)))
      | None => (s, sm, ONoWatcher)
      end
  | _ => (fst (step s o), bind_slot i (snd (step s o)) sm, snd (step s o))
  end.

(* one completed call: invoked at [co_inv], returned [co_out] at [co_ret] *)
Record cop : Type := mkCop { co_inv : nat; co_ret : nat; co_op : op; co_out : out }.

Inductive phase : Type :=
| PIdle
| PWait (i : nat) (o : op)                      (* invoked at i; waiting for the lock / about to poll *)
| PHeld (i : nat) (o : op)                      (* holds its guard *)
| PLooked (i : nat) (o : op) (r : option nat)   (* holds its guard, the map lookup answered r *)
| PDone (i : nat) (o : op) (x : out).           (* has taken effect, guard dropped, not yet returned *)
(* the guard a task holds: Some true = RwLockWriteGuard, Some false = RwLockReadGuard *)
Definition holds (p : phase) : option bool :=
  match p with PHeld _ o | PLooked _ o _ => Some (is_write o) | _ => None end.

Record cfg : Type := mkCfg {
  g_st : state; g_slots : slots; g_th : nat -> phase; g_clock : nat; g_hist : list cop }.
Definition set_th (th : nat -> phase) (t : nat) (p : phase) : nat -> phase :=
  fun t' => if Nat.eqb t' t then p else th t'.
Definition cinit : cfg := mkCfg init [] (fun _ => PIdle) 0 [].

Inductive event : Type :=
| EInv (t : nat) (o : op) | EAcq (t : nat) | ELook (t : nat) | EAct (t : nat) | EPoll (t : nat) | ERet (t : nat).

(* tokio RwLock: a write guard excludes every other guard, read guards are shared *)
Definition may_acquire (th : nat -> phase) (o : op) : Prop :=
  forall t', match holds (th t') with
             | None => True
             | Some w => w = false /\ is_write o = false
             end.

Inductive cstep : cfg -> event -> cfg -> Prop :=
| cs_inv : forall c t o, g_th c t = PIdle ->
    cstep c (EInv t o)
      (mkCfg (g_st c) (g_slots c) (set_th (g_th c) t (PWait (g_clock c) o)) (S (g_clock c)) (g_hist c))
| cs_acq : forall c t i o, g_th c t = PWait i o -> is_locked o = true -> may_acquire (g_th c) o ->
    cstep c (EAcq t)
      (mkCfg (g_st c) (g_slots c) (set_th (g_th c) t (PHeld i o)) (S (g_clock c)) (g_hist c))
| cs_look : forall c t i o, g_th c t = PHeld i o ->
    cstep c (ELook t)
      (mkCfg (g_st c) (g_slots c)
             (set_th (g_th c) t (PLooked i o (lookup (op_name o) (svcs (g_st c)))))
             (S (g_clock c)) (g_hist c))
| cs_act : forall c t i o r, g_th c t = PLooked i o r ->
    cstep c (EAct t)
      (mkCfg (fst (locked_act (g_st c) o r)) (bind_slot i (snd (locked_act (g_st c) o r)) (g_slots c))
             (set_th (g_th c) t (PDone i o (snd (locked_act (g_st c) o r))))
             (S (g_clock c)) (g_hist c))
| cs_poll : forall c t i k, g_th c t = PWait i (Next k) ->
    cstep c (EPoll t)
      (mkCfg (fst (fst (apply_cop (g_st c) (g_slots c) i (Next k)))) (g_slots c)
             (set_th (g_th c) t (PDone i (Next k) (snd (apply_cop (g_st c) (g_slots c) i (Next k)))))
             (S (g_clock c)) (g_hist c))
| cs_ret : forall c t i o x, g_th c t = PDone i o x ->
    cstep c (ERet t)
      (mkCfg (g_st c) (g_slots c) (set_th (g_th c) t PIdle) (S (g_clock c))
             (g_hist c ++ [mkCop i (g_clock c) o x])).

(* an execution: any schedule of steps of any tasks *)
Inductive cexec : cfg -> list event -> cfg -> Prop :=
| ce_nil : forall c, cexec c [] c
| ce_snoc : forall c e c1 ev c2, cexec c e c1 -> cstep c1 ev c2 -> cexec c (e ++ [ev]) c2.

(* ---- the linearizability check the harness evaluates on a recorded concurrent history ----
   Search for an order of the calls that (a) respects real time - a call that returned before
   another one was invoked comes first - and (b) in which every call returns what the
   sequential model returns.  Stream numbers are not compared ([out_abs]). *)
Definition out_abs (x : out) : out := match x with OWatch _ => OWatch 0 | _ => x end.
Definition status_eqb (a b : status) : bool := N.eqb (status_wire a) (status_wire b).
Definition out_eqb (a b : out) : bool :=
  match a, b with
  | OUnit, OUnit | OPanic, OPanic | ONotFound, ONotFound | OEnd, OEnd | OPending, OPending
  | ONoWatcher, ONoWatcher | OFuel, OFuel => true
  | OStatus v, OStatus u | OItem v, OItem u => status_eqb v u
  | OWatch v, OWatch u => Nat.eqb v u
  | _, _ => false
  end.
Definition minimal (c : cop) (rem : list cop) : bool :=
  forallb (fun c' => negb (Nat.ltb (co_ret c') (co_inv c))) rem.
Fixpoint remove_nth {A} (i : nat) (l : list A) : list A :=
  match l, i with
  | [], _ => []
  | _ :: l', O => l'
  | x :: l', S k => x :: remove_nth k l'
  end.
(* [vm_compute] is call-by-value: [&&], [||] and [existsb] would evaluate every branch of the
   search; [if] and [first_true] stop at the first order that fits *)
Fixpoint first_true (f : nat -> bool) (l : list nat) : bool :=
  match l with
  | [] => false
  | i :: l' => if f i then true else first_true f l'
  end.
Fixpoint lin_search (fuel : nat) (s : state) (sm : slots) (rem : list cop) : bool :=
  match rem with
  | [] => true
  | _ :: _ =>
      match fuel with
      | O => false
      | S f =>
          first_true (fun i =>
            match nth_error rem i with
            | None => false
            | Some c =>
                if minimal c rem then
                  let r := apply_cop s sm (co_inv c) (co_op c) in
                  if out_eqb (out_abs (snd r)) (out_abs (co_out c))
                  then lin_search f (fst (fst r)) (snd (fst r)) (remove_nth i rem)
                  else false
                else false
            end) (seq 0 (length rem))
      end
  end.
Definition lin_check (h : list cop) : bool := lin_search (length h) init [] h.
Definition obs_conc (h : list cop) : tr := Nn (if lin_check h then 1 else 0).
