(* Model of tonic/src/transport/channel/service/reconnect.rs (Reconnect::{new, poll_ready, call}),
   of how it is driven (tower::buffer::Worker for a Channel, ServiceExt::ready_oneshot for an eager
   Channel::connect) and of how its errors reach the caller (Status::from_error /
   find_status_in_source_chain in tonic/src/status.rs).

   State fields and branch order are those of the Rust source.  What is NOT tonic is a parameter of
   the section: hyper's SendRequest (poll_ready / send_request).  Its assumed behaviour is stated
   as hypotheses in Proofs/Reconnect.v and instantiated with [real_*] below for evaluation.  The
   connector (a tower Service<Uri>) is part of the environment [world]: its poll_ready answers
   Pending [w_prl] times per cycle and then Ready, and it ENFORCES the tower Service protocol - a
   `call` that is not preceded by a Ready poll_ready since the previous `call` is a contract
   violation (tower::limit::ConcurrencyLimit and friends panic there).  The tower Buffer worker contract (a request is served by polling
   poll_ready until it is Ready, then call exactly once; a Pending service wakes its task) and the
   scripted connect future (resolves after [lat] Pending polls with the answer the environment had
   when the connector was invoked) are explicit in [serve] and [make_service]. *)
From Coq Require Import List NArith Bool.
From Verif Require Import Lib.Obs Gen.StatusTables Model.Status.
Import ListNotations.
Open Scope N_scope.

(* ---------------------------------------------------------------- std / tower vocabulary *)
Inductive poll (A : Type) : Type := Pending | Ready (a : A).
Arguments Pending {A}.
Arguments Ready {A} a.
Inductive result (A E : Type) : Type := Ok (a : A) | Err (e : E).
Arguments Ok {A E} a.
Arguments Err {A E} e.

(* the error a connect future (MakeSendRequestService::call) resolves to: which invocation of the
   connector produced it, the reason the environment gave, and where it arose:
   [Refused]   the connector itself failed: tonic::ConnectError wrapping the connector's io::Error;
   [Handshake] the connector returned an io, but hyper's `builder.handshake(io).await` failed
               (connection.rs): the hyper::Error, wrapped in tonic::ConnectError as well (fix
               4d59edca; before it the bare hyper::Error reached the caller as UNKNOWN);
   [NotReady]  the connector's poll_ready itself returned Err (Connector::poll_ready wraps it in
               ConnectError too): not a failed attempt - the connector was never called *)
Inductive ekind := Refused | Handshake | NotReady.
Record cerr := mkErr { e_attempt : N; e_reason : N; e_kind : ekind }.

(* What lies beneath the ConnectError.  The reason the environment gives for a failure also fixes
   the SHAPE of the underlying error (the scripted connector / io decodes it the same way):
   [c_kind]  0..19 = a std::io::Error of that io::ErrorKind (NotFound, PermissionDenied,
             ConnectionRefused, ConnectionReset, ConnectionAborted, NotConnected, AddrInUse,
             AddrNotAvailable, BrokenPipe, AlreadyExists, WouldBlock, InvalidInput, InvalidData,
             TimedOut, WriteZero, Interrupted, Unsupported, UnexpectedEof, OutOfMemory, Other),
             20 = a custom error type, 21 = a boxed String, 22.. = io::ErrorKind::Other;
   [c_depth] 0..2 = number of wrapper errors (with source()) between the ConnectError and it.
   Every reason is possible, so the theorems quantify over every kind and depth. *)
Record cause := mkCause { c_kind : N; c_depth : nat }.
Definition cause_of_reason (r : N) : cause := mkCause (r mod 32) (N.to_nat ((r / 32) mod 3)).

(* ---------------------------------------------------------------- environment *)
Inductive reach :=
| Up
| Down (reason : N)
| UpDead (reason : N)   (* the transport connects, but the io fails ([reason] fixes the io error)
                           / the peer closes at once: the HTTP/2 handshake fails *)
| UpGarbage.    (* the transport connects, the handshake (write-only in hyper) passes, the peer
                   answers with bytes that are not HTTP/2 and closes *)
Inductive ev :=
| ConnectFails (reason : N)      (* from now on the connector's attempts are refused with [reason] *)
| ConnectSucceeds                (* from now on the connector's attempts succeed *)
| ConnectSucceedsDead (reason : N)   (* from now on the connector succeeds but the handshake fails *)
| ConnectSucceedsGarbage         (* from now on the connector succeeds but the peer is not HTTP/2 *)
| ConnectionDropped.             (* the peer drops the established connection (if any); noticed by
                                    the client's connection task before the next step: quiescence *)
Inductive step :=
| Env (e : ev)
| EnvRacyDrop (noticed : bool)   (* OUTSIDE the property's quantifier: the peer drops the connection and
                                    the next step happens at once; [noticed] = the runtime ran the
                                    client's connection task first (then it is ConnectionDropped) *)
| Calls (k : nat).               (* k calls issued together at a quiescent point: all k requests
                                    are queued in the tower Buffer before its worker runs, the worker
                                    serves them in order; then everything runs to completion *)
Notation Call := (Calls 1).      (* one call issued on the channel, run to completion *)

(* the world the connector lives in: reachability, the connector's latency in Pending polls, the
   number of times the connector has been invoked (`call`ed), and the connector's readiness
   protocol: [w_ready] = poll_ready has returned Ready since the last call (ghost flag of a strict
   connector), [w_pr_left] = Pending answers poll_ready still gives in this cycle, [w_prl] = the
   number it is reset to after every call *)
Record world := mkWorld { w_net : reach; w_lat : nat; w_attempts : N;
                          w_ready : bool; w_pr_left : nat; w_prl : nat;
                          (* OBSERVATION runs only (audit2 N-C14-2): Some (g, r) = after g more
                             successful cycles the connector's poll_ready answers Err; None = a
                             sound connector, the only kind the property theorems speak about *)
                          w_break : option (nat * N) }.
Definition init_world (net : reach) (lat prl : nat) : world := mkWorld net lat 0 false prl prl None.
Definition init_world_breaking (net : reach) (lat prl : nat) (good : nat) (r : N) : world :=
  mkWorld net lat 0 false prl prl (Some (good, r)).

(* hyper connection as seen through SendRequest *)
Inductive conn :=
| Alive
| Severed      (* peer gone (or answering garbage), the client's connection task has not run yet *)
| Closed.      (* connection task finished: SendRequest::is_closed() *)

(* the boxed connect future (MakeSendRequestService::call): [Fut d r] answers Pending d times, then
   Ready r; a boxed async block polled after completion panics *)
Inductive cfut := Fut (d : nat) (r : result conn cerr) | FutDone.
Definition poll_fut (f : cfut) : option (cfut * poll (result conn cerr)) :=
  match f with
  | FutDone => None
  | Fut (S d) r => Some (Fut d r, Pending)
  | Fut O r => Some (FutDone, Ready r)
  end.

(* ---------------------------------------------------------------- Reconnect *)
Inductive cstate := Idle | Connecting (f : cfut) | Connected (c : conn).

Record reconnect := mkRc {
  rc_state : cstate;
  rc_error : option cerr;          (* error: Option<BoxError> *)
  rc_hbc : bool;                   (* has_been_connected *)
  rc_lazy : bool;                  (* is_lazy *)
  rc_i2c : N                       (* ghost: number of Idle -> Connecting transitions taken *)
}.
Definition set_state rc s := mkRc s (rc_error rc) (rc_hbc rc) (rc_lazy rc) (rc_i2c rc).
Definition set_error rc e := mkRc (rc_state rc) e (rc_hbc rc) (rc_lazy rc) (rc_i2c rc).
Definition set_hbc rc b := mkRc (rc_state rc) (rc_error rc) b (rc_lazy rc) (rc_i2c rc).
Definition note_i2c rc := mkRc (rc_state rc) (rc_error rc) (rc_hbc rc) (rc_lazy rc) (rc_i2c rc + 1).

(* Reconnect::new *)
Definition new_reconnect (is_lazy : bool) : reconnect := mkRc Idle None false is_lazy 0.

(* MakeSendRequestService::poll_ready -> Connector::poll_ready -> the user's connector *)
Definition mk_poll_ready (w : world) : world * poll (result unit cerr) :=
  match w_pr_left w with
  | S p => (mkWorld (w_net w) (w_lat w) (w_attempts w) (w_ready w) p (w_prl w) (w_break w), Pending)
  | O =>
      match w_break w with
      | Some (O, r) => (w, Ready (Err (mkErr 0 r NotReady)))
      | _ => (mkWorld (w_net w) (w_lat w) (w_attempts w) true O (w_prl w) (w_break w), Ready (Ok tt))
      end
  end.

(* MakeSendRequestService::call -> Connector::call -> the user's connector: counts the invocation
   and snapshots the environment's answer.  None: called without a Ready poll_ready since the
   last call - the tower Service contract is broken (a strict connector panics) *)
Definition make_service (w : world) : option (world * cfut) :=
  if w_ready w then
    let k := w_attempts w + 1 in
    Some (mkWorld (w_net w) (w_lat w) k false (w_prl w) (w_prl w)
                  (match w_break w with Some (S g, r) => Some (g, r) | b => b end),
          Fut (w_lat w) (match w_net w with
                         | Up => Ok Alive
                         | Down r => Err (mkErr k r Refused)
                         | UpDead r => Err (mkErr k r Handshake)
                         | UpGarbage => Ok Severed
                         end))
  else None.

Inductive pr :=                    (* result of one Reconnect::poll_ready *)
| PrPending
| PrReadyOk
| PrReadyErr (e : cerr)
| PrPanic                          (* a completed connect future was polled again *)
| PrMisuse                         (* the connector was called without having been polled ready *)
| PrSpin.                          (* the `loop` did not return within the fuel *)

Inductive send_result := SrResponse | SrCanceled.

Section Stack.
  (* hyper::client::conn::http2::SendRequest::poll_ready *)
  Variable conn_poll_ready : conn -> poll (result unit unit).
  (* SendRequest::send_request(..).await on a connection in the given condition *)
  Variable send_request : conn -> send_result.

  (* the `loop` of Reconnect::poll_ready; one unit of fuel per iteration *)
  Fixpoint pr_loop (fuel : nat) (rc : reconnect) (w : world) {struct fuel} : reconnect * world * pr :=
    match fuel with
    | O => (rc, w, PrSpin)
    | S fuel' =>
      match rc_state rc with
      | Idle =>
          match mk_poll_ready w with
          | (w1, Ready (Ok _)) =>
              match make_service w1 with
              | Some (w', fut) =>
                  (* self.state = State::Connecting(fut); continue *)
                  pr_loop fuel' (note_i2c (set_state rc (Connecting fut))) w'
              | None => (rc, w1, PrMisuse)
              end
          | (w1, Ready (Err e)) => (rc, w1, PrReadyErr e)          (* r? *)
          | (w1, Pending) => (rc, w1, PrPending)
          end
      | Connecting f =>
          match poll_fut f with
          | None => (rc, w, PrPanic)
          | Some (f', Ready (Ok c)) =>
              (* state = Connected(service); self.state = state; loop again *)
              pr_loop fuel' (set_state rc (Connected c)) w
          | Some (f', Pending) => (set_state rc (Connecting f'), w, PrPending)
          | Some (f', Ready (Err e)) =>
              if negb (rc_hbc rc || rc_lazy rc)
              then (* return Ready(Err(e)) BEFORE `self.state = state`: the state keeps the finished future *)
                   (set_state rc (Connecting f'), w, PrReadyErr e)
              else (* self.error = Some(e); break; self.state = Idle; Ready(Ok) *)
                   (set_state (set_error rc (Some e)) Idle, w, PrReadyOk)
          end
      | Connected c =>
          let rc1 := set_hbc rc true in
          match conn_poll_ready c with
          | Ready (Ok _) => (rc1, w, PrReadyOk)
          | Pending => (rc1, w, PrPending)
          | Ready (Err _) => pr_loop fuel' (set_state rc1 Idle) w
          end
      end
    end.

  (* Reconnect::poll_ready *)
  Definition poll_ready (fuel : nat) (rc : reconnect) (w : world) : reconnect * world * pr :=
    match rc_error rc with
    | Some _ => (rc, w, PrReadyOk)
    | None => pr_loop fuel rc w
    end.

  (* Reconnect::call *)
  Inductive call_out := CoErr (e : cerr) | CoSent (c : conn) | CoPanic.
  Definition call (rc : reconnect) : reconnect * call_out :=
    match rc_error rc with
    | Some e => (set_error rc None, CoErr e)                 (* self.error.take() *)
    | None =>
        match rc_state rc with
        | Connected c => (rc, CoSent c)
        | _ => (rc, CoPanic)                                 (* panic!("service not ready; ...") *)
        end
    end.

  (* ------------------------------------------------------------ the Channel: Buffer worker *)
  Record chan := mkChan { ch_rc : reconnect; ch_failed : option cerr }.

  Inductive outcome :=
  | Response
  | ConnectErr (e : cerr)          (* ResponseFuture::error(ConnectError) *)
  | Canceled                       (* hyper: "operation was canceled" *)
  | ServiceFailed (e : cerr)       (* the Buffer worker failed on this request (ServiceError) *)
  | WorkerClosed                   (* ... and stays failed: every later call is refused by
                                      Buffer::poll_ready; generated clients report
                                      Status::unknown("Service was not ready: ..") *)
  | Panic
  | ConnectorMisuse                (* the connector's `call` without a Ready poll_ready (it panics) *)
  | OutOfFuel.                     (* hang *)

  (* reaching a quiescent point: the client's connection task has run, a dead connection is closed *)
  Definition settle_conn (c : conn) : conn := match c with Alive => Alive | _ => Closed end.
  Definition settle_rc (rc : reconnect) : reconnect :=
    match rc_state rc with Connected c => set_state rc (Connected (settle_conn c)) | _ => rc end.
  Definition sent_outcome (c : conn) : outcome :=
    match send_request c with SrResponse => Response | SrCanceled => Canceled end.

  (* tower::buffer::Worker::poll for one request *)
  Fixpoint serve (fuel : nat) (ch : chan) (w : world) {struct fuel} : chan * world * outcome :=
    match ch_failed ch with
    | Some e => (ch, w, WorkerClosed)
    | None =>
      match fuel with
      | O => (ch, w, OutOfFuel)
      | S fuel' =>
        match poll_ready fuel (ch_rc ch) w with
        | (rc, w', PrPending) => serve fuel' (mkChan rc None) w'     (* current_message kept; woken *)
        | (rc, w', PrReadyOk) =>
            match call rc with
            | (rc', CoErr e) => (mkChan rc' None, w', ConnectErr e)
            | (rc', CoSent c) => (mkChan rc' None, w', sent_outcome c)
            | (rc', CoPanic) => (mkChan rc' None, w', Panic)
            end
        | (rc, w', PrReadyErr e) => (mkChan rc (Some e), w', ServiceFailed e)   (* Worker::failed *)
        | (rc, w', PrPanic) => (mkChan rc None, w', Panic)
        | (rc, w', PrMisuse) => (mkChan rc None, w', ConnectorMisuse)
        | (rc, w', PrSpin) => (mkChan rc None, w', OutOfFuel)
        end
      end
    end.

  (* ------------------------------------------------------------ poll_ready more than once *)
  (* The tower Service contract allows poll_ready to be called any number of times before `call`.
     The plain Buffer worker never does, tower's p2c Balance (Channel::balance_list /
     balance_channel: Balance in front of one lazy Reconnect per endpoint, behind the same Buffer
     worker) does: an endpoint is polled until Ready (ReadyCache::poll_pending), and the chosen one
     is polled AGAIN right before dispatch (ReadyCache::check_ready_index).
     [ready_n n]: n further calls of poll_ready; stops at the first answer that is not Ready(Ok) *)
  Fixpoint ready_n (fuel n : nat) (rc : reconnect) (w : world) {struct n} : reconnect * world * pr :=
    match n with
    | O => (rc, w, PrReadyOk)
    | S n' =>
        match poll_ready fuel rc w with
        | (rc', w', PrReadyOk) => ready_n fuel n' rc' w'
        | r => r
        end
    end.

  (* Buffer worker + Balance over ONE endpoint, for one request: the endpoint is polled until
     Ready, [n] more times (Balance: n = 1), then called.  An endpoint that is Pending on a
     re-poll goes back to the pending set (polled until Ready again); one whose poll_ready FAILS is
     evicted (Balance logs it and has no endpoint left: it stays Pending, the request is never
     answered = OutOfFuel) *)
  Fixpoint serve_again (n : nat) (fuel : nat) (ch : chan) (w : world) {struct fuel} : chan * world * outcome :=
    match ch_failed ch with
    | Some e => (ch, w, WorkerClosed)
    | None =>
      match fuel with
      | O => (ch, w, OutOfFuel)
      | S fuel' =>
        match poll_ready fuel (ch_rc ch) w with
        | (rc, w', PrPending) => serve_again n fuel' (mkChan rc None) w'
        | (rc, w', PrReadyOk) =>
            match ready_n fuel n rc w' with
            | (rc2, w2, PrReadyOk) =>
                match call rc2 with
                | (rc', CoErr e) => (mkChan rc' None, w2, ConnectErr e)
                | (rc', CoSent c) => (mkChan rc' None, w2, sent_outcome c)
                | (rc', CoPanic) => (mkChan rc' None, w2, Panic)
                end
            | (rc2, w2, PrPending) => serve_again n fuel' (mkChan rc2 None) w2
            | (rc2, w2, PrReadyErr e) => (mkChan rc2 None, w2, OutOfFuel)
            | (rc2, w2, PrPanic) => (mkChan rc2 None, w2, Panic)
            | (rc2, w2, PrMisuse) => (mkChan rc2 None, w2, ConnectorMisuse)
            | (rc2, w2, PrSpin) => (mkChan rc2 None, w2, OutOfFuel)
            end
        | (rc, w', PrReadyErr e) => (mkChan rc None, w', OutOfFuel)
        | (rc, w', PrPanic) => (mkChan rc None, w', Panic)
        | (rc, w', PrMisuse) => (mkChan rc None, w', ConnectorMisuse)
        | (rc, w', PrSpin) => (mkChan rc None, w', OutOfFuel)
        end
      end
    end.

  (* ------------------------------------------------------------ building the channel *)
  Inductive ready_out := RoOk | RoErr (e : cerr) | RoPanic | RoMisuse | RoHang.
  (* ServiceExt::ready_oneshot on the fresh Connection (Connection::connect) *)
  Fixpoint ready_oneshot (fuel : nat) (rc : reconnect) (w : world) {struct fuel} : reconnect * world * ready_out :=
    match fuel with
    | O => (rc, w, RoHang)
    | S fuel' =>
      match poll_ready fuel rc w with
      | (rc', w', PrPending) => ready_oneshot fuel' rc' w'
      | (rc', w', PrReadyOk) => (rc', w', RoOk)
      | (rc', w', PrReadyErr e) => (rc', w', RoErr e)
      | (rc', w', PrPanic) => (rc', w', RoPanic)
      | (rc', w', PrMisuse) => (rc', w', RoMisuse)
      | (rc', w', PrSpin) => (rc', w', RoHang)
      end
    end.

  (* Channel::new (lazy) / Channel::connect (eager): None = no channel is returned *)
  Definition build (is_lazy : bool) (fuel : nat) (w : world) : option chan * world * option ready_out :=
    if is_lazy then (Some (mkChan (new_reconnect true) None), w, None)
    else match ready_oneshot fuel (new_reconnect false) w with
         | (rc, w', RoOk) => (Some (mkChan (settle_rc rc) None), w', Some RoOk)
         | (_, w', o) => (None, w', Some o)
         end.

  (* ------------------------------------------------------------ histories *)
  Definition set_net (w : world) (n : reach) : world :=
    mkWorld n (w_lat w) (w_attempts w) (w_ready w) (w_pr_left w) (w_prl w) (w_break w).
  Definition drop_conn (to : conn) (ch : chan) : chan :=
    match rc_state (ch_rc ch) with
    | Connected Alive => mkChan (set_state (ch_rc ch) (Connected to)) (ch_failed ch)
    | Connected Severed => mkChan (set_state (ch_rc ch) (Connected to)) (ch_failed ch)
    | _ => ch
    end.
  Definition apply_ev (e : ev) (ch : chan) (w : world) : chan * world :=
    match e with
    | ConnectFails r => (ch, set_net w (Down r))
    | ConnectSucceeds => (ch, set_net w Up)
    | ConnectSucceedsDead r => (ch, set_net w (UpDead r))
    | ConnectSucceedsGarbage => (ch, set_net w UpGarbage)
    | ConnectionDropped => (drop_conn Closed ch, w)
    end.

  (* one record per call: connector invocations before, the outcome, invocations after *)
  Definition call_rec : Type := N * outcome * N.

  (* the worker serves the k queued requests one after the other in ONE poll: no quiescent point
     in between (a connection that is dying stays usable-looking for all of them) *)
  Fixpoint serve_batch (fuel : nat) (k : nat) (ch : chan) (w : world) {struct k}
    : list call_rec * chan * world :=
    match k with
    | O => ([], ch, w)
    | S k' =>
        let '(ch', w', o) := serve fuel ch w in
        match o with
        | ServiceFailed e =>
            (* Worker::failed closes the queue; the requests ALREADY queued are drained with a
               clone of the same ServiceError (only requests issued later fail in
               Buffer::poll_ready, "Service was not ready") *)
            ((w_attempts w, o, w_attempts w') ::
             repeat (w_attempts w', ServiceFailed e, w_attempts w') k', ch', w')
        | _ =>
            let '(rs, ch'', w'') := serve_batch fuel k' ch' w' in
            ((w_attempts w, o, w_attempts w') :: rs, ch'', w'')
        end
    end.
  Definition settle (ch : chan) : chan := mkChan (settle_rc (ch_rc ch)) (ch_failed ch).

  Fixpoint run_steps (fuel : nat) (h : list step) (ch : chan) (w : world) {struct h}
    : list call_rec * chan * world :=
    match h with
    | [] => ([], ch, w)
    | Env e :: h' => let '(ch', w') := apply_ev e ch w in run_steps fuel h' ch' w'
    | EnvRacyDrop n :: h' => run_steps fuel h' (drop_conn (if n then Closed else Severed) ch) w
    | Calls k :: h' =>
        let '(rs1, ch', w') := serve_batch fuel k ch w in
        let '(rs2, ch'', w'') := run_steps fuel h' (settle ch') w' in
        (rs1 ++ rs2, ch'', w'')
    end.

  (* the same history on a balanced channel with one endpoint (requests are served one by one) *)
  Fixpoint serve_batch_again (n fuel : nat) (k : nat) (ch : chan) (w : world) {struct k}
    : list call_rec * chan * world :=
    match k with
    | O => ([], ch, w)
    | S k' =>
        let '(ch', w', o) := serve_again n fuel ch w in
        let '(rs, ch'', w'') := serve_batch_again n fuel k' ch' w' in
        ((w_attempts w, o, w_attempts w') :: rs, ch'', w'')
    end.
  Fixpoint run_steps_again (n fuel : nat) (h : list step) (ch : chan) (w : world) {struct h}
    : list call_rec * chan * world :=
    match h with
    | [] => ([], ch, w)
    | Env e :: h' => let '(ch', w') := apply_ev e ch w in run_steps_again n fuel h' ch' w'
    | EnvRacyDrop b :: h' => run_steps_again n fuel h' (drop_conn (if b then Closed else Severed) ch) w
    | Calls k :: h' =>
        let '(rs1, ch', w') := serve_batch_again n fuel k ch w in
        let '(rs2, ch'', w'') := run_steps_again n fuel h' (settle ch') w' in
        (rs1 ++ rs2, ch'', w'')
    end.

  Record run_result := mkRun {
    r_eager : option ready_out;      (* None for a lazy channel *)
    r_calls : list call_rec;
    r_attempts : N;                  (* connector invocations in total *)
    r_i2c : option N                 (* ghost counter of the surviving Reconnect *)
  }.

  Definition run_with (fuel : nat) (is_lazy : bool) (lat prl : nat) (net0 : reach) (h : list step) : run_result :=
    match build is_lazy fuel (init_world net0 lat prl) with
    | (None, w, eo) => mkRun eo [] (w_attempts w) None
    | (Some ch, w, eo) =>
        let '(rs, ch', w') := run_steps fuel h ch w in
        mkRun eo rs (w_attempts w') (Some (rc_i2c (ch_rc ch')))
    end.
End Stack.

(* fuel that is always enough (Proofs/Reconnect.v: no OutOfFuel / RoHang / PrSpin above it) *)
Definition fuel_for (lat prl : nat) : nat := lat + prl + 4.

(* ---------------------------------------------------------------- the assumed stack, concretely *)
(* hyper 1.x http2::SendRequest::poll_ready: Ready(Err(closed)) iff is_closed(), never Pending *)
Definition real_conn_poll_ready (c : conn) : poll (result unit unit) :=
  match c with Closed => Ready (Err tt) | _ => Ready (Ok tt) end.
(* a request on a live connection to the live server is answered; on a dead one hyper fails it
   with Error::new_canceled *)
Definition real_send_request (c : conn) : send_result :=
  match c with Alive => SrResponse | _ => SrCanceled end.

Definition run (is_lazy : bool) (lat prl : nat) (net0 : reach) (h : list step) : run_result :=
  run_with real_conn_poll_ready real_send_request (fuel_for lat prl) is_lazy lat prl net0 h.

(* OBSERVATION (not covered by the property): the same run with a connector whose poll_ready
   answers Err after [good] successful cycles.  tower's contract: a service whose poll_ready errs
   is dead - Reconnect::poll_ready passes the error on (`r?`), the Buffer worker fails for good *)
Definition run_breaking (is_lazy : bool) (lat prl good : nat) (r : N) (net0 : reach) (h : list step) : run_result :=
  let fuel := fuel_for lat prl in
  match build real_conn_poll_ready is_lazy fuel (init_world_breaking net0 lat prl good r) with
  | (None, w, eo) => mkRun eo [] (w_attempts w) None
  | (Some ch, w, eo) =>
      let '(rs, ch', w') := run_steps real_conn_poll_ready real_send_request fuel h ch w in
      mkRun eo rs (w_attempts w') (Some (rc_i2c (ch_rc ch')))
  end.

(* ---------------------------------------------------------------- error -> Status (status.rs) *)
(* Status::from_error on a source chain is Model/Status.v's [from_error_code] over [enode]s:
   Status / TimeoutExpired / ConnectError / hyper::Error are recognised, everything else - an
   io::Error of WHATEVER kind, a custom error, a String, transport::Error, tower's ServiceError -
   is [EOther] and is skipped. *)

(* source chains of what a Channel call fails with *)
(* transport::Error > ConnectError > [hyper::Error(Io) >] wrappers > the underlying error *)
Definition chain_of_err (e : cerr) : list enode :=
  EOther :: EConnect ::
  (match e_kind e with Handshake => [EHyper false false None] | _ => [] end) ++
  repeat EOther (c_depth (cause_of_reason (e_reason e))) ++ [EOther].
Definition code_from_error := from_error_code.
Definition chain_of (o : outcome) : option (list enode) :=
  match o with
  | ConnectErr e => Some (chain_of_err e)
  | ServiceFailed e => Some (EOther :: chain_of_err e)          (* .. > buffer ServiceError > .. *)
  | Canceled => Some [EOther; EHyper false true None]
  | WorkerClosed => Some [EStatus Code_Unknown]                 (* Status::unknown built by the generated client *)
  | _ => None
  end.
Definition outcome_code (o : outcome) : option N :=
  match chain_of o with Some c => Some (code_from_error c) | None => None end.

(* ---------------------------------------------------------------- observable *)
(* only the connector's own error text carries the attempt number and the reason *)
Definition err_tr (code : N) (e : cerr) : tr :=
  match e_kind e with
  | Handshake => tag 1 [Nn code; Nn 0; Nn 0]
  | _ => tag 1 [Nn code; Nn (e_attempt e); Nn (e_reason e)]
  end.
Definition outcome_tr (o : outcome) : tr :=
  match o, outcome_code o with
  | Response, _ => tag 0 []
  | ConnectErr e, Some c => err_tr c e
  | ServiceFailed e, Some c => err_tr c e
  | Canceled, Some c => tag 1 [Nn c; Nn 0; Nn 0]
  | WorkerClosed, Some c => tag 1 [Nn c; Nn 0; Nn 0]
  | OutOfFuel, _ => tag 2 []
  | _, _ => tag 3 []
  end.
Definition ready_tr (o : ready_out) : tr :=
  match o with
  | RoOk => tag 0 []
  | RoErr e => err_tr (code_from_error (chain_of_err e)) e
  | RoHang => tag 2 []
  | RoPanic | RoMisuse => tag 3 []
  end.
(* how often the connector was `call`ed without a Ready poll_ready since its previous call *)
Definition misuses (r : run_result) : N :=
  (match r_eager r with Some RoMisuse => 1 | _ => 0 end) +
  N.of_nat (length (filter (fun c : call_rec =>
                              match snd (fst c) with ConnectorMisuse => true | _ => false end) (r_calls r))).
Definition result_tr (r : run_result) : tr :=
  Nd [oopt ready_tr (r_eager r);
      olist (fun c : call_rec => outcome_tr (snd (fst c))) (r_calls r);
      Nn (r_attempts r);
      Nn (misuses r)].

Definition obs_run (is_lazy : bool) (lat prl : N) (net0 : reach) (h : list step) : tr :=
  result_tr (run is_lazy (N.to_nat lat) (N.to_nat prl) net0 h).
Definition obs_run_breaking (is_lazy : bool) (lat prl good r : N) (net0 : reach) (h : list step) : tr :=
  result_tr (run_breaking is_lazy (N.to_nat lat) (N.to_nat prl) (N.to_nat good) r net0 h).

(* codes only (0 = a response): what can be compared over a real TCP transport, where the error
   texts are the operating system's and the connector is hyper-util's *)
Definition outcome_code_n (o : outcome) : N :=
  match o, outcome_code o with
  | Response, _ => 0
  | _, Some c => c
  | OutOfFuel, None => 1000
  | _, None => 1001
  end.
Definition ready_code_n (o : ready_out) : N :=
  match o with
  | RoOk => 0
  | RoErr e => code_from_error (chain_of_err e)
  | RoHang => 1000
  | _ => 1001
  end.
Definition obs_run_codes (is_lazy : bool) (net0 : reach) (h : list step) : tr :=
  let r := run is_lazy 0 0 net0 h in
  Nd [oopt (fun o => Nn (ready_code_n o)) (r_eager r);
      olist (fun c : call_rec => Nn (outcome_code_n (snd (fst c)))) (r_calls r)].

(* a balanced channel (Channel::balance_list / balance_channel) with ONE endpoint: a lazy Reconnect
   (DynamicServiceStream builds Connection::lazy), polled [again] more times before every call *)
Definition run_balanced_with cpr sreq (again fuel lat prl : nat) (net0 : reach) (h : list step) : list call_rec :=
  fst (fst (run_steps_again cpr sreq again fuel h (mkChan (new_reconnect true) None) (init_world net0 lat prl))).
Definition run_balanced (again lat prl : nat) (net0 : reach) (h : list step) : list call_rec :=
  run_balanced_with real_conn_poll_ready real_send_request again (fuel_for lat prl) lat prl net0 h.
Definition obs_balance_codes (again : N) (net0 : reach) (h : list step) : tr :=
  olist (fun c : call_rec => Nn (outcome_code_n (snd (fst c)))) (run_balanced (N.to_nat again) 0 0 net0 h).

(* SEVERAL endpoints.  Which endpoint answers a call is tower's p2c choice among the ready ones
   and a race of connects: NOT modelled.  What is compared is the class of every call made while
   no endpoint of the balancer's set is reachable - the outcome of the one-endpoint balanced
   driver on an unreachable endpoint; calls made while some endpoint is reachable are 0 (the
   harness canonicalises what its oracle admits to 0) *)
Inductive bstep := BUp (e : nat) | BDown (e : nat) | BInsert (e : nat) | BRemove (e : nat) | BCall.
Fixpoint set_nth (e : nat) (b : bool) (l : list bool) : list bool :=
  match l, e with
  | [], _ => []
  | _ :: t, O => b :: t
  | x :: t, S e' => x :: set_nth e' b t
  end.
Fixpoint any_reachable (inset up : list bool) : bool :=
  match inset, up with
  | i :: it, u :: ut => (i && u) || any_reachable it ut
  | _, _ => false
  end.
Definition unreachable_code : N :=
  match run_balanced 1 0 0 (Down 2) [Call] with
  | c :: _ => outcome_code_n (snd (fst c))
  | [] => 1001
  end.
Fixpoint balance_set_codes (inset up : list bool) (h : list bstep) : list N :=
  match h with
  | [] => []
  | BUp e :: h' => balance_set_codes inset (set_nth e true up) h'
  | BDown e :: h' => balance_set_codes inset (set_nth e false up) h'
  | BInsert e :: h' => balance_set_codes (set_nth e true inset) up h'
  | BRemove e :: h' => balance_set_codes (set_nth e false inset) up h'
  | BCall :: h' => (if any_reachable inset up then 0 else unreachable_code) :: balance_set_codes inset up h'
  end.
Definition obs_balance_set_codes (inset up : list bool) (h : list bstep) : tr :=
  olist Nn (balance_set_codes inset up h).

(* ---------------------------------------------------------------- assumed contracts, as a predicate *)
(* What the theorems assume about the parameters of [Section Stack] (hyper).  The
   [real_*] instance above satisfies it (Props/C14.v), and it is the instance the correspondence run
   evaluates against the implementation. *)
Record stack_contract (conn_poll_ready : conn -> poll (result unit unit))
                      (send_request : conn -> send_result) : Prop := {
  (* hyper http2 SendRequest::poll_ready never returns Pending; it fails iff the connection task
     has finished (is_closed) *)
  sc_ready_alive : conn_poll_ready Alive = Ready (Ok tt);
  sc_ready_severed : conn_poll_ready Severed = Ready (Ok tt);
  sc_ready_closed : conn_poll_ready Closed = Ready (Err tt);
  (* a request sent on a live connection to the live server is answered; on a dead one hyper
     fails it as canceled *)
  sc_send_alive : send_request Alive = SrResponse;
  sc_send_severed : send_request Severed = SrCanceled;
  sc_send_closed : send_request Closed = SrCanceled
}.

(* pure environment bookkeeping used by the statements *)
Fixpoint net_after (net : reach) (h : list step) : reach :=
  match h with
  | [] => net
  | Env (ConnectFails r) :: h' => net_after (Down r) h'
  | Env ConnectSucceeds :: h' => net_after Up h'
  | Env (ConnectSucceedsDead r) :: h' => net_after (UpDead r) h'
  | Env ConnectSucceedsGarbage :: h' => net_after UpGarbage h'
  | _ :: h' => net_after net h'
  end.
Fixpoint count_calls (h : list step) : nat :=
  match h with
  | [] => O
  | Calls k :: h' => (k + count_calls h')%nat
  | _ :: h' => count_calls h'
  end.
(* every step is at a quiescent point: no call races with a dying connection *)
Definition quiescent_step (s : step) : bool := match s with EnvRacyDrop false => false | _ => true end.
Definition quiescent (h : list step) : bool := forallb quiescent_step h.
(* the property's alphabet: connects fail (the connector refuses, or the HTTP/2 handshake on the
   io it returned fails) or succeed, connections are dropped.  A peer that accepts the transport,
   lets hyper's write-only handshake pass and then kills the connection under the first request is
   an established connection dropped while a call is in flight: like the racy drop it is outside
   the quantifier (calls at quiescent points) *)
Definition plain_net (net : reach) : bool := match net with UpGarbage => false | _ => true end.
Definition plain_step (s : step) : bool :=
  match s with Env ConnectSucceedsGarbage => false | _ => true end.
Definition plain (h : list step) : bool := forallb plain_step h.

Definition rec_outcome (c : call_rec) : outcome := snd (fst c).
Definition rec_before (c : call_rec) : N := fst (fst c).
Definition rec_after (c : call_rec) : N := snd c.
(* attempt numbers carried by the connect errors that calls reported, in call order *)
Definition err_ids (rs : list call_rec) : list N :=
  flat_map (fun c => match rec_outcome c with ConnectErr e => [e_attempt e] | ServiceFailed e => [e_attempt e] | _ => [] end) rs.

(* ---------------------------------------------------------------- statement vocabulary *)
(* the drivers are given at least this much fuel (iterations of `loop`, re-polls after Pending) *)
Definition enough_fuel (lat prl fuel : nat) : Prop := (lat + prl + 4 <= fuel)%nat.
(* a channel object exists: lazy channels always, eager ones iff the first connect future succeeds
   (with UpGarbage it does: hyper's client handshake only writes) *)
Definition built (is_lazy : bool) (net0 : reach) : Prop :=
  is_lazy = true \/ net0 = Up \/ net0 = UpGarbage.
(* the connector's invocation count only moves inside calls, by at most one per call *)
Fixpoint chained (n : N) (rs : list call_rec) (n' : N) : Prop :=
  match rs with
  | [] => n = n'
  | c :: rs' => rec_before c = n /\ (rec_after c = n \/ rec_after c = n + 1) /\ chained (rec_after c) rs' n'
  end.
