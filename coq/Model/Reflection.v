(* Model of tonic-reflection/src/server/{mod,v1,v1alpha}.rs (C19).

   Descriptors are an AST of exactly the parts the reflection index reads: names (prost
   [Option<String>], so a name can be missing), the package, and the nesting structure.  All the
   rest of a FileDescriptorProto (field types, numbers, options, dependencies, ...) is the opaque
   [f_rest] payload: the index never looks at it, but a file is returned whole, so it is part of
   the identity of a file.

   Strings are byte lists (Rust [String] compared bytewise).  The two [HashMap]s are association
   lists: [map_insert] conses, [map_get] returns the first hit, i.e. a later insert of the same key
   replaces the earlier one (HashMap::insert).  No proofs in this file. *)
From Verif Require Import Lib.Bytes Lib.Obs.
From Coq Require Import String.
Open Scope N_scope.

Definition name := list N.
Definition s2b (s : string) : name := bytes_of_string s.
Arguments s2b s%string.

(* ------------------------------------------------------------------ descriptor AST *)
Inductive enum : Type :=
  Enum (e_name : option name) (e_values : list (option name)).
Inductive msg : Type :=
  Msg (m_name : option name) (m_nested : list msg) (m_enums : list enum)
      (m_fields : list (option name)) (m_oneofs : list (option name)).
Inductive service : Type :=
  Service (s_name : option name) (s_methods : list (option name)).
Record file : Type := mkFile {
  f_name : option name;
  f_package : option name;
  f_msgs : list msg;
  f_enums : list enum;
  f_services : list service;
  f_rest : N                      (* the whole FileDescriptorProto as a digest of its prost
                                     encoding: the index never reads the other fields (types,
                                     numbers, options, extensions, reserved ranges, source info,
                                     dependencies, ...), but a file is stored and returned whole,
                                     so two files are the same only if all their fields are *)
}.
Definition fds := list file.      (* FileDescriptorSet { file } *)

(* ------------------------------------------------------------------ results, maps *)
(* Error::DecodeError / Error::InvalidFileDescriptorSet("missing <what> name") *)
Inductive error : Type := DecodeError | MissingName (what : N).
Definition K_file := 0.     (* "missing name" *)
Definition K_message := 1.
Definition K_enum := 2.
Definition K_service := 3.
Definition K_method := 4.
Definition K_enum_value := 5.
Definition K_field := 6.
Definition K_oneof := 7.

Inductive result (A : Type) : Type := Ok (a : A) | Err (e : error).
Arguments Ok {A} a.
Arguments Err {A} e.

(* a [for x in l { body(x)?; }] loop over a state *)
Definition fold_r {A S : Type} (f : A -> S -> result S) : list A -> S -> result S :=
  fix go (l : list A) (s : S) {struct l} : result S :=
    match l with
    | [] => Ok s
    | x :: r => match f x s with Ok s' => go r s' | Err e => Err e end
    end.

Definition fmap := list (name * file).
Definition map_insert (k : name) (v : file) (m : fmap) : fmap := (k, v) :: m.
Fixpoint map_get (m : fmap) (k : name) : option file :=
  match m with
  | [] => None
  | (k', v) :: r => if bytes_eqb k' k then Some v else map_get r k
  end.
Definition map_contains (m : fmap) (k : name) : bool :=
  match map_get m k with Some _ => true | None => false end.

(* ------------------------------------------------------------------ extract_name *)
Definition dot : N := 46.
Definition extract_name (prefix : name) (what : N) (maybe_name : option name) : result name :=
  match maybe_name with
  | None => Err (MissingName what)
  | Some n =>
      match prefix with
      | [] => Ok n                               (* prefix.is_empty() *)
      | _ => Ok (prefix ++ dot :: n)             (* format!("{}.{}", prefix, name) *)
      end
  end.

(* ------------------------------------------------------------------ ReflectionServiceState *)
Record state : Type := mkState {
  service_names : list name;
  files : fmap;
  symbols : fmap
}.

(* the loops that insert [prefix.name] for each of a list of optional names (fields via
   process_field, oneofs, enum values, methods) *)
Definition process_named (fd : file) (prefix : name) (what : N) (n : option name) (syms : fmap)
  : result fmap :=
  match extract_name prefix what n with
  | Err e => Err e
  | Ok full => Ok (map_insert full fd syms)
  end.

Definition process_field := fun fd prefix n syms => process_named fd prefix K_field n syms.

Definition process_enum (fd : file) (prefix : name) (en : enum) (syms : fmap) : result fmap :=
  match en with
  | Enum n values =>
      match extract_name prefix K_enum n with
      | Err e => Err e
      | Ok enum_name =>
          let syms := map_insert enum_name fd syms in
          fold_r (process_named fd enum_name K_enum_value) values syms
      end
  end.

Fixpoint process_message (fd : file) (prefix : name) (m : msg) (syms : fmap) {struct m}
  : result fmap :=
  match m with
  | Msg n nested enums fields oneofs =>
      match extract_name prefix K_message n with
      | Err e => Err e
      | Ok message_name =>
          let syms := map_insert message_name fd syms in
          match fold_r (process_message fd message_name) nested syms with
          | Err e => Err e
          | Ok syms =>
              match fold_r (process_enum fd message_name) enums syms with
              | Err e => Err e
              | Ok syms =>
                  match fold_r (process_field fd message_name) fields syms with
                  | Err e => Err e
                  | Ok syms => fold_r (process_named fd message_name K_oneof) oneofs syms
                  end
              end
          end
      end
  end.

(* the services loop of process_file works on (service_names, symbols) *)
Definition process_service (fd : file) (prefix : name) (use_all_service_names : bool)
  (sv : service) (acc : list name * fmap) : result (list name * fmap) :=
  match sv with
  | Service n methods =>
      match extract_name prefix K_service n with
      | Err e => Err e
      | Ok service_name =>
          let names := if use_all_service_names then fst acc ++ [service_name] else fst acc in
          let syms := map_insert service_name fd (snd acc) in
          match fold_r (process_named fd service_name K_method) methods syms with
          | Err e => Err e
          | Ok syms => Ok (names, syms)
          end
      end
  end.

Definition pkg (fd : file) : name := match f_package fd with Some p => p | None => [] end.

Definition process_file (fd : file) (use_all_service_names : bool) (st : state) : result state :=
  let prefix := pkg fd in                                  (* package.unwrap_or_default() *)
  match fold_r (process_message fd prefix) (f_msgs fd) (symbols st) with
  | Err e => Err e
  | Ok syms =>
      match fold_r (process_enum fd prefix) (f_enums fd) syms with
      | Err e => Err e
      | Ok syms =>
          match fold_r (process_service fd prefix use_all_service_names) (f_services fd)
                       (service_names st, syms) with
          | Err e => Err e
          | Ok (names, syms) => Ok (mkState names (files st) syms)
          end
      end
  end.

(* body of the inner loop of ReflectionServiceState::new *)
Definition new_step (use_all_service_names : bool) (fd : file) (st : state) : result state :=
  match f_name fd with
  | None => Err (MissingName K_file)
  | Some n =>
      if map_contains (files st) n then Ok st               (* continue *)
      else process_file fd use_all_service_names
             (mkState (service_names st) (map_insert n fd (files st)) (symbols st))
  end.

(* An encoded set is represented by what prost's FileDescriptorSet::decode makes of it:
   None = DecodeError. *)
Fixpoint decode_all (encoded : list (option fds)) (acc : list fds) : result (list fds) :=
  match encoded with
  | [] => Ok acc
  | None :: _ => Err DecodeError
  | Some s :: r => decode_all r (acc ++ [s])                (* file_descriptor_sets.push(..) *)
  end.

Definition new (names : list name) (encoded : list (option fds)) (sets : list fds)
  (use_all_service_names : bool) : result state :=
  match decode_all encoded sets with
  | Err e => Err e
  | Ok sets =>
      fold_r (fun s => fold_r (new_step use_all_service_names) s) sets (mkState names [] [])
  end.

Definition list_services (st : state) : list name := service_names st.
Definition symbol_by_name (st : state) (s : name) : option file := map_get (symbols st) s.
Definition file_by_filename (st : state) (s : name) : option file := map_get (files st) s.

(* ------------------------------------------------------------------ Builder *)
Record builder : Type := mkBuilder {
  b_sets : list fds;
  b_encoded : list (option fds);
  b_include_reflection : bool;
  b_names : list name;
  b_use_all : bool
}.
Definition configure : builder := mkBuilder [] [] true [] true.
Definition register_file_descriptor_set (b : builder) (s : fds) : builder :=
  mkBuilder (b_sets b ++ [s]) (b_encoded b) (b_include_reflection b) (b_names b) (b_use_all b).
Definition register_encoded_file_descriptor_set (b : builder) (s : option fds) : builder :=
  mkBuilder (b_sets b) (b_encoded b ++ [s]) (b_include_reflection b) (b_names b) (b_use_all b).
Definition include_reflection_service (b : builder) (i : bool) : builder :=
  mkBuilder (b_sets b) (b_encoded b) i (b_names b) (b_use_all b).
Definition with_service_name (b : builder) (n : name) : builder :=
  mkBuilder (b_sets b) (b_encoded b) (b_include_reflection b) (b_names b ++ [n]) false.

(* build_v1 / build_v1alpha: [own] is the crate's own FILE_DESCRIPTOR_SET of that version *)
Definition build (own : fds) (b : builder) : result state :=
  let b := if b_include_reflection b then register_encoded_file_descriptor_set b (Some own)
           else b in
  new (b_names b) (b_encoded b) (b_sets b) (b_use_all b).

(* builder calls as data, for the case files *)
Inductive bop : Type :=
| RegisterSet (s : fds)
| RegisterEncoded (s : option fds)
| IncludeReflection (i : bool)
| WithServiceName (n : name).
Definition apply_op (b : builder) (o : bop) : builder :=
  match o with
  | RegisterSet s => register_file_descriptor_set b s
  | RegisterEncoded s => register_encoded_file_descriptor_set b s
  | IncludeReflection i => include_reflection_service b i
  | WithServiceName n => with_service_name b n
  end.
Definition run_ops (ops : list bop) : builder := fold_left apply_op ops configure.

(* ------------------------------------------------------------------ request loop *)
Inductive request : Type :=
| NoMessageRequest                       (* message_request: None *)
| FileByFilename (s : name)
| FileContainingSymbol (s : name)
| FileContainingExtension (containing_type : name) (extension_number : Z)
| AllExtensionNumbersOfType (type_name : name)
| ListServices (content : name).
Inductive response : Type :=
| FileDescriptorResponse (f : file)      (* file_descriptor_proto: vec![encode(fd)] *)
| AllExtensionNumbersResponse            (* ExtensionNumberResponse::default() *)
| ListServicesResponse (l : list name).
Definition INVALID_ARGUMENT : N := 3.
Definition NOT_FOUND : N := 5.

(* the [match req.message_request] of both loops: Ok(MessageResponse) or Err(Status code) *)
Definition answer (st : state) (r : request) : response + N :=
  match r with
  | NoMessageRequest => inr INVALID_ARGUMENT
  | FileByFilename s =>
      match file_by_filename st s with
      | Some fd => inl (FileDescriptorResponse fd)
      | None => inr NOT_FOUND
      end
  | FileContainingSymbol s =>
      match symbol_by_name st s with
      | Some fd => inl (FileDescriptorResponse fd)
      | None => inr NOT_FOUND
      end
  | FileContainingExtension _ _ => inr NOT_FOUND          (* "extensions are not supported" *)
  | AllExtensionNumbersOfType _ => inl AllExtensionNumbersResponse
  | ListServices _ => inl (ListServicesResponse (list_services st))
  end.

(* ServerReflectionResponse { valid_host: req.host.clone(), original_request: Some(req.clone()),
   message_response: Some(resp_msg) }.  A request is (host, message_request). *)
Record reply : Type := mkReply {
  valid_host : name;
  original_request : option (name * request);
  message_response : response
}.

(* What the spawned task sees, in its own order: a request, an error item of the request stream,
   or the moment the response receiver is gone (after which [send(..).expect("send")] panics). *)
Inductive event : Type := Req (host : name) (r : request) | ReqErr | RxDrop.
Inductive ending : Type := Ended | Panic.

(* v1.rs: server_reflection_info, the spawned loop.  [closed] = receiver dropped. *)
Fixpoint serve_v1 (st : state) (closed : bool) (evs : list event)
  : list (reply + N) * ending :=
  match evs with
  | [] => ([], Ended)                                    (* request stream ended *)
  | RxDrop :: r => serve_v1 st true r
  | ReqErr :: _ => ([], Ended)                           (* let Ok(req) = req else return *)
  | Req h q :: r =>
      match answer st q with
      | inl m =>
          let resp := mkReply h (Some (h, q)) m in
          if closed then ([], Panic)                     (* send(Ok(resp)).expect("send") *)
          else let '(out, e) := serve_v1 st closed r in (inl resp :: out, e)
      | inr code =>
          if closed then ([], Panic)                     (* send(Err(..)).expect("send") *)
          else ([inr code], Ended)                       (* return *)
      end
  end.

(* v1alpha.rs: the same text over the v1alpha message types *)
Fixpoint serve_v1alpha (st : state) (closed : bool) (evs : list event)
  : list (reply + N) * ending :=
  match evs with
  | [] => ([], Ended)
  | RxDrop :: r => serve_v1alpha st true r
  | ReqErr :: _ => ([], Ended)
  | Req h q :: r =>
      match answer st q with
      | inl m =>
          let resp := mkReply h (Some (h, q)) m in
          if closed then ([], Panic)
          else let '(out, e) := serve_v1alpha st closed r in (inl resp :: out, e)
      | inr code =>
          if closed then ([], Panic)
          else ([inr code], Ended)
      end
  end.

(* ------------------------------------------------------------------ observables *)
Definition obs_error (e : error) : tr :=
  match e with DecodeError => Nd [Nn 0] | MissingName k => Nd [Nn 1; Nn k] end.
Definition obs_file (f : file) : tr := Nd [oopt Bs (f_name f); Nn (f_rest f)].
(* an i32 as its two's-complement u32 *)
Definition obs_i32 (z : Z) : tr := Nn (Z.to_N (z mod 4294967296)%Z).
Definition obs_request (q : request) : tr :=
  match q with
  | NoMessageRequest => Nd [Nn 0]
  | FileByFilename s => Nd [Nn 1; Bs s]
  | FileContainingSymbol s => Nd [Nn 2; Bs s]
  | FileContainingExtension t n => Nd [Nn 3; Bs t; obs_i32 n]
  | AllExtensionNumbersOfType t => Nd [Nn 4; Bs t]
  | ListServices c => Nd [Nn 5; Bs c]
  end.
Definition obs_response (m : response) : tr :=
  match m with
  | FileDescriptorResponse f => Nd [Nn 1; obs_file f]
  | AllExtensionNumbersResponse => Nd [Nn 2; Bs []; Nd []]   (* base_type_name "", no numbers *)
  | ListServicesResponse l => Nd [Nn 3; olist Bs l]
  end.
(* The envelope of a response message (valid_host, original_request) is compared as a 64-bit
   FNV-1a digest of an injective byte rendering (strings are UTF-8, so 255 separates them): the
   harness digests what came back in the same way.  [obs_request] is the readable rendering. *)
Definition fnv_step (h b : N) : N :=
  N.land (N.lxor h b * 1099511628211) 18446744073709551615.
Definition fnv (bs : list N) : N := fold_left fnv_step bs 14695981039346656037.
Definition u32_bytes (z : Z) : list N :=
  let n := Z.to_N (z mod 4294967296)%Z in
  [n mod 256; (n / 256) mod 256; (n / 65536) mod 256; n / 16777216].
Definition request_bytes (q : request) : list N :=
  match q with
  | NoMessageRequest => [0]
  | FileByFilename s => 1 :: s
  | FileContainingSymbol s => 2 :: s
  | FileContainingExtension t n => 3 :: t ++ 255 :: u32_bytes n
  | AllExtensionNumbersOfType t => 4 :: t
  | ListServices c => 5 :: c
  end.
Definition envelope_bytes (r : reply) : list N :=
  valid_host r ++ 255 ::
  match original_request r with
  | None => [0]
  | Some hq => 1 :: fst hq ++ 255 :: request_bytes (snd hq)
  end.
Definition obs_answer (a : reply + N) : tr :=
  match a with
  | inr code => Nd [Nn 0; Nn code]
  | inl r => Nd [obs_response (message_response r); Nn (fnv (envelope_bytes r))]
  end.
Definition obs_ending (e : ending) : tr := Nn (match e with Ended => 0 | Panic => 1 end).
Definition obs_stream (r : list (reply + N) * ending) : tr :=
  Nd [olist obs_answer (fst r); obs_ending (snd r)].

(* one service version: build, then every query on a stream of its own, then one scripted stream *)
Definition obs_version (serve : state -> bool -> list event -> list (reply + N) * ending)
  (own : fds) (b : builder) (queries : list (name * request)) (script : list event) : tr :=
  match build own b with
  | Err e => Nd [Nn 0; obs_error e]
  | Ok st =>
      Nd [Nn 1;
          olist (fun hq => obs_stream (serve st false [Req (fst hq) (snd hq)])) queries;
          obs_stream (serve st false script)]
  end.

Definition obs_case (own_v1 own_v1alpha : fds) (ops : list bop) (queries : list (name * request))
  (script : list event) : tr :=
  let b := run_ops ops in
  Nd [obs_version serve_v1 own_v1 b queries script;
      obs_version serve_v1alpha own_v1alpha b queries script].

(* ================================================================== specification side
   Written independently of [new]/[process_*]: what a descriptor *declares*, as an inductive
   relation over the AST.  The naming scheme is the one of the anchored mechanism: a name is
   qualified by its enclosing scope with a dot, an empty scope (no package) adds nothing, and
   enum values are scoped by their enum ([pkg.Enum.VALUE]). *)
Definition qual (scope n : name) : name :=
  match scope with [] => n | _ => scope ++ dot :: n end.

Inductive enum_declares (scope : name) : enum -> name -> Prop :=
| ED_enum n vs : enum_declares scope (Enum (Some n) vs) (qual scope n)
| ED_value n vs v : In (Some v) vs ->
    enum_declares scope (Enum (Some n) vs) (qual (qual scope n) v).

Inductive msg_declares : name -> msg -> name -> Prop :=
| MD_message scope n ns es fs os :
    msg_declares scope (Msg (Some n) ns es fs os) (qual scope n)
| MD_nested scope n ns es fs os m s : In m ns -> msg_declares (qual scope n) m s ->
    msg_declares scope (Msg (Some n) ns es fs os) s
| MD_enum scope n ns es fs os e s : In e es -> enum_declares (qual scope n) e s ->
    msg_declares scope (Msg (Some n) ns es fs os) s
| MD_field scope n ns es fs os f : In (Some f) fs ->
    msg_declares scope (Msg (Some n) ns es fs os) (qual (qual scope n) f)
| MD_oneof scope n ns es fs os o : In (Some o) os ->
    msg_declares scope (Msg (Some n) ns es fs os) (qual (qual scope n) o).

Inductive service_declares (scope : name) : service -> name -> Prop :=
| SD_service n ms : service_declares scope (Service (Some n) ms) (qual scope n)
| SD_method n ms m : In (Some m) ms ->
    service_declares scope (Service (Some n) ms) (qual (qual scope n) m).

Inductive declares (f : file) : name -> Prop :=
| D_message m s : In m (f_msgs f) -> msg_declares (pkg f) m s -> declares f s
| D_enum e s : In e (f_enums f) -> enum_declares (pkg f) e s -> declares f s
| D_service sv s : In sv (f_services f) -> service_declares (pkg f) sv s -> declares f s.

(* the fully-qualified service names a file declares, in order *)
Definition declared_services (f : file) : list name :=
  flat_map (fun sv => match sv with
                      | Service (Some n) _ => [qual (pkg f) n]
                      | Service None _ => []
                      end) (f_services f).

Definition named (n : name) (f : file) : bool :=
  match f_name f with Some n' => bytes_eqb n' n | None => false end.

(* [f] is registered and no file registered before it carries its name (it is not shadowed) *)
Definition first_named (fs : list file) (f : file) : Prop :=
  exists pre post n, fs = pre ++ f :: post /\ f_name f = Some n /\
                     forall g, In g pre -> f_name g <> Some n.

(* the non-shadowed files, in registration order *)
Fixpoint effective_from (seen : list name) (fs : list file) : list file :=
  match fs with
  | [] => []
  | f :: r =>
      match f_name f with
      | None => effective_from seen r
      | Some n => if existsb (fun k => bytes_eqb k n) seen then effective_from seen r
                  else f :: effective_from (n :: seen) r
      end
  end.
Definition effective (fs : list file) : list file := effective_from [] fs.

Definition somes {A} (l : list (option A)) : list A :=
  flat_map (fun o => match o with Some x => [x] | None => [] end) l.
(* the order in which ReflectionServiceState::new walks the files: the decoded sets first, then
   the encoded ones (whatever the order of the builder calls) *)
Definition registration_order (sets : list fds) (encoded : list (option fds)) : list file :=
  List.concat (sets ++ somes encoded).
Definition builder_files (own : fds) (b : builder) : list file :=
  registration_order (b_sets b)
    (if b_include_reflection b then b_encoded b ++ [Some own] else b_encoded b).

(* every name is present *)
Definition name_present (o : option name) : bool := match o with Some _ => true | None => false end.
Definition enum_complete (e : enum) : bool :=
  match e with Enum n vs => name_present n && forallb name_present vs end.
Fixpoint msg_complete (m : msg) : bool :=
  match m with
  | Msg n ns es fs os =>
      name_present n && forallb msg_complete ns && forallb enum_complete es &&
      forallb name_present fs && forallb name_present os
  end.
Definition service_complete (s : service) : bool :=
  match s with Service n ms => name_present n && forallb name_present ms end.
Definition file_complete (f : file) : bool :=
  forallb msg_complete (f_msgs f) && forallb enum_complete (f_enums f) &&
  forallb service_complete (f_services f).

(* names chosen with with_service_name, in call order *)
Definition chosen (ops : list bop) : list name :=
  flat_map (fun o => match o with WithServiceName n => [n] | _ => [] end) ops.

(* the same set as [declares], as a list: every fully-qualified name a file declares (a missing
   name declares nothing, and neither does anything below it) *)
Definition onames (scope : name) (l : list (option name)) : list name :=
  flat_map (fun o => match o with Some v => [qual scope v] | None => [] end) l.
Definition enum_names (scope : name) (e : enum) : list name :=
  match e with
  | Enum (Some n) vs => qual scope n :: onames (qual scope n) vs
  | Enum None _ => []
  end.
Fixpoint msg_names (scope : name) (m : msg) {struct m} : list name :=
  match m with
  | Msg (Some n) ns es fs os =>
      qual scope n ::
        flat_map (msg_names (qual scope n)) ns ++ flat_map (enum_names (qual scope n)) es ++
        onames (qual scope n) fs ++ onames (qual scope n) os
  | Msg None _ _ _ _ => []
  end.
Definition service_sym_names (scope : name) (s : service) : list name :=
  match s with
  | Service (Some n) ms => qual scope n :: onames (qual scope n) ms
  | Service None _ => []
  end.
Definition declared_names (f : file) : list name :=
  flat_map (msg_names (pkg f)) (f_msgs f) ++ flat_map (enum_names (pkg f)) (f_enums f) ++
  flat_map (service_sym_names (pkg f)) (f_services f).
Definition declares_b (f : file) (s : name) : bool :=
  existsb (fun k => bytes_eqb k s) (declared_names f).

(* tie of the harness oracle's own reading of "what a file declares" to [declares]: both
   inclusions and the number of declarations (with repetitions) *)
Definition incl_b (a b : list name) : bool :=
  forallb (fun x => existsb (fun k => bytes_eqb k x) b) a.
Definition obs_declared (f : file) (oracle_names : list name) : tr :=
  Nd [obool (incl_b (declared_names f) oracle_names);
      obool (incl_b oracle_names (declared_names f));
      Nn (N.of_nat (List.length (declared_names f)))].

