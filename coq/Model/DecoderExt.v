(* Extension of Model/Decoder.v for C07 (AUDIT2 M17, N-C07-1, L-C07-5), definitions only:

     tonic/src/codec/compression.rs   decompress(): the capacity estimate with its usize arithmetic
                                      (debug build: overflow and division by zero are panics), the
                                      reserve, the slice, the `?` that leaves the compressed bytes in
                                      place, advance(len)
     tonic/src/codec/decode.rs        the same poll_next tower as Model/Decoder.v, but calling the
                                      modelled decompress() with the decoder's buffer_size and keeping a
                                      ghost log of what decompress() reserves and writes ([zev]);
                                      Streaming::message(), Streaming::trailers()

   The tower below is Model/Decoder.v's, function by function, with the extra [list zev] result;
   Proofs/DecoderExt.v proves that forgetting the log gives exactly Model/Decoder.v's functions
   whenever the data chunks hold bytes and buffer_size is a usize, so every theorem of
   Proofs/Decoder.v speaks about what the harness evaluates ([obs_case_x]). *)
From Verif Require Import Lib.Bytes Lib.Obs Lib.BE32 Lib.HeaderMap Model.Frame Model.Status Model.Decoder.
From Verif Require Import Gen.StatusTables.
Open Scope N_scope.

(* ---- usize arithmetic of a 64-bit debug build: None = the panic ------------------------------ *)
Definition USIZE : N := 18446744073709551616.    (* 2^64 *)
Definition umul (a b : N) : option N := if USIZE <=? a * b then None else Some (a * b).
Definition uadd (a b : N) : option N := if USIZE <=? a + b then None else Some (a + b).
Definition udiv (a b : N) : option N := if b =? 0 then None else Some (a / b).

(* compression.rs decompress():
     let buffer_growth_interval = settings.buffer_growth_interval.max(1);
     let estimate_decompressed_len = len * 2;
     let capacity = ((estimate_decompressed_len / buffer_growth_interval) + 1) * buffer_growth_interval; *)
Definition decompress_capacity (buffer_size len : N) : option N :=
  let g := N.max buffer_size 1 in
  match umul len 2 with
  | None => None
  | Some est =>
      match udiv est g with
      | None => None
      | Some q =>
          match uadd q 1 with
          | None => None
          | Some q1 => umul q1 g
          end
      end
  end.

(* ghost: what decompress() asks of out_buf - reserve(capacity), then [n] bytes written through
   out_buf.writer() by std::io::copy (nothing in tonic bounds n) *)
Inductive zev := ZReserve (cap : N) | ZOut (n : N).
Inductive zres := ZPanic | ZErr | ZOk (out rest : list N).

(* Streaming::message() / Streaming::trailers() *)
Inductive tres := TSome (t : hm) | TNone | TErr (st : status) | TPanic | TFuel.

Section DecoderExt.
Context {enc msg : Type}.
Variable deser : list N -> option msg.
Variable decompress : enc -> list N -> option (list N).
(* decoder.buffer_settings().buffer_size (CompressionSettings::buffer_growth_interval) *)
Variable bs : N.

(* decompress(settings, compressed_buf, out_buf, len) *)
Definition decompress_call (e : enc) (buf : list N) (len : N) : zres * list zev :=
  match decompress_capacity bs len with
  | None => (ZPanic, [])
  | Some cap =>
      (* out_buf.reserve(capacity); &compressed_buf[0..len] panics on a shorter buffer *)
      if nlen buf <? len then (ZPanic, [ZReserve cap])
      else match decompress e (ntake len buf) with
           | None => (ZErr, [ZReserve cap])                    (* `?`: no advance *)
           | Some out => (ZOk out (ndrop len buf), [ZReserve cap; ZOut (nlen out)])   (* advance(len) *)
           end
  end.

(* StreamingInner::decode_chunk, second block *)
Definition read_body_x (d : dec enc) : cres enc * list zev :=
  match d_state d with
  | ReadBody compression len =>
      if nlen (d_buf d) <? len then (CNone d, [])
      else match compression with
           | Some e =>
               match decompress_call e (d_buf d) len with
               | (ZPanic, z) => (CPanic, z)
               | (ZErr, z) => (CErr st_decompress d, z)
               | (ZOk out rest, z) => (CSome out (with_buf d rest), z)
               end
           | None => (CSome (ntake len (d_buf d)) (with_buf d (ndrop len (d_buf d))), [])
           end
  | _ => (CNone d, [])
  end.

Definition inner_decode_chunk_x (d : dec enc) : cres enc * list zev :=
  match d_state d with
  | ReadHeader =>
      if nlen (d_buf d) <? HEADER_SIZE then (CNone d, [])
      else match get_u8 (d_buf d) with
      | None => (CPanic, [])
      | Some (flag, b1) =>
          let d1 := with_buf d b1 in
          match (if flag =? 0 then inl None
                 else if flag =? 1 then
                   match d_encoding d with
                   | Some e => inl (Some e)
                   | None => inr st_flag_no_encoding
                   end
                 else inr st_bad_flag) with
          | inr st => (CErr st d1, [])
          | inl compression =>
              match get_u32 b1 with
              | None => (CPanic, [])
              | Some (len, b2) =>
                  let d2 := with_buf d b2 in
                  if limit_of d <? len then (CErr st_too_large d2, [])
                  else
                    let d3 := with_log d2 (d_log d ++ [Reserve len]) in
                    read_body_x (with_state d3 (ReadBody compression len))
              end
          end
      end
  | _ => read_body_x d
  end.

(* Streaming::decode_chunk *)
Definition decode_chunk_x (d : dec enc) : chunk enc msg * list zev :=
  match inner_decode_chunk_x d with
  | (CPanic, z) => (KPanic, z)
  | (CErr st d', z) => (KErr st d', z)
  | (CNone d', z) => (KNone d', z)
  | (CSome p d', z) =>
      match deser p with
      | Some m => (KItem m (with_state d' ReadHeader), z)
      | None => (KErr st_decode d', z)
      end
  end.

(* Stream::poll_next *)
Fixpoint poll_next_x (evs : list bev) (g : bstat) (d : dec enc) {struct evs}
  : pres msg * dec enc * list bev * bstat * list zev :=
  match d_state d with
  | Error st =>
      (match st with Some e => Item (IErr e) | None => Done end, with_state d (Error None), evs, g, [])
  | _ =>
      match decode_chunk_x d with
      | (KPanic, z) => (Panic, d, evs, g, z)
      | (KItem m d1, z) => (Item (IOk m), d1, evs, g, z)
      | (KErr st d1, z) => (Item (IErr st), with_state d1 (Error None), evs, g, z)
      | (KNone d1, z) =>
          match evs with
          | [] =>
              let g' := end_poll g in
              match poll_frame AEnd d1 with
              | FNone d2 => let '(r, d3) := after_none d2 in (r, d3, [], g', z)
              | FErr st d2 => (Item (IErr st), with_state d2 (Error None), [], g', z)
              | _ => (Panic, d1, [], g', z)
              end
          | ev :: evs' =>
              match poll_frame (answer_of ev) d1 with
              | FPending => (Pending, d1, evs', g, z)
              | FPanic => (Panic, d1, evs', g, z)
              | FSome d2 => let '(r, d', evs'', g', z') := poll_next_x evs' g d2 in (r, d', evs'', g', z ++ z')
              | FNone d2 => let '(r, d3) := after_none d2 in (r, d3, evs', g, z)
              | FErr st d2 => (Item (IErr st), with_state d2 (Error None), evs', g, z)
              end
          end
      end
  end.

Fixpoint polls_x (n : nat) (evs : list bev) (g : bstat) (d : dec enc)
  : list (pres msg) * (dec enc * list bev * bstat) * list zev :=
  match n with
  | O => ([], (d, evs, g), [])
  | S k =>
      let '(r, d', evs', g', z) := poll_next_x evs g d in
      let '(tr, fin, z') := polls_x k evs' g' d' in
      (r :: tr, fin, z ++ z')
  end.

Fixpoint drain_x (fuel : nat) (evs : list bev) (g : bstat) (d : dec enc)
  : list (pres msg) * option (dec enc * list bev * bstat) * list zev :=
  match fuel with
  | O => ([], None, [])
  | S k =>
      let '(r, d', evs', g', z) := poll_next_x evs g d in
      match r with
      | Done => ([Done], Some (d', evs', g'), z)
      | _ => let '(tr, fin, z') := drain_x k evs' g' d' in (r :: tr, fin, z ++ z')
      end
  end.

(* ---- Streaming::message() / Streaming::trailers() ------------------------------------------------
   message() is poll_fn(poll_next).await: the caller's task is polled again after Pending.
   trailers():  if let Some(t) = self.inner.trailers.take() { return Ok(Some(t)) }
                while self.message().await?.is_some() {}
                if let Some(t) = self.inner.trailers.take() { return Ok(Some(t)) }
                Ok(None)
   [fuel] counts polls of poll_next (TFuel / None-of-fuel = the caller is still waiting). *)
Inductive mres := MSome (m : msg) | MNone | MErr (st : status) | MPanic | MFuel.

Fixpoint message_call (fuel : nat) (evs : list bev) (g : bstat) (d : dec enc)
  : mres * (dec enc * list bev * bstat) :=
  match fuel with
  | O => (MFuel, (d, evs, g))
  | S k =>
      let '(r, d', evs', g') := dec_poll deser decompress evs g d in
      match r with
      | Pending => message_call k evs' g' d'
      | Item (IOk m) => (MSome m, (d', evs', g'))
      | Item (IErr st) => (MErr st, (d', evs', g'))
      | Done => (MNone, (d', evs', g'))
      | Panic => (MPanic, (d', evs', g'))
      end
  end.

(* the loop of trailers(), flattened to polls: Some r = it left the loop early with r *)
Fixpoint drain_messages (fuel : nat) (evs : list bev) (g : bstat) (d : dec enc)
  : option tres * (dec enc * list bev * bstat) :=
  match fuel with
  | O => (Some TFuel, (d, evs, g))
  | S k =>
      let '(r, d', evs', g') := dec_poll deser decompress evs g d in
      match r with
      | Pending | Item (IOk _) => drain_messages k evs' g' d'
      | Item (IErr st) => (Some (TErr st), (d', evs', g'))
      | Done => (None, (d', evs', g'))
      | Panic => (Some TPanic, (d', evs', g'))
      end
  end.

Definition trailers_call (fuel : nat) (evs : list bev) (g : bstat) (d : dec enc)
  : tres * (dec enc * list bev * bstat) :=
  match d_trailers d with
  | Some t => (TSome t, (with_trailers d None, evs, g))
  | None =>
      match drain_messages fuel evs g d with
      | (Some r, fin) => (r, fin)
      | (None, (d', evs', g')) =>
          match d_trailers d' with
          | Some t => (TSome t, (with_trailers d' None, evs', g'))
          | None => (TNone, (d', evs', g'))
          end
      end
  end.

(* a caller using the two methods in any order *)
Inductive api_op := OpMessage | OpTrailers.
Inductive api_res := RMsg (r : mres) | RTrl (r : tres).
Fixpoint api_run (fuel : nat) (ops : list api_op) (evs : list bev) (g : bstat) (d : dec enc)
  : list api_res :=
  match ops with
  | [] => []
  | OpMessage :: ops' =>
      let '(r, (d', evs', g')) := message_call fuel evs g d in
      RMsg r :: match r with MPanic | MFuel => [] | _ => api_run fuel ops' evs' g' d' end
  | OpTrailers :: ops' =>
      let '(r, (d', evs', g')) := trailers_call fuel evs g d in
      RTrl r :: match r with TPanic | TFuel => [] | _ => api_run fuel ops' evs' g' d' end
  end.

End DecoderExt.

Arguments mres : clear implicits.
Arguments api_res : clear implicits.
Arguments MNone {msg}.
Arguments MErr {msg} st.
Arguments MPanic {msg}.
Arguments MFuel {msg}.
Arguments RTrl {msg} r.

(* ---- vocabulary of the statements ---------------------------------------------------------------- *)
Definition zcaps (z : list zev) : list N :=
  flat_map (fun e => match e with ZReserve c => [c] | ZOut _ => [] end) z.
Definition zouts (z : list zev) : list N :=
  flat_map (fun e => match e with ZOut n => [n] | ZReserve _ => [] end) z.
Definition nmax (l : list N) : N := fold_left N.max l 0.
(* a script: data chunks and Pending, then a body error [st], then whatever *)
Definition is_cancelled (st : status) : bool := st_code st =? Code_Cancelled.
(* the body has nothing more to give: only Pending events are left *)
Definition only_pending (evs : list bev) : Prop :=
  Forall (fun e => match e with BPending => True | _ => False end) evs.
Definition is_item {msg} (r : pres msg) : bool := match r with Item _ => true | _ => false end.

(* ---- executable instance and observables (correspondence harness h_decode) ------------------------ *)
(* allocation meter against the ghost logs - ONE-SIDED and property-shaped: how much spare capacity
   the code reserves (buffer growth strategy, the decompress() estimate, pre-reservation of a declared
   length) is deliberately NOT tied; only an upper bound that the property implies is.
   [A] largest single allocation observed, [R] largest declared length the model ACCEPTED (a refused
   length is never logged, so nothing of its size may be allocated), [Zo] largest decompressed output,
   [zpart] (passed by the harness, computed with the real libraries) the largest partial output of a
   decompression that then failed: nothing is allocated beyond a generous function of accepted
   lengths, received data, the buffer size and decompressed bytes. *)
Definition alloc_tie (R Zo zpart A data bs : N) : tr :=
  obool (A <=? 4 * R + 4 * data + 4 * N.max bs 1 + 1048576 + 4 * Zo + 4 * zpart).

Definition has_panic {msg} (t : list (pres msg)) : bool :=
  existsb (fun r => match r with Panic => true | _ => false end) t.

(* as Decoder.obs_decode_gen, over the extended tower; second component: the logs *)
Definition obs_decode_gen_x (deser : list N -> option (list N)) (dir : direction) (encoding : option N)
           (max : option N) (ztab : list (N * list N * option (list N))) (bs : N) (evs : list bev)
           (fuel extra : N) : tr * option (N * N * N) :=
  let dz := ztab_lookup ztab in
  let d0 := dec_new dir encoding max in
  match drain_x deser dz bs (N.to_nat fuel) evs (mkB 0) d0 with
  | (t1, None, _) => (Nd [Nd (map pres_obs t1 ++ [Nd [Nn 5]])], None)
  | (t1, Some (d1, evs1, g1), z1) =>
      let '(t2, (d2, _, g2), z2) := polls_x deser dz bs (N.to_nat extra) evs1 g1 d1 in
      if has_panic t2 then
        (Nd [Nd (map pres_obs t1); Nn (polls_after_end g1); Nd (map pres_obs (until_panic t2))], None)
      else
      (Nd [Nd (map pres_obs t1); Nn (polls_after_end g1); Nd (map pres_obs t2); Nn (polls_after_end g2)],
       Some (max_reserve (d_log d2), nmax (zcaps (z1 ++ z2)), nmax (zouts (z1 ++ z2))))
  end.

(* what h_decode compares for the poll-level kinds *)
Definition obs_case_x (ptab : option (list (list N * option (list N)))) (dir : direction)
           (encoding : option N) (max : option N) (ztab : list (N * list N * option (list N)))
           (evs : list bev) (fuel extra A data bs zpart : N) : tr :=
  let deser := match ptab with Some t => ptab_lookup t | None => deser_raw end in
  let '(o, r) := obs_decode_gen_x deser dir encoding max ztab bs evs fuel extra in
  Nd [o; match r with Some (R, _, Zo) => alloc_tie R Zo zpart A data bs | None => obool true end].

(* kinds api.*: a caller of Streaming::message() / Streaming::trailers() *)
Definition mres_obs (r : mres (list N)) : tr :=
  match r with
  | MSome m => Nd [Nn 1; Bs m]
  | MErr st => Nd [Nn 2; Nn (st_code st)]
  | MNone => Nd [Nn 3]
  | MPanic => Nd [Nn 4]
  | MFuel => Nd [Nn 5]
  end.
Definition tres_obs (r : tres) : tr :=
  match r with
  | TSome t => Nd [Nn 6; hm_canon t]
  | TNone => Nd [Nn 7]
  | TErr st => Nd [Nn 2; Nn (st_code st)]
  | TPanic => Nd [Nn 4]
  | TFuel => Nd [Nn 5]
  end.
Definition api_obs (r : api_res (list N)) : tr :=
  match r with RMsg m => mres_obs m | RTrl t => tres_obs t end.
Definition obs_api (ptab : option (list (list N * option (list N)))) (dir : direction)
           (encoding : option N) (max : option N) (ztab : list (N * list N * option (list N)))
           (evs : list bev) (fuel : N) (ops : list api_op) : tr :=
  let deser := match ptab with Some t => ptab_lookup t | None => deser_raw end in
  Nd (map api_obs (api_run deser (ztab_lookup ztab) (N.to_nat fuel) ops evs (mkB 0)
                           (dec_new dir encoding max))).
