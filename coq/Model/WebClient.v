(* Model of the grpc-web CLIENT side of crate tonic-web (tonic-web/src/call.rs):
     GrpcWebCall::poll_frame, branch [self.client && self.direction == Direction::Decode]
     find_trailers, split_trailers_frame, decode_trailers_frame, poll_decode (Encoding::None)
   and of the pieces of http::HeaderName / HeaderValue / HeaderMap it relies on.
   The wrapped body is a script ([list ev], Model/WebServer.v); after the script it answers
   End for ever and the model counts how often it is asked.
   The loop of poll_frame is NOT structural in the script (an iteration may hand out buffered
   data without consuming an event), so it carries explicit fuel and returns [OOutOfFuel] when
   it runs out; Proofs/WebClient.v shows that [length script + 3] is always enough.
   No proofs in this file. *)
From Verif Require Import Lib.Bytes Lib.Obs Lib.BE32 Lib.HeaderMap Lib.Percent.
From Verif Require Import Model.Frame Model.WebServer.
Open Scope N_scope.

(* ---------- the wrapped (inner) body ---------- *)
Record inner := mkInner {
  i_evs : list ev;          (* script still to be played *)
  i_polls : N;              (* polls performed so far *)
  i_ends : N                (* how many of them were answered End *)
}.
Definition mk_inner (evs : list ev) : inner := mkInner evs 0 0.

Definition poll_inner (i : inner) : answer * inner :=
  match i_evs i with
  | [] => (AEnd, mkInner [] (i_polls i + 1) (i_ends i + 1))
  | e :: r => (answer_of e, mkInner r (i_polls i + 1) (i_ends i))
  end.

(* ---------- errors (all are Status::internal; the number is the class) ---------- *)
Inductive werr :=
| E_DataAfterTrailers        (* 1 "unexpected data after trailers" *)
| E_BadFlag (flag : N)       (* 2 "Invalid header bit {flag} expected 0 or 1" *)
| E_EOF                      (* 3 "unexpected EOF, incomplete frame" *)
| E_Inner                    (* 4 the error of the wrapped body *)
| E_NoValue                  (* 5 "trailers couldn't parse value" (no ':' in a line) *)
| E_Name                     (* 6 "Unable to parse HeaderName" *)
| E_Value                    (* 7 "Unable to parse HeaderValue" *)
| E_NoTrailers.              (* 8 "unexpected EOF, missing trailers" (fix c815a16a; only [iter_x] below produces it) *)

(* ---------- find_trailers ---------- *)
Inductive ft :=
| FT_Trailer (n : N)
| FT_Incomplete
| FT_Done (n : N)
| FT_Err (flag : N)
| FT_Fuel.                   (* not a result of the Rust function: the model's loop bound *)

(* one iteration per frame header; [buf] is the whole buffer, [len] the offset reached *)
Fixpoint find_trailers_loop (fuel : nat) (buf : list N) (len : N) : ft :=
  match fuel with
  | O => FT_Fuel
  | S f =>
      match ndrop len buf with
      | header :: a :: b :: c :: d :: _ =>
          if header =? GRPC_WEB_TRAILERS_BIT then FT_Trailer len
          else if negb ((header =? 0) || (header =? 1)) then FT_Err header
          else
            let msg_len := un_be32 a b c d in
            let len' := len + (msg_len + 4 + 1) in
            if nlen buf <? len' then FT_Incomplete
            else find_trailers_loop f buf len'
      | _ => FT_Done len                       (* fewer than GRPC_HEADER_SIZE bytes left *)
      end
  end.
Definition find_trailers (buf : list N) : ft := find_trailers_loop (S (length buf)) buf 0.

(* ---------- split_trailers_frame: (frame, rest) once all of the frame is buffered ---------- *)
Definition split_trailers_frame (buf : list N) : option (list N * list N) :=
  match buf with
  | _ :: a :: b :: c :: d :: rest =>
      let len := un_be32 a b c d in
      if nlen rest <? len then None
      else Some (ntake (5 + len) buf, ndrop (5 + len) buf)
  | _ => None
  end.

(* ---------- http::HeaderName::from_bytes / HeaderValue::from_bytes ---------- *)
(* table HEADER_CHARS of crate http: 0 = illegal, upper case is mapped to lower case *)
Definition header_char (b : N) : N :=
  if is_upper b then b + 32
  else if is_lower b || is_digit b then b
  else if existsb (N.eqb b) [33; 35; 36; 37; 38; 39; 42; 43; 45; 46; 94; 95; 96; 124; 126] then b
  else 0.
Definition MAX_HEADER_NAME_LEN : N := 65535.
Definition header_name (k : list N) : option (list N) :=
  if (nlen k =? 0) || (MAX_HEADER_NAME_LEN <? nlen k) then None
  else
    let m := map header_char k in
    if existsb (N.eqb 0) m then None else Some m.

(* HeaderMap::append panics ("size overflows MAX_SIZE") when the map already holds this many
   distinct names: raw capacity 2^15, usable_capacity = cap - cap/4 *)
Definition HM_MAX_NAMES : N := 24576.

(* ---------- decode_trailers_frame ---------- *)
(* the pieces before each "\r\n"; what follows the last delimiter is a line as well when
   it is not empty (fix 2b86d6f6) *)
Fixpoint split_crlf (cur : list N) (l : list N) : list (list N) :=
  match l with
  | [] => match cur with [] => [] | _ => [rev cur] end
  | x :: r =>
      match r with
      | y :: r' =>
          if (x =? 13) && (y =? 10) then rev cur :: split_crlf [] r'
          else split_crlf (x :: cur) r
      | [] => [rev (x :: cur)]
      end
  end.

(* trailer.splitn(2, ':') *)
Fixpoint split_colon (l : list N) : list N * option (list N) :=
  match l with
  | [] => ([], None)
  | x :: r =>
      if x =? 58 then ([], Some r)
      else let '(k, v) := split_colon r in (x :: k, v)
  end.

Fixpoint before_cr (l : list N) : list N :=
  match l with
  | [] => []
  | x :: r => if x =? 13 then [] else x :: before_cr r
  end.

(* value.split('\r').next().strip_prefix(" ").unwrap_or(value) *)
Definition trailer_value (value : list N) : list N :=
  match before_cr value with
  | x :: r => if x =? 32 then r else value
  | [] => value
  end.

Inductive dres :=
| DOk (t : option hm)
| DErr (e : werr)
| DPanic.

Fixpoint decode_lines (lines : list (list N)) (map : hm) (names : N) : dres :=
  match lines with
  | [] => DOk (Some map)
  | trailer :: r =>
      match split_colon trailer with
      | (_, None) => DErr E_NoValue
      | (key, Some value) =>
          let value := trailer_value value in
          match header_name key with
          | None => DErr E_Name
          | Some k =>
              if negb (hv_ok value) then DErr E_Value
              else if names =? HM_MAX_NAMES then DPanic
              else decode_lines r (hm_append map k value)
                                (if hm_contains map k then names else names + 1)
          end
      end
  end.

Definition decode_trailers_frame (buf : list N) : dres :=
  if nlen buf <? 5 then DOk None
  else decode_lines (split_crlf [] (ndrop 5 buf)) [] 0.

(* ---------- GrpcWebCall state (client, response direction) ---------- *)
Inductive direction := Decode | Empty.
Record st := mkSt {
  decoded : list N;
  trailers : option hm;
  inner_done : bool;
  dir : direction
}.
Definition init : st := mkSt [] None false Decode.

Definition set_decoded (s : st) (d : list N) : st := mkSt d (trailers s) (inner_done s) (dir s).
Definition set_trailers (s : st) (t : option hm) : st := mkSt (decoded s) t (inner_done s) (dir s).
Definition set_done (s : st) : st := mkSt (decoded s) (trailers s) true (dir s).
Definition set_empty (s : st) : st := mkSt (decoded s) (trailers s) (inner_done s) Empty.

Inductive out :=
| OPending
| OData (d : list N)
| OTrailers (t : hm)
| OErr (e : werr)
| ONone
| OOutOfFuel                 (* the loop did not come to a result: a busy loop *)
| OPanic.

(* first half of a loop iteration: hand out what is buffered *)
Inductive hand :=
| HRet (o : out) (s : st)    (* return *)
| HCont (s : st)             (* `continue` *)
| HFall (s : st).            (* fall through to the inner_done check / the poll *)

Definition nonempty (l : list N) : bool := match l with [] => false | _ => true end.

Definition hand_out (s : st) : hand :=
  if nonempty (decoded s) then
    match trailers s with
    | Some _ => HRet (OErr E_DataAfterTrailers) (set_empty s)
    | None =>
        match find_trailers (decoded s) with
        | FT_Trailer n =>
            if n =? 0 then
              match split_trailers_frame (decoded s) with
              | Some (frame, rest) =>
                  match decode_trailers_frame frame with
                  | DOk t => HCont (set_trailers (set_decoded s rest) t)
                  | DErr e => HRet (OErr e) (set_empty (set_decoded s rest))
                  | DPanic => HRet OPanic (set_decoded s rest)
                  end
              | None => HFall s
              end
            else if nlen (decoded s) <? n then HRet OPanic s            (* split_to out of bounds *)
            else HRet (OData (ntake n (decoded s))) (set_decoded s (ndrop n (decoded s)))
        | FT_Done n =>
            if n =? 0 then HFall s
            else if nlen (decoded s) <? n then HRet OPanic s
            else HRet (OData (ntake n (decoded s))) (set_decoded s (ndrop n (decoded s)))
        | FT_Incomplete => HFall s
        | FT_Err flag => HRet (OErr (E_BadFlag flag)) (set_empty s)
        | FT_Fuel => HRet OOutOfFuel s
        end
    end
  else HFall s.

Inductive step :=
| Ret (o : out) (s : st) (i : inner)
| Cont (s : st) (i : inner).

(* one iteration of the `loop` in poll_frame *)
Definition iter (s : st) (i : inner) : step :=
  match hand_out s with
  | HRet o s' => Ret o s' i
  | HCont s' => Cont s' i
  | HFall s =>
      if inner_done s then
        if nonempty (decoded s) then Ret (OErr E_EOF) (set_empty s) i
        else
          match trailers s with
          | Some t => Ret (OTrailers t) (set_trailers s None) i
          | None => Ret ONone s i
          end
      else
        let '(a, i') := poll_inner i in
        match a with
        | APending => Ret OPending s i'
        | AData d => Cont (set_decoded s (decoded s ++ d)) i'
        | ATrailers t =>
            Cont (set_trailers s (Some match trailers s with
                                       | Some cur => hm_extend cur t
                                       | None => t
                                       end)) i'
        | AEnd => Cont (set_done s) i'
        | AErr => Ret (OErr E_Inner) (set_empty s) i'
        end
  end.

Fixpoint loop (fuel : nat) (s : st) (i : inner) : out * st * inner :=
  match fuel with
  | O => (OOutOfFuel, s, i)
  | S f =>
      match iter s i with
      | Ret o s' i' => (o, s', i')
      | Cont s' i' => loop f s' i'
      end
  end.

(* Body::poll_frame of GrpcWebCall (client response) *)
Definition poll_frame (fuel : nat) (s : st) (i : inner) : out * st * inner :=
  match dir s with
  | Decode => loop fuel s i
  | Empty => (ONone, s, i)
  end.

(* fuel that is always enough (Proofs/WebClient.v, loop_fuel_enough) *)
Definition fuel_of (i : inner) : nat := (length (i_evs i) + 3)%nat.

(* ---------- a consumer ---------- *)
(* poll until the body ends or fails; Pending results are re-polled and not recorded;
   [n] bounds the number of polls *)
Fixpoint drain (n : nat) (s : st) (i : inner) : list out * st * inner :=
  match n with
  | O => ([OOutOfFuel], s, i)
  | S n' =>
      match poll_frame (fuel_of i) s i with
      | (OPending, s', i') => drain n' s' i'
      | (OData d, s', i') => let '(l, s'', i'') := drain n' s' i' in (OData d :: l, s'', i'')
      | (OTrailers t, s', i') => let '(l, s'', i'') := drain n' s' i' in (OTrailers t :: l, s'', i'')
      | (o, s', i') => ([o], s', i')
      end
  end.

(* [k] further polls, every result recorded *)
Fixpoint polls (k : nat) (s : st) (i : inner) : list out * st * inner :=
  match k with
  | O => ([], s, i)
  | S k' =>
      let '(o, s', i') := poll_frame (fuel_of i) s i in
      let '(l, s'', i'') := polls k' s' i' in (o :: l, s'', i'')
  end.

(* polls that can be needed: each one consumes an event, hands out at least one frame
   (5 bytes or more), or is one of the last two *)
Definition poll_cap (evs : list ev) : nat :=
  (length evs + length (concat (datas evs)) / 5 + 4)%nat.

Definition run (evs : list ev) : list out := fst (fst (drain (poll_cap evs) init (mk_inner evs))).

(* ---------- observables ---------- *)
Definition werr_tr (e : werr) : tr :=
  match e with
  | E_DataAfterTrailers => Nd [Nn 1]
  | E_BadFlag f => Nd [Nn 2; Nn f]
  | E_EOF => Nd [Nn 3]
  | E_Inner => Nd [Nn 4]
  | E_NoValue => Nd [Nn 5]
  | E_Name => Nd [Nn 6]
  | E_Value => Nd [Nn 7]
  | E_NoTrailers => Nd [Nn 8]
  end.
Definition out_tr (o : out) : tr :=
  match o with
  | ONone => Nd [Nn 0]
  | OData d => if BIG <? nlen d then Nd [Nn 5; Nn (nlen d); Nn (digest d)] else Nd [Nn 1; Bs d]
  | OTrailers t => Nd [Nn 2; hm_canon t]
  | OErr e => Nd [Nn 3; werr_tr e]
  | OPending => Nd [Nn 4]
  | OOutOfFuel => Nd [Nn 98]
  | OPanic => Nd [Nn 99]
  end.

Definition is_final (o : out) : bool :=
  match o with ONone | OErr _ => true | _ => false end.

(* what the harness records: the drained items, two further polls after the end or the
   error (nothing further after a panic or a hang), polls of the wrapped body, and how
   many of them were answered End *)
Definition obs_client (evs : list ev) : tr :=
  let '(l, s, i) := drain (poll_cap evs) init (mk_inner evs) in
  let '(l2, s2, i2) := if is_final (last l OPanic) then polls 2 s i else ([], s, i) in
  Nd [olist out_tr l; olist out_tr l2; Nn (i_polls i2); Nn (i_ends i2)].

(* ---------- a hyper-like consumer (Body::is_end_stream) ---------- *)
(* GrpcWebCall::is_end_stream (fix f0f96413): in the Decode direction the stream has ended only
   once the wrapped body has AND nothing is buffered any more (the client never uses [buf]) *)
Definition call_is_end_stream (mode : N) (s : st) (i : inner) : bool :=
  match dir s with
  | Empty => true
  | Decode =>
      inner_eos mode (i_evs i) && negb (nonempty (decoded s))
      && match trailers s with None => true | Some _ => false end
  end.

(* a consumer that, like hyper, asks is_end_stream() before the first poll and after every data
   frame and stops when it is true; trailers, the end and errors stop it as well *)
Fixpoint hyper_client (n : nat) (mode : N) (s : st) (i : inner) : list out * bool * st * inner :=
  match n with
  | O => ([OOutOfFuel], false, s, i)
  | S n' =>
      match poll_frame (fuel_of i) s i with
      | (OPending, s', i') => hyper_client n' mode s' i'
      | (OData d, s', i') =>
          if call_is_end_stream mode s' i' then ([OData d], true, s', i')
          else let '(l, b, s'', i'') := hyper_client n' mode s' i' in (OData d :: l, b, s'', i'')
      | (o, s', i') => ([o], false, s', i')
      end
  end.

(* what that consumer takes, whether is_end_stream stopped it, and - the contract of
   http_body::Body::is_end_stream - what further polling would still have produced *)
Definition obs_client_hyper (mode : N) (evs : list ev) : tr :=
  if call_is_end_stream mode init (mk_inner evs) then
    Nd [Nd []; Nn 1; olist out_tr (fst (fst (drain (poll_cap evs) init (mk_inner evs))))]
  else
    let '(l, b, s, i) := hyper_client (poll_cap evs) mode init (mk_inner evs) in
    Nd [olist out_tr l; obool b;
        olist out_tr (if b then fst (fst (drain (poll_cap evs) s i)) else [])].

(* the trailers block alone *)
Definition dres_tr (d : dres) : tr :=
  match d with
  | DOk None => Nd [Nn 0]
  | DOk (Some t) => Nd [Nn 1; hm_canon t]
  | DErr e => Nd [Nn 3; werr_tr e]
  | DPanic => Nd [Nn 99]
  end.

(* the request direction of the client layer (not part of C17, tied only): the version is
   coerced to HTTP/1.1, the content-type is set, the body passes through poll_encode *)
Definition obs_client_request (version : N) (evs : list ev) : tr :=
  Nd [Nn (if version =? HTTP_2 then 2 else version); Bs GRPC_WEB; obs_response NoEnc evs].

(* a trailers frame with [n] lines of distinct valid names (Proofs/WebClient.v,
   decode_many_names): the map overflows beyond HM_MAX_NAMES *)
Definition obs_many_names (n : N) : tr :=
  if HM_MAX_NAMES <? n then Nd [Nn 99] else Nd [Nn 1; Nn n].

(* [n] distinct header names "x" ++ base-26 digits, for the HeaderMap capacity witness *)
Fixpoint name_digits (k : nat) (i : N) : list N :=
  match k with O => [] | S k' => (97 + i mod 26) :: name_digits k' (i / 26) end.
Definition nth_name (i : N) : list N := 120 :: name_digits 4 i.
Fixpoint many_lines (n : nat) (i : N) : hm :=
  match n with O => [] | S n' => (nth_name i, [49]) :: many_lines n' (i + 1) end.

(* ==========================================================================================
   THE CURRENT CODE (second audit; fixes c815a16a and 2dcb76d4).
   The definitions above model GrpcWebCall as it was before fix c815a16a and are kept as they
   are (Props/C16.v states a theorem about [run]; on complete bodies [run] and [run_x] agree,
   Proofs/WebClient.v run_x_run).  What follows is the model of the code as it is now and is what
   the harness h_webclient evaluates:
     - the field `expect_trailers` (fix c815a16a): set when message frames are handed out; at the
       end of the wrapped body, with nothing buffered and no trailers, it turns the clean end into
       Err("unexpected EOF, missing trailers"); handing out the trailers sets the direction to
       Empty; is_end_stream additionally requires !expect_trailers;
     - `current_trailers.extend(trailers)` (HTTP trailers of the wrapped body merged into the
       trailers of an in-body trailers frame) can overflow http::HeaderMap: explicit OPanic;
     - Body::size_hint (fix 2dcb76d4);
     - the caller's view: tonic's client::Grpc / Streaming (Model/Call.v, Model/Decoder.v)
       reading the body that this layer returns ([obs_stack]).
   ========================================================================================== *)
From Verif Require Gen.StatusTables Model.Status Model.Decoder Model.Call.

(* ---------- HeaderMap::extend(HeaderMap) ---------- *)
(* the distinct names of a map in the order of their first occurrence: the buckets of
   http::HeaderMap, and the order in which `extend` meets the names of its argument *)
Definition names_of (m : hm) : list hname :=
  fold_left (fun acc e => if existsb (bytes_eqb (fst e)) acc then acc else acc ++ [fst e]) m [].

(* Extend<(Option<HeaderName>, T)>::extend: the up-front reserve is clamped to the capacity and
   cannot fail; every NAMED item then goes through try_entry2, which starts with
   try_reserve_one: with HM_MAX_NAMES names in the map that has to grow beyond MAX_SIZE and
   `.expect("size overflows MAX_SIZE")` fires - for a name the map already holds as well.
   [known] = the names in the map, [ks] = the names still to come.  true = panic *)
Fixpoint extend_walk (known : list hname) (ks : list hname) : bool :=
  match ks with
  | [] => false
  | k :: r =>
      if nlen known =? HM_MAX_NAMES then true
      else extend_walk (if existsb (bytes_eqb k) known then known else known ++ [k]) r
  end.
Definition extend_panics (cur t : hm) : bool := extend_walk (names_of cur) (names_of t).

(* ---------- GrpcWebCall state with `expect_trailers` ---------- *)
Record xst := mkX {
  xs : st;                   (* decoded, trailers, inner_done, direction *)
  expect : bool              (* expect_trailers *)
}.
Definition init_x : xst := mkX init false.
Definition x_with (X : xst) (s : st) : xst := mkX s (expect X).

Inductive hand_x :=
| XRet (o : out) (X : xst)
| XCont (X : xst)
| XFall (X : xst).

(* the first half of a loop iteration ([hand_out]); the branch that hands out message frames
   also sets `*this.expect_trailers = true` *)
Definition hand_out_x (X : xst) : hand_x :=
  match hand_out (xs X) with
  | HRet (OData d) s' => XRet (OData d) (mkX s' true)
  | HRet o s' => XRet o (x_with X s')
  | HCont s' => XCont (x_with X s')
  | HFall s' => XFall (x_with X s')
  end.

Inductive step_x :=
| RetX (o : out) (X : xst) (i : inner)
| ContX (X : xst) (i : inner).

(* one iteration of the `loop` in poll_frame, every branch *)
Definition iter_x (X : xst) (i : inner) : step_x :=
  match hand_out_x X with
  | XRet o X' => RetX o X' i
  | XCont X' => ContX X' i
  | XFall X =>
      let s := xs X in
      if inner_done s then
        if nonempty (decoded s) then RetX (OErr E_EOF) (x_with X (set_empty s)) i
        else
          match trailers s with
          | Some t => RetX (OTrailers t) (x_with X (set_empty (set_trailers s None))) i
          | None =>
              if expect X then RetX (OErr E_NoTrailers) (x_with X (set_empty s)) i
              else RetX ONone X i
          end
      else
        let '(a, i') := poll_inner i in
        match a with
        | APending => RetX OPending X i'
        | AData d => ContX (x_with X (set_decoded s (decoded s ++ d))) i'
        | ATrailers t =>
            match trailers s with
            | Some cur =>
                if extend_panics cur t then RetX OPanic X i'
                else ContX (x_with X (set_trailers s (Some (hm_extend cur t)))) i'
            | None => ContX (x_with X (set_trailers s (Some t))) i'
            end
        | AEnd => ContX (x_with X (set_done s)) i'
        | AErr => RetX (OErr E_Inner) (x_with X (set_empty s)) i'
        end
  end.

Fixpoint loop_x (fuel : nat) (X : xst) (i : inner) : out * xst * inner :=
  match fuel with
  | O => (OOutOfFuel, X, i)
  | S f =>
      match iter_x X i with
      | RetX o X' i' => (o, X', i')
      | ContX X' i' => loop_x f X' i'
      end
  end.

(* Body::poll_frame of GrpcWebCall (client response), as it is now *)
Definition poll_frame_x (fuel : nat) (X : xst) (i : inner) : out * xst * inner :=
  match dir (xs X) with
  | Decode => loop_x fuel X i
  | Empty => (ONone, X, i)
  end.

Fixpoint drain_x (n : nat) (X : xst) (i : inner) : list out * xst * inner :=
  match n with
  | O => ([OOutOfFuel], X, i)
  | S n' =>
      match poll_frame_x (fuel_of i) X i with
      | (OPending, X', i') => drain_x n' X' i'
      | (OData d, X', i') => let '(l, X'', i'') := drain_x n' X' i' in (OData d :: l, X'', i'')
      | (OTrailers t, X', i') => let '(l, X'', i'') := drain_x n' X' i' in (OTrailers t :: l, X'', i'')
      | (o, X', i') => ([o], X', i')
      end
  end.

Fixpoint polls_x (k : nat) (X : xst) (i : inner) : list out * xst * inner :=
  match k with
  | O => ([], X, i)
  | S k' =>
      let '(o, X', i') := poll_frame_x (fuel_of i) X i in
      let '(l, X'', i'') := polls_x k' X' i' in (o :: l, X'', i'')
  end.

Definition run_x (evs : list ev) : list out :=
  fst (fst (drain_x (poll_cap evs) init_x (mk_inner evs))).

(* ---------- Body::size_hint (fix 2dcb76d4) ---------- *)
(* the client response body never forwards the hint of the wrapped body (its DATA is the
   wrapped body's minus the trailers frame): SizeHint::default() while decoding, exactly 0 once
   the direction is Empty *)
Definition call_size_hint (X : xst) : N * option N :=
  match dir (xs X) with
  | Empty => (0, Some 0)
  | Decode => (0, None)
  end.
Definition hint_obs (h : N * option N) : tr := Nd [Nn (fst h); oopt Nn (snd h)].

(* what the harness records (compare [obs_client]): in addition the size hint before the first
   poll and after the last one *)
Definition obs_client_x (evs : list ev) : tr :=
  let '(l, X, i) := drain_x (poll_cap evs) init_x (mk_inner evs) in
  let '(l2, X2, i2) := if is_final (last l OPanic) then polls_x 2 X i else ([], X, i) in
  Nd [olist out_tr l; olist out_tr l2; Nn (i_polls i2); Nn (i_ends i2);
      hint_obs (call_size_hint init_x); hint_obs (call_size_hint X2)].

(* ---------- Body::is_end_stream, as it is now ---------- *)
Definition call_is_end_stream_x (mode : N) (X : xst) (i : inner) : bool :=
  match dir (xs X) with
  | Empty => true
  | Decode =>
      inner_eos mode (i_evs i) && negb (nonempty (decoded (xs X)))
      && match trailers (xs X) with None => true | Some _ => false end
      && negb (expect X)
  end.

(* the hyper-like consumer *)
Fixpoint hyper_client_x (n : nat) (mode : N) (X : xst) (i : inner) : list out * bool * xst * inner :=
  match n with
  | O => ([OOutOfFuel], false, X, i)
  | S n' =>
      match poll_frame_x (fuel_of i) X i with
      | (OPending, X', i') => hyper_client_x n' mode X' i'
      | (OData d, X', i') =>
          if call_is_end_stream_x mode X' i' then ([OData d], true, X', i')
          else let '(l, b, X'', i'') := hyper_client_x n' mode X' i' in (OData d :: l, b, X'', i'')
      | (o, X', i') => ([o], false, X', i')
      end
  end.
Definition obs_client_hyper_x (mode : N) (evs : list ev) : tr :=
  if call_is_end_stream_x mode init_x (mk_inner evs) then
    Nd [Nd []; Nn 1; olist out_tr (fst (fst (drain_x (poll_cap evs) init_x (mk_inner evs))))]
  else
    let '(l, b, X, i) := hyper_client_x (poll_cap evs) mode init_x (mk_inner evs) in
    Nd [olist out_tr l; obool b;
        olist out_tr (if b then fst (fst (drain_x (poll_cap evs) X i)) else [])].

(* the capacity of HeaderMap::extend: an in-body trailers frame with [n] distinct names, then
   HTTP trailers of the wrapped body with one name - a new one ([fresh]) or the first of the
   frame.  Proofs/WebClient.v (extend_capacity) shows that this is what [run_x] gives. *)
Definition obs_extend_capacity (n : N) (fresh : bool) : tr :=
  if HM_MAX_NAMES <=? n then Nd [Nn 99]
  else Nd [Nn 1; Nn (if fresh || (n =? 0) then n + 1 else n)].

(* ---------- the caller's view: tonic's client over this body ---------- *)
Module StackTexts.
Import String.
Local Open Scope string_scope.
Definition T_AFTER : list N := Eval vm_compute in bytes_of_string "tonic-web: unexpected data after trailers".
Definition T_FLAG : list N := Eval vm_compute in bytes_of_string "Invalid header bit ".
Definition T_EOF : list N := Eval vm_compute in bytes_of_string "tonic-web: unexpected EOF, incomplete frame".
Definition T_INNER : list N := Eval vm_compute in bytes_of_string "tonic-web: ".
Definition T_NOVALUE : list N := Eval vm_compute in bytes_of_string "trailers couldn't parse value".
Definition T_NAME : list N := Eval vm_compute in bytes_of_string "Unable to parse HeaderName: ".
Definition T_VALUE : list N := Eval vm_compute in bytes_of_string "Unable to parse HeaderValue: ".
Definition T_NOTRAILERS : list N := Eval vm_compute in bytes_of_string "tonic-web: unexpected EOF, missing trailers".
End StackTexts.
Export StackTexts.

(* the Status that an error of this body is: always INTERNAL; of its message the fixed prefix
   (the harness cuts the implementation's message after the same prefix) *)
Definition werr_text (e : werr) : list N :=
  match e with
  | E_DataAfterTrailers => T_AFTER
  | E_BadFlag _ => T_FLAG
  | E_EOF => T_EOF
  | E_Inner => T_INNER
  | E_NoValue => T_NOVALUE
  | E_Name => T_NAME
  | E_Value => T_VALUE
  | E_NoTrailers => T_NOTRAILERS
  end.
Definition werr_status (e : werr) : Status.status :=
  Status.mkStatus StatusTables.Code_Internal (werr_text e) [] [].

(* the frames a consumer gets from this body, as a scripted body for Model/Decoder.v: the
   items of [run_x] up to the first None / Err; afterwards the body answers None for ever
   (c17_webc_error_final, c17_webc_end_final), which is what a script that has run out does *)
Definition bev_of (o : out) : list Decoder.bev :=
  match o with
  | OData d => [Decoder.BData d]
  | OTrailers t => [Decoder.BTrailers t]
  | OErr e => [Decoder.BErr (werr_status e)]
  | _ => []
  end.
Definition is_abort (o : out) : bool :=
  match o with OPanic | OOutOfFuel => true | _ => false end.
Definition data_len (o : out) : nat := match o with OData d => length d | _ => O end.
Definition stack_fuel (items : list out) : nat :=
  (2 * length items + list_sum (map data_len items) / 5 + 6)%nat.

(* the client API over a scripted body, default configuration, identity codec *)
Definition stack_unary (http : N) (headers : hm) (script : list Decoder.bev) (fuel : nat)
  : Call.client_result (list N) :=
  Call.client_call (list N) Call.deser_id Call.no_decompress Call.default_side Call.Unary
    http headers script fuel.

Inductive stream_result :=
| SRErr (st : Status.status)                       (* server_streaming() itself failed *)
| SRStream (md : hm) (ms : list (list N)) (e : Status.status + option hm)
                                                   (* the messages; then the status that ended the
                                                      stream, or Ok and what trailers() gives *)
| SRHang
| SRPanic.
Definition stack_streaming (http : N) (headers : hm) (script : list Decoder.bev) (fuel : nat)
  : stream_result :=
  match Call.create_response Call.default_side http headers with
  | Call.CrePanic => SRPanic
  | Call.CreErr st => SRErr st
  | Call.CreStream d0 =>
      let '(ms, c) := Call.collect (list N) Call.deser_id Call.no_decompress fuel script
                        (Decoder.mkB 0) d0 in
      match c with
      | Call.CEnd d' _ _ => SRStream headers ms (inr (Decoder.d_trailers d'))
      | Call.CErr st _ _ _ => SRStream headers ms (inl st)
      | Call.CUnread | Call.CHang => SRHang
      | Call.CPanic => SRPanic
      end
  end.
Definition stream_result_obs (r : stream_result) : tr :=
  match r with
  | SRErr st => Nd [Nn 0; Call.status_obs2 st]
  | SRStream md ms (inr t) => Nd [Nn 2; hm_canon md; Nd (map Bs ms); Nd [Nn 0; oopt hm_canon t]]
  | SRStream md ms (inl st) => Nd [Nn 2; hm_canon md; Nd (map Bs ms); Nd [Nn 1; Call.status_obs2 st]]
  | SRHang => Nd [Nn 8]
  | SRPanic => Nd [Nn 9]
  end.

(* tonic::client::Grpc over GrpcWebClientService over an inner service that answers HTTP status
   [http], headers [headers] and the scripted body [evs].
   [shn] = 0: unary() - the message with the merged metadata, or the status;
   otherwise: server_streaming() read to its end with message(), then trailers() *)
Definition obs_stack (shn http : N) (headers : hm) (evs : list ev) : tr :=
  let items := run_x evs in
  if existsb is_abort items then Nd [Nn 9]
  else
    let script := flat_map bev_of items in
    let fuel := stack_fuel items in
    if shn =? 0 then Call.result_obs (stack_unary http headers script fuel)
    else stream_result_obs (stack_streaming http headers script fuel).
