(* Model of the shutdown bookkeeping of tonic/src/transport/server/mod.rs
   (serve_internal, serve_connection, Fuse) as a labelled transition system.

   serve_internal (graceful = true, i.e. serve_with_incoming_shutdown / serve_with_shutdown):

       let (signal_tx, signal_rx) = watch::channel(());             rx_count = 1, version = 0
       let mut sig = pin!(Fuse { inner: signal });                  sig_fused = false
       loop { select! { biased;                                     acc = Selecting
           _ = &mut sig => break,                                   SignalObserved
           io = incoming.next() => match io {
               Some(Ok(io))  => serve_connection(.., Some(signal_rx.clone()), ..),   Accept c
               Some(Err(_))  => continue,                           IncomingErr
               None          => break } } }                         IncomingEnd
       let _ = signal_tx.send(());                                  Send            (Draining AtSend)
       drop(signal_rx);                                             DropAcceptorRx  (Draining AtDrop)
       signal_tx.closed().await;                                    ServeReturns    (Draining AtWait)
       Ok(())                                                       (Done)

   serve_connection (one spawned task per accepted connection, owning one watch receiver):

       let mut sig = pin!(Fuse { inner: watcher.changed() });       fused = false
       loop { select! {
           rv = &mut conn  => break,                                ConnCloses c / PeerAbort c
           _ = &mut sleep  => conn.graceful_shutdown(),             AgeExpires c      (max_connection_age)
           _ = &mut sig    => conn.graceful_shutdown() } }          ConnSeesChange c
       drop(watcher);                                               DropReceiver c

   The signal itself is the environment's: SignalFires makes the (user supplied) signal future
   ready; SignalObserved is the later moment at which the accept loop's task is polled and its
   select! takes the branch.  The select! is `biased;` with the signal branch first (since the fix
   of finding F-C13a; before, the branch order was random and a ready listener won against a ready
   signal half of the time, again and again): every iteration polls the signal first and polls
   the listener only if the signal is still pending.  So Accept, IncomingErr and IncomingEnd are
   enabled only while [sig_ready = false]: between SignalFires and SignalObserved the loop has no
   move but SignalObserved.

   hyper's side of graceful_shutdown is explicit as well, because it is visible on the wire:
   Goaway c (the GOAWAY announcement with last-stream-id 2^31-1, written once graceful_shutdown
   was called on an established connection) and GoawayFinal c (the second GOAWAY carrying the real
   last stream id, written after the peer acknowledged the shutdown ping; from then on hyper
   admits no stream).

   [MakeSvc::poll_ready] is always Ready(Ok) and [MakeSvc::call] is [future::ready(Ok(..))], so the
   two [?] between "connection accepted" and [serve_connection] cannot return early; Accept is one
   step.  Every clone of [signal_rx] carries the version the original was created with (nobody
   ever calls [changed]/[borrow_and_update] on the original), so a connection's [changed()] is
   ready exactly when [version <> 0].

   What hyper does with a connection is not tonic's code: it enters through two functions, which
   are variables of the section in Proofs/Shutdown.v with hyper's contract as hypotheses:
     admits hp infl   - may hyper hand a new stream to the service (hp = GOAWAY phase)
     resolves hp infl - may the connection future resolve on its own (peer closed cleanly / drained)
   The handshake state is explicit because hyper's graceful_shutdown only notes [close_pending]
   while the HTTP/2 preface has not arrived (observed with the real crate: such a connection is
   not closed by the shutdown until its peer speaks or goes away).  That is the builder's default,
   [http2_only].  With [accept_http1(true)] (section variable [http1]) the connection starts in
   hyper-util's version detection instead (auto::Connection, state ReadVersion), and there
   graceful_shutdown CANCELS the detection: the connection future resolves at its next poll
   (io::ErrorKind::Interrupted) and the bytes of a peer that speaks later are never read.  So with
   [http1] a connection that was told during HS has the move ConnCloses and loses HandshakeDone.

   [watch::Sender::send] fails, storing nothing, when the channel has no receiver.  serve_internal
   ignores the result ([let _ =]).  The branch is in [step_fn] because it is in tokio; it is dead
   code in every reachable state, since the accept loop still holds [signal_rx] when it sends
   (theorem c13_send_always_delivers). *)
From Coq Require Import List NArith Bool Arith.
From Verif Require Import Lib.Obs.
Import ListNotations.

Definition cid := N.   (* connection names *)
Definition kid := N.   (* call names *)

Inductive drain_pc := AtSend | AtDrop | AtWait.
Inductive acceptor := Selecting | Draining (p : drain_pc) | Done.

Inductive hstate := HS (* waiting for the client preface *) | Open.
(* hyper/h2's shutdown phase of one connection: nothing written, announcement written, final
   GOAWAY written *)
Inductive gphase := GRun | GAnn | GFin.

(* the task of one connection.  Live h gs fused hp infl: the hyper connection future is pending;
   gs = graceful_shutdown has been called on it; fused = its Fuse'd changed() has fired;
   hp = what hyper has written about it; infl = streams handed to the service and not finished.  Closed has_rx: the connection future
   has resolved and the transport is dropped; has_rx = [drop(watcher)] has not run yet. *)
Inductive cstate :=
| Live (h : hstate) (gs fused : bool) (hp : gphase) (infl : list kid)
| Closed (has_rx : bool).

(* the vocabulary of DESIGN.md *)
Definition Serving (infl : list kid) := Live Open false false GRun infl.
Definition Notified (hp : gphase) (infl : list kid) := Live Open true true hp infl.

Record st := mkSt {
  acc : acceptor;
  sig_ready : bool;               (* the signal future is ready (the user's signal has fired) *)
  sig_fused : bool;               (* the acceptor's Fuse has yielded *)
  version : nat;                  (* watch channel: number of successful sends *)
  rx_count : nat;                 (* watch channel: live receivers *)
  conns : list (cid * cstate)
}.

Definition init_st : st := mkSt Selecting false false 0 1 [].

Inductive label :=
| Accept (c : cid)
| IncomingErr
| IncomingEnd
| SignalFires                     (* environment: the signal future becomes ready *)
| SignalObserved
| Send
| DropAcceptorRx
| ServeReturns
| HandshakeDone (c : cid)         (* peer: the HTTP/2 preface arrived *)
| ConnSeesChange (c : cid)
| AgeExpires (c : cid)
| Goaway (c : cid)                (* hyper writes the GOAWAY announcement *)
| GoawayFinal (c : cid)           (* hyper writes the final GOAWAY (peer acknowledged the ping) *)
| NewCall (c : cid) (k : kid)     (* peer + hyper: a stream is handed to the service *)
| CallCompletes (c : cid) (k : kid)
| ConnCloses (c : cid)            (* the connection future resolves with nothing in flight *)
| PeerAbort (c : cid)             (* the peer or the transport goes away: its calls die with it *)
| DropReceiver (c : cid).

Fixpoint lookup (c : cid) (l : list (cid * cstate)) : option cstate :=
  match l with
  | [] => None
  | (c', v) :: r => if N.eqb c' c then Some v else lookup c r
  end.
Fixpoint upd (c : cid) (v : cstate) (l : list (cid * cstate)) : list (cid * cstate) :=
  match l with
  | [] => []
  | (c', v') :: r => if N.eqb c' c then (c', v) :: r else (c', v') :: upd c v r
  end.
Definition mem (k : kid) (l : list kid) : bool := existsb (N.eqb k) l.
Definition del (k : kid) (l : list kid) : list kid := filter (fun x => negb (N.eqb k x)) l.

Definition set_acc (s : st) (a : acceptor) : st :=
  mkSt a (sig_ready s) (sig_fused s) (version s) (rx_count s) (conns s).
Definition set_conn (s : st) (c : cid) (v : cstate) : st :=
  mkSt (acc s) (sig_ready s) (sig_fused s) (version s) (rx_count s) (upd c v (conns s)).

Section Step.
  (* Server::accept_http1 *)
  Variable http1 : bool.
  Variable admits : gphase -> list kid -> bool.
  Variable resolves : gphase -> list kid -> bool.

  (* one transition; None = the label is not enabled in s *)
  Definition step_fn (s : st) (l : label) : option st :=
    match l with
    (* the three outcomes of [incoming.next()] - polled only when the signal, polled first, was
       still pending *)
    | Accept c =>
        match acc s, sig_ready s, lookup c (conns s) with
        | Selecting, false, None =>
            Some (mkSt Selecting (sig_ready s) (sig_fused s) (version s) (S (rx_count s))
                       ((c, Live HS false false GRun []) :: conns s))
        | _, _, _ => None
        end
    | IncomingErr => match acc s, sig_ready s with Selecting, false => Some s | _, _ => None end
    | IncomingEnd =>
        match acc s, sig_ready s with
        | Selecting, false => Some (set_acc s (Draining AtSend))
        | _, _ => None
        end
    | SignalFires =>
        if sig_ready s then None
        else Some (mkSt (acc s) true (sig_fused s) (version s) (rx_count s) (conns s))
    | SignalObserved =>
        match acc s, sig_fused s, sig_ready s with
        | Selecting, false, true =>
            Some (mkSt (Draining AtSend) true true (version s) (rx_count s) (conns s))
        | _, _, _ => None
        end
    | Send =>
        match acc s with
        | Draining AtSend =>
            (* watch::Sender::send fails, changing nothing, when there is no receiver *)
            Some (mkSt (Draining AtDrop) (sig_ready s) (sig_fused s)
                       (if Nat.eqb (rx_count s) 0 then version s else S (version s))
                       (rx_count s) (conns s))
        | _ => None
        end
    | DropAcceptorRx =>
        match acc s with
        | Draining AtDrop =>
            Some (mkSt (Draining AtWait) (sig_ready s) (sig_fused s) (version s)
                       (pred (rx_count s)) (conns s))
        | _ => None
        end
    | ServeReturns =>
        match acc s with
        | Draining AtWait => if Nat.eqb (rx_count s) 0 then Some (set_acc s Done) else None
        | _ => None
        end
    | HandshakeDone c =>
        match lookup c (conns s) with
        | Some (Live HS gs f hp infl) =>
            (* a cancelled version detection reads nothing any more *)
            if http1 && gs then None else Some (set_conn s c (Live Open gs f hp infl))
        | _ => None
        end
    | ConnSeesChange c =>
        match lookup c (conns s) with
        | Some (Live h gs false hp infl) =>
            if Nat.eqb (version s) 0 then None else Some (set_conn s c (Live h true true hp infl))
        | _ => None
        end
    | AgeExpires c =>
        match lookup c (conns s) with
        | Some (Live h false f hp infl) => Some (set_conn s c (Live h true f hp infl))
        | _ => None
        end
    | Goaway c =>
        match lookup c (conns s) with
        | Some (Live Open true f GRun infl) => Some (set_conn s c (Live Open true f GAnn infl))
        | _ => None
        end
    | GoawayFinal c =>
        match lookup c (conns s) with
        | Some (Live Open gs f GAnn infl) => Some (set_conn s c (Live Open gs f GFin infl))
        | _ => None
        end
    | NewCall c k =>
        match lookup c (conns s) with
        | Some (Live Open gs f hp infl) =>
            if admits hp infl && negb (mem k infl)
            then Some (set_conn s c (Live Open gs f hp (k :: infl))) else None
        | _ => None
        end
    | CallCompletes c k =>
        match lookup c (conns s) with
        | Some (Live Open gs f hp infl) =>
            if mem k infl then Some (set_conn s c (Live Open gs f hp (del k infl))) else None
        | _ => None
        end
    | ConnCloses c =>
        match lookup c (conns s) with
        | Some (Live Open gs f hp infl) =>
            if resolves hp infl then Some (set_conn s c (Closed true)) else None
        | Some (Live HS gs f hp []) =>
            (* graceful_shutdown during hyper-util's version detection cancels it *)
            if http1 && gs then Some (set_conn s c (Closed true)) else None
        | _ => None
        end
    | PeerAbort c =>
        match lookup c (conns s) with
        | Some (Live _ _ _ _ _) => Some (set_conn s c (Closed true))
        | _ => None
        end
    | DropReceiver c =>
        match lookup c (conns s) with
        | Some (Closed true) =>
            Some (mkSt (acc s) (sig_ready s) (sig_fused s) (version s) (pred (rx_count s))
                       (upd c (Closed false) (conns s)))
        | _ => None
        end
    end.

  Fixpoint exec (s : st) (ls : list label) : option st :=
    match ls with
    | [] => Some s
    | l :: r => match step_fn s l with Some s1 => exec s1 r | None => None end
    end.
End Step.

(* hyper as observed: streams are admitted until the final GOAWAY; the connection future of a
   connection whose client is still there resolves only after the server has announced the
   shutdown and with nothing in flight (a client that hangs up on its own is PeerAbort) *)
Definition admits_std (hp : gphase) (infl : list kid) : bool :=
  match hp with GFin => false | _ => true end.
Definition resolves_std (hp : gphase) (infl : list kid) : bool :=
  match hp, infl with GRun, _ => false | _, [] => true | _, _ => false end.

(* ---- observed events and the trace checker ------------------------------------------------ *)
Inductive ev :=
| EAccept (c : cid)            (* the listener handed connection c to the accept loop *)
| ESignalFired                 (* the harness fired the signal *)
| ESignal                      (* the signal future returned Ready to the accept loop *)
| EIncomingEnd                 (* the listener returned None *)
| EIncomingErr                 (* the listener returned an error *)
| ECallStart (c : cid) (k : kid)
| ECallDone (c : cid) (k : kid)     (* response driven to its end, then released *)
| ECallDropped (c : cid) (k : kid)  (* response released before its end: no step explains this *)
| EConnClosed (c : cid)        (* server transport dropped *)
| EPeerAbort (c : cid)         (* server transport dropped after its client had gone away *)
| EServeReturned
| EGoaway (c : cid)            (* the server wrote a GOAWAY with last-stream-id 2^31-1 on c *)
| EGoawayFinal (c : cid)       (* the server wrote a GOAWAY with a real last stream id on c *)
| EIdleAfterFire               (* not a step: the first quiescent point after the signal fired -
                                  the accept loop must have left the select loop by then *)
| EQuiet.                      (* not a step: nothing moved for 30 virtual seconds although every
                                  handler had been let through - an assertion that no move of
                                  tonic / hyper is enabled (a refusal, in CSP terms) *)

Definition observe1 (l : label) : list ev :=
  match l with
  | Accept c => [EAccept c]
  | SignalFires => [ESignalFired]
  | SignalObserved => [ESignal]
  | Goaway c => [EGoaway c]
  | GoawayFinal c => [EGoawayFinal c]
  | IncomingEnd => [EIncomingEnd]
  | IncomingErr => [EIncomingErr]
  | NewCall c k => [ECallStart c k]
  | CallCompletes c k => [ECallDone c k]
  | ConnCloses c => [EConnClosed c]
  | PeerAbort c => [EPeerAbort c]
  | ServeReturns => [EServeReturned]
  | Send | DropAcceptorRx | HandshakeDone _ | ConnSeesChange _ | AgeExpires _
  | DropReceiver _ => []
  end.
Definition observe (ls : list label) : list ev := flat_map observe1 ls.

Definition hs_if_needed (s : st) (c : cid) : list label :=
  match lookup c (conns s) with Some (Live HS _ _ _ _) => [HandshakeDone c] | _ => [] end.
Definition acceptor_tail (a : acceptor) : list label :=
  match a with
  | Draining AtSend => [Send; DropAcceptorRx]
  | Draining AtDrop => [DropAcceptorRx]
  | _ => []
  end.
Fixpoint closed_holding (l : list (cid * cstate)) : list label :=
  match l with
  | [] => []
  | (c, Closed true) :: r => DropReceiver c :: closed_holding r
  | _ :: r => closed_holding r
  end.

Fixpoint see_all (l : list (cid * cstate)) : list label :=
  match l with
  | [] => []
  | (c, Live _ _ false _ _) :: r => ConnSeesChange c :: see_all r
  | _ :: r => see_all r
  end.
(* with accept_http1 a told connection in its handshake is not quiet: it closes *)
Definition quiet (http1 : bool) (v : cstate) : bool :=
  match v with Closed false => true | Live HS true true _ _ => negb http1 | _ => false end.
(* nothing left to do but wait for peers that never sent their preface *)
Definition stalled_b (http1 : bool) (s : st) : bool :=
  match acc s with
  | Draining AtWait =>
      negb (Nat.eqb (rx_count s) 0) && forallb (fun p => quiet http1 (snd p)) (conns s)
  | _ => false
  end.

(* how connection c came to be told to shut down, if it has not been yet: by the watch channel
   when the accept loop has been left (Send first if that has not happened), otherwise only
   max_connection_age can have done it - which must then be configured *)
Definition tell (age : bool) (s : st) (c : cid) : option (list label) :=
  match lookup c (conns s) with
  | Some (Live _ false _ _ _) =>
      match acc s with
      | Selecting => if age then Some [AgeExpires c] else None
      | Draining AtSend => Some [Send; ConnSeesChange c]
      | _ => Some [ConnSeesChange c]
      end
  | _ => Some []
  end.

(* how a connection future came to resolve: an established connection after its final GOAWAY;
   with accept_http1 also a connection still in version detection, once it has been told *)
Definition closing (age http1 : bool) (s : st) (c : cid) : option (list label) :=
  match lookup c (conns s) with
  | Some (Live HS _ _ _ _) =>
      if http1
      then match tell age s c with Some t => Some (t ++ [ConnCloses c]) | None => None end
      else Some [HandshakeDone c; ConnCloses c]
  | _ => Some [ConnCloses c]
  end.

(* the steps (hidden ones first) that explain one observed event in state s *)
Definition explain (age http1 : bool) (s : st) (e : ev) : option (list label) :=
  match e with
  | EAccept c => Some [Accept c]
  | ESignalFired => Some [SignalFires]
  | EGoaway c =>
      match tell age s c with
      | Some t => Some (hs_if_needed s c ++ t ++ [Goaway c])
      | None => None
      end
  | EGoawayFinal c => Some [GoawayFinal c]
  | EIdleAfterFire => Some []
  | ESignal => Some [SignalObserved]
  | EIncomingEnd => Some [IncomingEnd]
  | EIncomingErr => Some [IncomingErr]
  | ECallStart c k => Some (hs_if_needed s c ++ [NewCall c k])
  | ECallDone c k => Some [CallCompletes c k]
  | ECallDropped _ _ => None
  | EConnClosed c => closing age http1 s c
  | EPeerAbort c => Some [PeerAbort c]
  | EServeReturned =>
      Some (acceptor_tail (acc s) ++ closed_holding (conns s) ++ [ServeReturns])
  | EQuiet =>
      (* let every hidden move happen; what remains must be stalled *)
      Some (acceptor_tail (acc s) ++ see_all (conns s) ++ closed_holding (conns s))
  end.
Definition post_ok (http1 : bool) (s : st) (e : ev) : bool :=
  match e with
  | EQuiet => stalled_b http1 s
  | EIdleAfterFire => match acc s with Selecting => false | _ => true end
  | _ => true
  end.
Definition visible (e : ev) : bool :=
  match e with EQuiet | EIdleAfterFire => false | _ => true end.

Fixpoint check_trace (age http1 : bool) (s : st) (evs : list ev) : option st :=
  match evs with
  | [] => Some s
  | e :: r =>
      match explain age http1 s e with
      | None => None
      | Some ls =>
          match exec http1 admits_std resolves_std s ls with
          | Some s1 => if post_ok http1 s1 e then check_trace age http1 s1 r else None
          | None => None
          end
      end
  end.

Definition is_done (a : acceptor) : bool := match a with Done => true | _ => false end.
Definition trace_ok (age http1 : bool) (evs : list ev) : bool :=
  match check_trace age http1 init_st evs with Some s => is_done (acc s) | None => false end.

(* ---- what every caller must have seen ----------------------------------------------------- *)
Record call := mkCall {
  cl_conn : cid; cl_id : kid;
  cl_msgs : list (list N);      (* the messages the scripted handler produces *)
  cl_code : N; cl_text : list N (* and its final status *)
}.
Definition accepted_in (evs : list ev) (c : cid) (k : kid) : bool :=
  existsb (fun e => match e with ECallStart c' k' => N.eqb c' c && N.eqb k' k | _ => false end) evs.
(* tag 1: the full scripted outcome; tag 0: never accepted - the caller got an error and no
   data; tag 2: the caller itself walked away *)
Definition expected (evs : list ev) (aborted : list kid) (cl : call) : tr :=
  if mem (cl_id cl) aborted then Nd [Nn (cl_id cl); Nn 2]
  else if accepted_in evs (cl_conn cl) (cl_id cl)
       then Nd [Nn (cl_id cl); Nn 1; Nd (map Bs (cl_msgs cl)); Nn (cl_code cl); Bs (cl_text cl)]
       else Nd [Nn (cl_id cl); Nn 0].

(* age = max_connection_age is configured, http1 = accept_http1(true) *)
Definition obs_shutdown (age http1 : bool) (evs : list ev) (calls : list call)
    (aborted : list kid) : tr :=
  Nd (obool (trace_ok age http1 evs) :: map (expected evs aborted) calls).

(* ---- serve_with_shutdown over TCP ------------------------------------------------------------
   There the listener (TcpIncoming) and the server's transport objects are tonic's own: the
   harness sees neither accepts nor GOAWAY frames nor connection closes - only the signal, the
   application-level start and end of every call and the return of the serve future.  The
   unobservable events are filled in at the most favourable places before the same checker runs:
   a connection is accepted right before its first call starts (every connection of a tcp scenario
   completes a call before the signal fires), and right before the serve future returns every
   connection announces, finishes and closes.  What the check still decides: no call starts on a
   connection first seen after the signal, nothing starts after a return, every started call is
   complete when the serve future returns, the signal is observed once and after it fired. *)
Fixpoint close_all (cs : list cid) : list ev :=
  match cs with
  | [] => []
  | c :: r => EGoaway c :: EGoawayFinal c :: EConnClosed c :: close_all r
  end.
Fixpoint complete_tcp (known : list cid) (evs : list ev) : list ev :=
  match evs with
  | [] => []
  | ECallStart c k :: r =>
      if mem c known then ECallStart c k :: complete_tcp known r
      else EAccept c :: ECallStart c k :: complete_tcp (c :: known) r
  | EServeReturned :: r => close_all (rev known) ++ EServeReturned :: complete_tcp [] r
  | e :: r => e :: complete_tcp known r
  end.
Definition obs_shutdown_tcp (evs : list ev) (calls : list call) (aborted : list kid) : tr :=
  obs_shutdown false false (complete_tcp [] evs) calls aborted.
