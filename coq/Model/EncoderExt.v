(* Extension of Model/Encoder.v for C03 (audit 2: N-C03-1, L-C03).  Model/Encoder.v is shared with
   C01 / C02 / C06 and is not edited; what is added here:

     http-1.5.0 src/uri/path.rs   scan_path_and_query / PathAndQuery::from_shared ([pq_parse]),
                                  Display for PathAndQuery ([pq_display]), PathAndQuery::path
     http-1.5.0 src/uri/mod.rs    Uri::from_parts ([uri_from_parts])
     tonic/src/client/grpc.rs     GrpcConfig::prepare_request with its two [expect]s as explicit
                                  outcomes ([prepare_request_x], [client_call_x])
     tonic/src/transport/channel/service/add_origin.rs   AddOrigin::call with its [expect]
                                  ([channel_request_x])
     tonic/src/status.rs          Status::to_header_map (after fix 08dc8d0b): the only panic left is
                                  http's HeaderMap refusing a 24577th distinct name
                                  ([to_header_map_panics]); reached from tonic/src/codec/encode.rs
                                  EncodeState::trailers / poll_frame ([body_poll_x], [run_body_x])
     tonic/src/codec/prost.rs     ProstEncoder::encode over a fixed prost message ([ser_pmsg])

   Function by function, same branch order.  No proofs here. *)
From Verif Require Import Lib.Bytes Lib.Obs Lib.BE32 Lib.Utf8 Lib.HeaderMap Model.Frame Model.Status.
From Verif Require Lib.Percent Lib.Base64.
From Verif Require Import Gen.StatusTables Model.Encoder.
Close Scope string_scope.
Open Scope list_scope.
Open Scope N_scope.

(* ------------------------------------------------------------------------------------------
   http::uri
   ------------------------------------------------------------------------------------------ *)
(* src/uri/mod.rs: const MAX_LEN: usize = (u16::MAX - 1) as usize *)
Definition URI_MAX_LEN : N := 65534.

(* Uri::from_parts; None = Err(InvalidUriParts):
     scheme without authority (AuthorityMissing), scheme without path (PathAndQueryMissing),
     authority and path without scheme (SchemeMissing) *)
Definition uri_from_parts (sc au pq : option (list N)) : option uri :=
  match sc with
  | Some _ =>
      match au with
      | None => None
      | Some _ => match pq with None => None | Some _ => Some (mkUri sc au pq) end
      end
  | None =>
      match au, pq with
      | Some _, Some _ => None
      | _, _ => Some (mkUri sc au pq)
      end
  end.

(* the per-byte classes of build_path_map / build_query_map *)
Inductive uclass := CValid | CQuery | CFragment | CHigh | CInvalid.
Definition in_range (lo hi b : N) : bool := (lo <=? b) && (b <=? hi).
Definition path_class (b : N) : uclass :=
  if b =? 63 then CQuery
  else if b =? 35 then CFragment
  else if (b =? 33) || in_range 36 59 b || (b =? 61) || in_range 64 95 b || in_range 97 122 b
          || (b =? 124) || (b =? 126) then CValid
  else if in_range 128 255 b then CHigh
  else if (b =? 34) || (b =? 123) || (b =? 125) then CValid
  else CInvalid.
Definition query_class (b : N) : uclass :=
  if b =? 35 then CFragment
  else if (b =? 33) || in_range 36 59 b || (b =? 61) || in_range 63 126 b then CValid
  else if in_range 128 255 b then CHigh
  else CInvalid.

(* the two scanning loops: the bytes kept (everything before a '#'), whether a byte >= 0x80 was
   seen; None = InvalidUriChar *)
Fixpoint scan_query (l : list N) : option (list N * bool) :=
  match l with
  | [] => Some ([], false)
  | b :: r =>
      match query_class b with
      | CFragment => Some ([], false)
      | CValid => match scan_query r with Some (k, h) => Some (b :: k, h) | None => None end
      | CHigh => match scan_query r with Some (k, _) => Some (b :: k, true) | None => None end
      | _ => None
      end
  end.
Fixpoint scan_path (l : list N) : option (list N * bool) :=
  match l with
  | [] => Some ([], false)
  | b :: r =>
      match path_class b with
      | CQuery => match scan_query r with Some (k, h) => Some (b :: k, h) | None => None end
      | CFragment => Some ([], false)
      | CValid => match scan_path r with Some (k, h) => Some (b :: k, h) | None => None end
      | CHigh => match scan_path r with Some (k, _) => Some (b :: k, true) | None => None end
      | CInvalid => None
      end
  end.

(* PathAndQuery::from_shared (what str::parse::<PathAndQuery>() runs): Some data / None = Err.
   Empty, TooLong, the lone "*", PathDoesNotStartWithSlash, the scan, truncation at the fragment,
   from_utf8 when a high byte was seen *)
Definition pq_parse (s : list N) : option (list N) :=
  match s with
  | [] => None
  | c :: _ =>
      if URI_MAX_LEN <? nlen s then None
      else if bytes_eqb s [42] then Some s
      else if negb ((c =? 47) || (c =? 63) || (c =? 35)) then None
      else match scan_path s with
           | None => None
           | Some (kept, high) => if high then (if utf8_valid kept then Some kept else None)
                                  else Some kept
           end
  end.
(* PathAndQuery::as_str: "/" for empty data (a parsed "#frag") *)
Definition pq_as_str (data : list N) : list N := match data with [] => [47] | _ => data end.

(* impl Display for PathAndQuery *)
Definition pq_display (data : list N) : list N :=
  match data with
  | [] => [47]
  | c :: _ => if (c =? 47) || (c =? 42) then data else 47 :: data
  end.

(* ------------------------------------------------------------------------------------------
   client::GrpcConfig::prepare_request with its panic sites
   ------------------------------------------------------------------------------------------ *)
Inductive target_res := TgOk (t : list N) | TgPanic.

(* match &parts.path_and_query {
     Some(pnq) if pnq.path() != "/" =>
        Some(format!("{}{}", pnq.path(), path).parse().expect("must form valid path_and_query")),
     _ => Some(path) }
   [path] is the method's PathAndQuery as its data string *)
Definition request_target_x (origin : uri) (path : list N) : target_res :=
  match u_pq origin with
  | Some pnq =>
      if bytes_eqb (pq_path pnq) [47] then TgOk path
      else match pq_parse (pq_path pnq ++ pq_display path) with
           | Some t => TgOk (pq_as_str t)
           | None => TgPanic
           end
  | None => TgOk path
  end.

(* the headers prepare_request leaves on the request (into_http with SanitizeHeaders::Yes, then
   four inserts) *)
Definition request_headers (send : option cenc) (accept : list cenc) (md : hm) : hm :=
  let h0 := sanitize md in
  let h1 := hm_insert h0 hdr_te val_trailers in
  let h2 := hm_insert h1 hdr_content_type val_application_grpc in
  let h3 := match send with Some e => hm_insert h2 hdr_grpc_encoding (enc_name e) | None => h2 end in
  match accept_value accept with
  | Some v => hm_insert h3 hdr_grpc_accept_encoding v
  | None => h3
  end.

(* PrepPanicTarget: expect("must form valid path_and_query");
   PrepPanicUri:    expect("path_and_query only is valid Uri") *)
Inductive prep_res := PrepOk (r : req_head) | PrepPanicTarget | PrepPanicUri.

Definition prepare_request_x (origin : uri) (send : option cenc) (accept : list cenc)
           (md : hm) (path : list N) : prep_res :=
  match request_target_x origin path with
  | TgPanic => PrepPanicTarget
  | TgOk pq =>
      match uri_from_parts (u_scheme origin) (u_authority origin) (Some pq) with
      | None => PrepPanicUri
      | Some u => PrepOk (mkReq val_POST HTTP_2 u (request_headers send accept md))
      end
  end.

Inductive call_res := CallOk (h : req_head) (c : cfg cenc) | CallPanic (uri_site : bool).

(* client::Grpc::streaming: head and the configuration of EncodeBody::new_client next to it *)
Definition client_call_x (cl : client) (md : hm) (path : list N) : call_res :=
  let body := mkCfg (cl_send cl) false (cl_max cl) (cl_buffer_size cl) (cl_yield_threshold cl) in
  match prepare_request_x (cl_origin cl) (cl_send cl) (cl_accept cl) md path with
  | PrepOk h => CallOk h body
  | PrepPanicTarget => CallPanic false
  | PrepPanicUri => CallPanic true
  end.

(* ------------------------------------------------------------------------------------------
   AddOrigin + UserAgent with AddOrigin's expect("valid uri")
   ------------------------------------------------------------------------------------------ *)
Inductive chan_res_x := ChxErr | ChxOk (r : req_head) | ChxPanic.

(* AddOrigin::call: Err(invalid uri) without scheme or authority; otherwise the request's Uri is
   taken apart (into_parts), scheme and authority are replaced and it is put together again with
   Uri::from_parts(..).expect("valid uri") - which refuses a request target without
   path-and-query (an authority-form request Uri).  UserAgent::call runs after it. *)
Definition channel_request_x (origin : uri) (custom_ua : option (list N)) (tonic_ua : list N)
           (r : req_head) : chan_res_x :=
  match u_scheme origin, u_authority origin with
  | Some sc, Some au =>
      match uri_from_parts (Some sc) (Some au) (u_pq (rq_uri r)) with
      | None => ChxPanic
      | Some u =>
          let ua := match custom_ua with Some c => c ++ [32] ++ tonic_ua | None => tonic_ua end in
          ChxOk (mkReq (rq_method r) (rq_version r) u (hm_insert (rq_headers r) hdr_user_agent ua))
      end
  | _, _ => ChxErr
  end.

(* ------------------------------------------------------------------------------------------
   Status::to_header_map and the size limit of http::HeaderMap; the trailers of EncodeBody
   ------------------------------------------------------------------------------------------ *)
(* http-1.5.0 header/map.rs: a table has at most MAX_SIZE = 1 << 15 slots and is used up to 3/4:
   usable_capacity(32768) = 24576 entries (one entry per distinct name; further values of a name
   take no entry).  insert / entry / extend first run try_reserve_one: with len == capacity the
   table must double, and with 24576 entries it cannot - expect("size overflows MAX_SIZE").
   HeaderMap::with_capacity(n) panics for a hint above that size; since fix 08dc8d0b (F-C04d)
   to_header_map uses try_with_capacity(..).unwrap_or_default(), the hint cannot fail. *)
Definition HM_MAX_ENTRIES : N := 24576.
Definition hm_full (entries : N) : bool := HM_MAX_ENTRIES <=? entries.

(* the distinct names of a header map *)
Fixpoint names_of (m : hm) (seen : list hname) : list hname :=
  match m with
  | [] => seen
  | (k, _) :: r => if existsb (bytes_eqb k) seen then names_of r seen else names_of r (k :: seen)
  end.
Definition distinct_count (m : hm) : N := nlen (names_of m []).

(* Status::to_header_map = add_header into an empty map, step by step; true = a step starts on a
   full table and panics:
     header_map.extend(sanitized metadata)   one entry per distinct name
     insert(grpc-status)
     insert(grpc-message) unless the message is empty (Err - not a panic - on an illegal value)
     insert(grpc-status-details-bin) unless the details are empty; with empty details
     remove(grpc-status-details-bin) instead (fix ed827503, F-C04e) - a removal reserves nothing and
     cannot panic *)
Definition header_steps_panic (d : N) (st : status) : bool :=
  if HM_MAX_ENTRIES <? d then true
  else
    match code_to_hv (st_code st) with
    | None => false
    | Some _ =>
        if hm_full d then true
        else
          let after_msg :=
            match st_msg st with
            | [] => Some (false, d + 1)
            | _ => match mk_hv (Percent.pct_encode in_encoding_set (st_msg st)) with
                   | Some _ => Some (hm_full (d + 1), d + 2)
                   | None => None
                   end
            end in
          match after_msg with
          | None => false
          | Some (true, _) => true
          | Some (false, n) =>
              match st_details st with
              | [] => false
              | _ => match mk_hv (Base64.enc false (st_details st)) with
                     | Some _ => hm_full n
                     | None => false
                     end
              end
          end
    end.
(* [d] = the distinct names of the sanitized metadata *)
Definition to_header_map_panics (st : status) : bool :=
  header_steps_panic (distinct_count (sanitize (st_md st))) st.

Section EncoderX.
  Variable msg : Type.
  Variable enc : Type.
  Variable ser : msg -> option (list N).
  Variable compress : enc -> list N -> list N.

  (* EncodeState::trailers -> Status::to_header_map: None = the map overflows (panic) *)
  Definition trailers_frame_x (st : status) : option bframe :=
    if to_header_map_panics st then None else Some (trailers_frame st).

  (* EncodeBody::poll_frame as Encoder.body_poll, the trailers through [trailers_frame_x] *)
  Definition body_poll_x (c : cfg enc) (b : body_state) (src : list (sevent msg))
    : body_out * body_state * list (sevent msg) :=
    if b_end b then (BNone, b, src)
    else
      let '(o, inner, src') := enc_poll msg enc ser compress c (b_inner b) src in
      match o with
      | PPending => (BPending, mkBody inner (b_error b) (b_role b) (b_end b), src')
      | PPanic => (BPanic, mkBody inner (b_error b) (b_role b) (b_end b), src')
      | PData d => (BFrame (FData d), mkBody inner (b_error b) (b_role b) (b_end b), src')
      | PErr status =>
          match b_role b with
          | Client => (BFrame (FErr status), mkBody inner (b_error b) Client (b_end b), src')
          | Server =>
              (* self.state.is_end_stream = true precedes status.to_header_map() *)
              match trailers_frame_x status with
              | Some f => (BFrame f, mkBody inner (b_error b) Server true, src')
              | None => (BPanic, mkBody inner (b_error b) Server true, src')
              end
          end
      | PNone =>
          match b_role b with
          | Client => (BNone, mkBody inner (b_error b) Client (b_end b), src')
          | Server =>
              let status := match b_error b with Some st => st | None => st_ok end in
              match trailers_frame_x status with
              | Some f => (BFrame f, mkBody inner None Server true, src')
              | None => (BPanic, mkBody inner None Server true, src')
              end
          end
      end.

  Fixpoint body_trace_x (c : cfg enc) (n : nat) (b : body_state) (src : list (sevent msg))
    : list (body_out * bool) :=
    match n with
    | O => []
    | S n' => let '(o, b', src') := body_poll_x c b src in
              (o, body_is_end_stream b') :: body_trace_x c n' b' src'
    end.

  Definition run_body_x (c : cfg enc) (r : role) (src : list (sevent msg)) (extra : nat)
    : list (body_out * bool) :=
    body_trace_x c (poll_budget src + extra) (body_init r) src.
End EncoderX.

(* ------------------------------------------------------------------------------------------
   ProstCodec over one fixed message type (the harness' PMsg):
     message PMsg { string name = 1; uint64 n = 2; bytes blob = 3; repeated uint32 r = 4;
                    sint32 z = 5; }
   prost-derive's encode_raw: fields in tag order, a singular field equal to its default is
   omitted, a repeated scalar is packed and omitted when empty.
   ------------------------------------------------------------------------------------------ *)
Fixpoint varint_n (fuel : nat) (v : N) : list N :=
  match fuel with
  | O => []
  | S f => if v <? 128 then [v] else (v mod 128 + 128) :: varint_n f (v / 128)
  end.
(* prost::encoding::encode_varint: at most ten groups of seven bits *)
Definition varint (v : N) : list N := varint_n 10 v.

(* z is the zig-zag image of the sint32 (the harness computes ((z << 1) ^ (z >> 31)) as u32) *)
Record pmsg := mkPMsg { p_name : list N; p_n : N; p_blob : list N; p_r : list N; p_z : N }.

Definition ser_pmsg_bytes (m : pmsg) : list N :=
  (match p_name m with [] => [] | s => 10 :: varint (nlen s) ++ s end) ++
  (if p_n m =? 0 then [] else 16 :: varint (p_n m)) ++
  (match p_blob m with [] => [] | s => 26 :: varint (nlen s) ++ s end) ++
  (match p_r m with
   | [] => []
   | l => let body := flat_map varint l in 34 :: varint (nlen body) ++ body
   end) ++
  (if p_z m =? 0 then [] else 40 :: varint (p_z m)).
(* ProstEncoder::encode: item.encode(buf).expect(..) - prost's encode fails only when
   buf.remaining_mut() < encoded_len, and a BytesMut reports usize::MAX - len: with an unbounded
   usize it never does; the result is always Ok(()) *)
Definition ser_pmsg (m : pmsg) : option (list N) := Some (ser_pmsg_bytes m).

(* ------------------------------------------------------------------------------------------
   observables for the correspondence harness (h_encode)
   ------------------------------------------------------------------------------------------ *)
(* a run of n equal list elements, n : N (for the large metadata of the capacity witnesses) *)
Definition nrepeat {A} (n : N) (x : A) : list A := repeat x (N.to_nat n).

Definition out_es_obs_x (oe : body_out * bool) : tr := Nd [out_obs (fst oe); obool (snd oe)].

(* a byte string that may hold long runs (targets near http's 65534-byte limit): shown as it is
   when it has no run of >= 64 equal bytes, run-length segmented otherwise (the harness does the
   same: ext.rs bs_tr) *)
Definition bs_obs (l : list N) : tr :=
  match segs (runs l) [] with
  | [] => Bs []
  | [Bs x] => Bs x
  | other => Nd other
  end.
Definition uri_obs_x (u : uri) : tr :=
  Nd [oopt Bs (u_scheme u); oopt Bs (u_authority u); oopt bs_obs (u_pq u)].
Definition req_head_obs_x (r : req_head) : tr :=
  Nd [Nn 1; Bs (rq_method r); Nn (rq_version r); uri_obs_x (rq_uri r); hm_canon (rq_headers r)].

(* as Encoder.obs_encode (the ghost of the explicit source comes from Encoder.run_body_src), the
   polls from [run_body_x] *)
Definition obs_encode_x (tbl : list (list N * list N)) (c : cfg cenc) (r : role)
           (src : list (sevent (list N))) (extra : nat) : tr :=
  let s := snd (run_body_src (list N) cenc ser_raw (compress_tbl tbl) c r src extra) in
  Nd (Nn (s_after_end s) :: obool (body_is_end_stream (body_init r)) ::
      map out_es_obs_x (cut_after_none extra
                          (run_body_x (list N) cenc ser_raw (compress_tbl tbl) c r src extra))).

(* the same over the real ProstCodec encoder *)
Definition obs_encode_prost (tbl : list (list N * list N)) (c : cfg cenc) (r : role)
           (src : list (sevent pmsg)) (extra : nat) : tr :=
  let s := snd (run_body_src pmsg cenc ser_pmsg (compress_tbl tbl) c r src extra) in
  Nd (Nn (s_after_end s) :: obool (body_is_end_stream (body_init r)) ::
      map out_es_obs_x (cut_after_none extra
                          (run_body_x pmsg cenc ser_pmsg (compress_tbl tbl) c r src extra))).

(* a client call: 99 = expect("path_and_query only is valid Uri"), 95 = expect("must form valid
   path_and_query") *)
Definition obs_client_call_x (tbl : list (list N * list N)) (cl : client) (md : hm) (path : list N)
           (src : list (sevent (list N))) (extra : nat) : tr :=
  match client_call_x cl md path with
  | CallPanic true => Nd [Nd [Nn 99]]
  | CallPanic false => Nd [Nd [Nn 95]]
  | CallOk h c => Nd [req_head_obs_x h; obs_encode_x tbl c Client src extra]
  end.

Definition obs_server_call_x (tbl : list (list N * list N)) (sv : server) (sh : shape)
           (req_headers : hm) (has_msg : bool) (h : handler_res)
           (src : list (sevent (list N))) (extra : nat) : tr :=
  match server_call sv sh req_headers has_msg h with
  | None => Nd [Nd [Nn 99]]
  | Some (r, Some c) => Nd [resp_head_obs r; obs_encode_x tbl c Server src extra]
  | Some (r, None) => Nd [resp_head_obs r; obs_empty_body extra]
  end.

Definition chan_obs (tbl : list (list N * list N)) (c : cfg cenc) (src : list (sevent (list N)))
           (h' : req_head) : tr :=
  let fs := frames_of (run_body (list N) cenc ser_raw (compress_tbl tbl) c Client src 0) in
  Nd [req_head_obs_x h';
      Nd (segs (runs (concat (datas_of fs))) []);
      obool (existsb (fun f => match f with FTrailers _ => true | _ => false end) fs);
      obool (existsb (fun f => match f with FErr _ => true | _ => false end) fs)].

(* a call through a real Channel: 96 = AddOrigin's Err, 94 = AddOrigin's expect("valid uri") *)
Definition obs_channel_call_x (tbl : list (list N * list N)) (cl : client) (ep_origin : uri)
           (custom_ua : option (list N)) (tonic_ua : list N) (md : hm) (path : list N)
           (src : list (sevent (list N))) : tr :=
  match client_call_x cl md path with
  | CallPanic true => Nd [Nd [Nn 99]]
  | CallPanic false => Nd [Nd [Nn 95]]
  | CallOk h c =>
      match channel_request_x ep_origin custom_ua tonic_ua h with
      | ChxErr => Nd [Nd [Nn 96]]
      | ChxPanic => Nd [Nd [Nn 94]]
      | ChxOk h' => chan_obs tbl c src h'
      end
  end.

(* a hand-built http::Request given to the Channel service directly (body: no frames) *)
Definition obs_channel_raw (ep_origin : uri) (custom_ua : option (list N)) (tonic_ua : list N)
           (r : req_head) : tr :=
  match channel_request_x ep_origin custom_ua tonic_ua r with
  | ChxErr => Nd [Nd [Nn 96]]
  | ChxPanic => Nd [Nd [Nn 94]]
  | ChxOk h' => Nd [req_head_obs_x h']
  end.

(* str::parse::<PathAndQuery>() : as_str of the result *)
Definition obs_pq_parse (s : list N) : tr := oopt (fun d => bs_obs (pq_as_str d)) (pq_parse s).
