(* gRPC length-prefixed message framing, shared by the encoder, decoder and grpc-web models. *)
From Verif Require Import Lib.Bytes Lib.BE32.
Open Scope N_scope.

Definition HEADER_SIZE : N := 5.
Definition U32_MAX : N := 4294967295.

(* flag byte, 4-byte big-endian payload length, payload *)
Definition frame (flag : N) (payload : list N) : list N := flag :: be32 (nlen payload) ++ payload.

Lemma frame_length flag p : length (frame flag p) = (5 + length p)%nat.
Proof. unfold frame. cbn [length]. rewrite app_length, be32_length. lia. Qed.

Lemma frame_bytes flag p : flag < 256 -> bytes_ok p = true -> bytes_ok (frame flag p) = true.
Proof.
  intros Hf Hp. unfold frame. rewrite bytes_ok_cons, bytes_ok_app, be32_bytes, Hp.
  unfold is_byte. replace (flag <? 256) with true by lia. reflexivity.
Qed.

(* take / drop on N-indexed prefixes *)
Definition ntake {A} (n : N) (l : list A) : list A := firstn (N.to_nat n) l.
Definition ndrop {A} (n : N) (l : list A) : list A := skipn (N.to_nat n) l.

Lemma ntake_app_exact {A} (a b : list A) : ntake (nlen a) (a ++ b) = a.
Proof. unfold ntake, nlen. rewrite Nat2N.id. rewrite firstn_app, Nat.sub_diag, firstn_all. cbn. apply app_nil_r. Qed.
Lemma ndrop_app_exact {A} (a b : list A) : ndrop (nlen a) (a ++ b) = b.
Proof. unfold ndrop, nlen. rewrite Nat2N.id. rewrite skipn_app, Nat.sub_diag, skipn_all. reflexivity. Qed.
