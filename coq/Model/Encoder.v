(* Model of the ENCODER side of tonic's codec:
     tonic/src/codec/encode.rs   EncodedBytes::{new,poll_next}, encode_item, finish_encoding,
                                 EncodeBody::{new_client,new_server,poll_frame}, EncodeState::trailers
     tonic/src/codec/compression.rs   compress (its buffer arithmetic; the compressor is a parameter)
   and of the request / response heads
     tonic/src/client/grpc.rs    GrpcConfig::prepare_request
     tonic/src/server/grpc.rs    Grpc::map_response
     tonic/src/status.rs         Status::into_http
   Function by function, same state fields, same branch order.  No proofs here.

   External code is a Section variable: [ser] is the codec's Encoder::encode (None = it returned
   Err), [compress] is flate2 / zstd.  An async source stream is a [list sevent]: [SPending] is an
   event, after the list the (Fuse'd) source answers End forever. *)
From Verif Require Import Lib.Bytes Lib.Obs Lib.BE32 Lib.HeaderMap Model.Frame Model.Status.
From Verif Require Import Gen.StatusTables.
From Coq Require String.
Import String.StringSyntax.
Close Scope string_scope.
Open Scope list_scope.
Open Scope N_scope.

(* codec/mod.rs: const DEFAULT_MAX_SEND_MESSAGE_SIZE: usize = usize::MAX (64-bit target) *)
Definition DEFAULT_MAX_SEND_MESSAGE_SIZE : N := 18446744073709551615.
Definition DEFAULT_CODEC_BUFFER_SIZE : N := 8192.
Definition DEFAULT_YIELD_THRESHOLD : N := 32768.

Definition is_empty {A} (l : list A) : bool := match l with [] => true | _ => false end.

(* ---- decimal printing, for the texts of the size errors ({} of a usize) ---- *)
Fixpoint uint_bytes (u : Decimal.uint) : list N :=
  match u with
  | Decimal.Nil => []
  | Decimal.D0 r => 48 :: uint_bytes r | Decimal.D1 r => 49 :: uint_bytes r
  | Decimal.D2 r => 50 :: uint_bytes r | Decimal.D3 r => 51 :: uint_bytes r
  | Decimal.D4 r => 52 :: uint_bytes r | Decimal.D5 r => 53 :: uint_bytes r
  | Decimal.D6 r => 54 :: uint_bytes r | Decimal.D7 r => 55 :: uint_bytes r
  | Decimal.D8 r => 56 :: uint_bytes r | Decimal.D9 r => 57 :: uint_bytes r
  end.
Definition dec_bytes (n : N) : list N := uint_bytes (N.to_uint n).

(* ---- the three statuses encode_item / finish_encoding construct ---- *)
(* Status::internal(format!("Error encoding: {}", err)): the Display of the codec's error follows
   the prefix in the implementation; observables are cut after the prefix *)
Definition msg_encoding_error : list N := Eval vm_compute in bytes_of_string "Error encoding: ".
Definition st_encoding_error : status := mkStatus Code_Internal msg_encoding_error [] [].
Definition st_too_large (len limit : N) : status :=
  mkStatus Code_OutOfRange
    (bytes_of_string "Error, encoded message length too large: found " ++ dec_bytes len ++
     bytes_of_string " bytes, the limit is: " ++ dec_bytes limit ++ bytes_of_string " bytes") [] [].
Definition st_4gb (len : N) : status :=
  mkStatus Code_ResourceExhausted
    (bytes_of_string "Cannot return body with more than 4GB of data but got " ++ dec_bytes len ++
     bytes_of_string " bytes") [] [].
(* status.rs invalid_header_value_byte: what to_header_map's Err carries *)
Definition st_bad_header : status :=
  mkStatus Code_Internal (bytes_of_string "Couldn't serialize non-text grpc status header") [] [].
Definition st_ok : status := mkStatus Code_Ok [] [] [].

(* ---- state and results that do not depend on the codec ---- *)
(* struct EncodedBytes { source, encoder, compression_encoding, max_message_size, buf,
   uncompression_buf, error, is_terminated }: [source] is the remaining event list, the encoder
   and the two configuration fields live in [cfg], [uncompression_buf] is cleared before every use
   and is therefore not state *)
Record enc_state := mkEnc { e_buf : list N; e_error : option status; e_term : bool }.
Definition enc_init : enc_state := mkEnc [] None false.

(* Poll<Option<Result<Bytes, Status>>>, plus an explicit panic *)
Inductive poll_out := PPending | PNone | PData (b : list N) | PErr (st : status) | PPanic.

Inductive role := Client | Server.
(* struct EncodeBody { inner, state: EncodeState { error, role, is_end_stream } } *)
Record body_state := mkBody { b_inner : enc_state; b_error : option status; b_role : role; b_end : bool }.
Definition body_init (r : role) : body_state := mkBody enc_init None r false.

(* http_body::Frame<Bytes> or the body's error *)
Inductive bframe := FData (b : list N) | FTrailers (t : hm) | FErr (st : status).
(* Poll<Option<Result<Frame, Status>>> *)
Inductive body_out := BPending | BNone | BFrame (f : bframe) | BPanic.

Inductive fin_res := FinOk (sl : list N) | FinErr (st : status) | FinPanic.
Inductive eres := EOk (buf : list N) | EErr (buf : list N) (st : status) | EPanic.

Definition placeholder : list N := [0; 0; 0; 0; 0].

Section Encoder.
  Variable msg : Type.
  Variable enc : Type.
  Variable ser : msg -> option (list N).
  Variable compress : enc -> list N -> list N.

  (* comp: the compression_encoding argument; override_disable: compression_override =
     SingleMessageCompressionOverride::Disable; max: max_message_size; the last two are
     encoder.buffer_settings() *)
  Record cfg := mkCfg { comp : option enc; override_disable : bool; max : option N;
                        buffer_size : N; yield_threshold : N }.

  Inductive item := IOk (m : msg) | IErr (st : status).
  Inductive sevent := SPending | SItem (i : item).

  (* EncodedBytes::new: the override is applied once, at construction *)
  Definition eff_comp (c : cfg) : option enc := if override_disable c then None else comp c.
  Definition flag_of (c : cfg) : N := match eff_comp c with Some _ => 1 | None => 0 end.
  Definition limit_of (c : cfg) : N :=
    match max c with Some l => l | None => DEFAULT_MAX_SEND_MESSAGE_SIZE end.

  (* compression.rs compress: [out_buf.reserve(capacity)] is only a reservation; the division is
     the panic site of F-C01a, guarded by [.max(1)] *)
  Definition compress_into (c : cfg) (e : enc) (src out : list N) : option (list N) :=
    let g := N.max (buffer_size c) 1 in
    if g =? 0 then None
    else let capacity := (nlen src / g + 1) * g in
         Some (out ++ compress e src).

  (* finish_encoding on the slice buf[offset..]: [buf.len() - HEADER_SIZE] is a usize
     subtraction *)
  Definition finish_encoding (c : cfg) (sl : list N) : fin_res :=
    if nlen sl <? HEADER_SIZE then FinPanic
    else
      let len := nlen sl - HEADER_SIZE in
      let limit := limit_of c in
      if limit <? len then FinErr (st_too_large len limit)
      else if U32_MAX <? len then FinErr (st_4gb len)
      else FinOk (flag_of c :: be32 len ++ ndrop HEADER_SIZE sl).

  Definition finish_at (c : cfg) (offset : N) (buf : list N) : eres :=
    match finish_encoding c (ndrop offset buf) with
    | FinOk sl => EOk (ntake offset buf ++ sl)
    | FinErr st => EErr buf st
    | FinPanic => EPanic
    end.

  (* encode_item: on Err the buffer keeps whatever was written; the caller truncates *)
  Definition encode_item (c : cfg) (buf : list N) (m : msg) : eres :=
    let offset := nlen buf in
    let buf1 := buf ++ placeholder in
    match eff_comp c with
    | Some e =>
        match ser m with
        | None => EErr buf1 st_encoding_error
        | Some p =>
            match compress_into c e p buf1 with
            | None => EPanic
            | Some buf2 => finish_at c offset buf2
            end
        end
    | None =>
        match ser m with
        | None => EErr buf1 st_encoding_error
        | Some p => finish_at c offset (buf1 ++ p)
        end
    end.

  (* the loop of EncodedBytes::poll_next, one source poll per iteration; [error] is None and
     [is_terminated] is false on entry *)
  Fixpoint enc_loop (c : cfg) (buf : list N) (src : list sevent)
    : poll_out * enc_state * list sevent :=
    match src with
    | [] =>                                     (* Poll::Ready(None), the source is fused *)
        if is_empty buf then (PNone, mkEnc buf None false, [])
        else (PData buf, mkEnc [] None false, [])
    | SPending :: src' =>
        if is_empty buf then (PPending, mkEnc buf None false, src')
        else (PData buf, mkEnc [] None false, src')
    | SItem (IOk m) :: src' =>
        match encode_item c buf m with
        | EPanic => (PPanic, mkEnc buf None false, src')
        | EErr buf' status =>
            let buf'' := ntake (nlen buf) buf' in         (* buf.truncate(offset) *)
            if is_empty buf'' then (PErr status, mkEnc buf'' None true, src')
            else (PData buf'', mkEnc [] (Some status) true, src')
        | EOk buf' =>
            if yield_threshold c <=? nlen buf' then (PData buf', mkEnc [] None false, src')
            else enc_loop c buf' src'
        end
    | SItem (IErr status) :: src' =>
        if is_empty buf then (PErr status, mkEnc buf None true, src')
        else (PData buf, mkEnc [] (Some status) true, src')
    end.

  (* EncodedBytes::poll_next *)
  Definition enc_poll (c : cfg) (s : enc_state) (src : list sevent)
    : poll_out * enc_state * list sevent :=
    match e_error s with
    | Some status => (PErr status, mkEnc (e_buf s) None (e_term s), src)
    | None =>
        if e_term s then (PNone, s, src)
        else enc_loop c (e_buf s) src
    end.

  (* status.to_header_map() turned into the frame or the body error *)
  Definition trailers_frame (st : status) : bframe :=
    match to_header_map st with
    | Some t => FTrailers t
    | None => FErr st_bad_header
    end.

  (* EncodeBody::poll_frame (with EncodeState::trailers inlined in the None arm) *)
  Definition body_poll (c : cfg) (b : body_state) (src : list sevent)
    : body_out * body_state * list sevent :=
    if b_end b then (BNone, b, src)
    else
      let '(o, inner, src') := enc_poll c (b_inner b) src in
      match o with
      | PPending => (BPending, mkBody inner (b_error b) (b_role b) (b_end b), src')
      | PPanic => (BPanic, mkBody inner (b_error b) (b_role b) (b_end b), src')
      | PData d => (BFrame (FData d), mkBody inner (b_error b) (b_role b) (b_end b), src')
      | PErr status =>
          match b_role b with
          | Client => (BFrame (FErr status), mkBody inner (b_error b) Client (b_end b), src')
          | Server => (BFrame (trailers_frame status), mkBody inner (b_error b) Server true, src')
          end
      | PNone =>
          match b_role b with
          | Client => (BNone, mkBody inner (b_error b) Client (b_end b), src')
          | Server =>
              (* is_end_stream is false here *)
              let status := match b_error b with Some st => st | None => st_ok end in
              (BFrame (trailers_frame status), mkBody inner None Server true, src')
          end
      end.

  (* n consecutive polls of the body *)
  Fixpoint body_trace (c : cfg) (n : nat) (b : body_state) (src : list sevent) : list body_out :=
    match n with
    | O => []
    | S n' => let '(o, b', src') := body_poll c b src in o :: body_trace c n' b' src'
    end.

  (* Body::is_end_stream for EncodeBody: self.state.is_end_stream *)
  Definition body_is_end_stream (b : body_state) : bool := b_end b.

  (* n consecutive polls, each with what is_end_stream() answers right after it *)
  Fixpoint body_trace_es (c : cfg) (n : nat) (b : body_state) (src : list sevent)
    : list (body_out * bool) :=
    match n with
    | O => []
    | S n' => let '(o, b', src') := body_poll c b src in
              (o, body_is_end_stream b') :: body_trace_es c n' b' src'
    end.

  (* enough polls to exhaust any schedule (proved: a None is reached within this budget) *)
  Definition poll_budget (src : list sevent) : nat := (length src + 3)%nat.

  (* "polled to exhaustion and [extra] more times" *)
  Definition run_body (c : cfg) (r : role) (src : list sevent) (extra : nat) : list body_out :=
    body_trace c (poll_budget src + extra) (body_init r) src.

  Definition run_body_es (c : cfg) (r : role) (src : list sevent) (extra : nat) : list (body_out * bool) :=
    body_trace_es c (poll_budget src + extra) (body_init r) src.

  Definition items_of (src : list sevent) : list item :=
    flat_map (fun e => match e with SPending => [] | SItem i => [i] end) src.

  (* ---------------------------------------------------------------------------------------
     The source with its Fuse made explicit.  EncodedBytes holds [source: Fuse<U>]
     (tokio_stream::adapters::Fuse: `stream: Option<U>`, dropped when U answers None, after
     which Fuse answers None without touching U).  A Stream may do anything when it is polled
     again after it returned None (futures' unfold panics, a hand-written stream may invent
     items): the model's U counts such polls in the ghost [s_after_end] and the poll becomes
     the explicit panic outcome.  The functions above see the source through the Fuse as a
     plain event list ("End forever"); [body_trace_src] below is the same machine over the
     explicit source, and Proofs/Encoder.v shows that the two agree and that the ghost stays 0.
     --------------------------------------------------------------------------------------- *)
  Record source := mkSource { s_evs : list sevent;    (* what U still has to say *)
                              s_ended : bool;         (* U has answered None *)
                              s_after_end : N;        (* ghost: polls of U after that *)
                              s_fuse_done : bool }.   (* Fuse has dropped U *)
  Definition source_init (src : list sevent) : source := mkSource src false 0 false.

  Definition flush_or (none : poll_out) (buf : list N) (s : source) : poll_out * enc_state * source :=
    if is_empty buf then (none, mkEnc buf None false, s) else (PData buf, mkEnc [] None false, s).

  (* the loop of EncodedBytes::poll_next over Fuse<U>; the four fields of [source] are passed
     separately so that the recursion is structural in U's remaining events *)
  Fixpoint enc_loop_s (c : cfg) (buf : list N) (evs : list sevent) (ended : bool) (after : N)
           (done : bool) : poll_out * enc_state * source :=
    if done then flush_or PNone buf (mkSource evs ended after true)      (* Fuse: stream is None *)
    else
      match evs with
      | [] =>
          if ended then                           (* U is polled although it has ended *)
            (PPanic, mkEnc buf None false, mkSource [] true (after + 1) false)
          else                                    (* U answers None, Fuse drops it *)
            flush_or PNone buf (mkSource [] true after true)
      | SPending :: evs' => flush_or PPending buf (mkSource evs' ended after false)
      | SItem (IOk m) :: evs' =>
          let s' := mkSource evs' ended after false in
          match encode_item c buf m with
          | EPanic => (PPanic, mkEnc buf None false, s')
          | EErr buf' status =>
              let buf'' := ntake (nlen buf) buf' in
              if is_empty buf'' then (PErr status, mkEnc buf'' None true, s')
              else (PData buf'', mkEnc [] (Some status) true, s')
          | EOk buf' =>
              if yield_threshold c <=? nlen buf' then (PData buf', mkEnc [] None false, s')
              else enc_loop_s c buf' evs' ended after false
          end
      | SItem (IErr status) :: evs' =>
          let s' := mkSource evs' ended after false in
          if is_empty buf then (PErr status, mkEnc buf None true, s')
          else (PData buf, mkEnc [] (Some status) true, s')
      end.

  Definition enc_poll_src (c : cfg) (s : enc_state) (src : source) : poll_out * enc_state * source :=
    match e_error s with
    | Some status => (PErr status, mkEnc (e_buf s) None (e_term s), src)
    | None =>
        if e_term s then (PNone, s, src)
        else enc_loop_s c (e_buf s) (s_evs src) (s_ended src) (s_after_end src) (s_fuse_done src)
    end.

  Definition body_poll_src (c : cfg) (b : body_state) (src : source)
    : body_out * body_state * source :=
    if b_end b then (BNone, b, src)
    else
      let '(o, inner, src') := enc_poll_src c (b_inner b) src in
      match o with
      | PPending => (BPending, mkBody inner (b_error b) (b_role b) (b_end b), src')
      | PPanic => (BPanic, mkBody inner (b_error b) (b_role b) (b_end b), src')
      | PData d => (BFrame (FData d), mkBody inner (b_error b) (b_role b) (b_end b), src')
      | PErr status =>
          match b_role b with
          | Client => (BFrame (FErr status), mkBody inner (b_error b) Client (b_end b), src')
          | Server => (BFrame (trailers_frame status), mkBody inner (b_error b) Server true, src')
          end
      | PNone =>
          match b_role b with
          | Client => (BNone, mkBody inner (b_error b) Client (b_end b), src')
          | Server =>
              let status := match b_error b with Some st => st | None => st_ok end in
              (BFrame (trailers_frame status), mkBody inner None Server true, src')
          end
      end.

  (* n polls: each result with is_end_stream() after it, and the source as it is left *)
  Fixpoint body_trace_src (c : cfg) (n : nat) (b : body_state) (src : source)
    : list (body_out * bool) * source :=
    match n with
    | O => ([], src)
    | S n' => let '(o, b', src') := body_poll_src c b src in
              let '(l, src'') := body_trace_src c n' b' src' in
              ((o, body_is_end_stream b') :: l, src'')
    end.

  Definition run_body_src (c : cfg) (r : role) (src : list sevent) (extra : nat)
    : list (body_out * bool) * source :=
    body_trace_src c (poll_budget src + extra) (body_init r) (source_init src).
End Encoder.

Arguments mkCfg {enc}.
Arguments comp {enc}. Arguments override_disable {enc}. Arguments max {enc}.
Arguments buffer_size {enc}. Arguments yield_threshold {enc}.
Arguments IOk {msg}. Arguments IErr {msg}.
Arguments SPending {msg}. Arguments SItem {msg}.
Arguments eff_comp {enc}. Arguments flag_of {enc}. Arguments limit_of {enc}.
Arguments items_of {msg}.
Arguments poll_budget {msg}.
Arguments s_evs {msg}. Arguments s_ended {msg}. Arguments s_after_end {msg}. Arguments s_fuse_done {msg}.
Arguments mkSource {msg}. Arguments source_init {msg}.

Definition frames_of (l : list body_out) : list bframe :=
  flat_map (fun o => match o with BFrame f => [f] | _ => [] end) l.
Definition datas_of (l : list bframe) : list (list N) :=
  flat_map (fun f => match f with FData d => [d] | _ => [] end) l.

(* ------------------------------------------------------------------------------------------
   request / response heads
   ------------------------------------------------------------------------------------------ *)
Inductive cenc := Gzip | Deflate | Zstd.
(* CompressionEncoding::as_str *)
Definition enc_name (e : cenc) : list N :=
  match e with
  | Gzip => bytes_of_string "gzip" | Deflate => bytes_of_string "deflate" | Zstd => bytes_of_string "zstd"
  end.
Definition cenc_eqb (a b : cenc) : bool :=
  match a, b with Gzip, Gzip | Deflate, Deflate | Zstd, Zstd => true | _, _ => false end.

Definition hdr_te : list N := Eval vm_compute in bytes_of_string "te".
Definition hdr_content_type : list N := Eval vm_compute in bytes_of_string "content-type".
Definition hdr_grpc_encoding : list N := Eval vm_compute in bytes_of_string "grpc-encoding".
Definition hdr_grpc_accept_encoding : list N := Eval vm_compute in bytes_of_string "grpc-accept-encoding".
Definition val_trailers : list N := Eval vm_compute in bytes_of_string "trailers".
Definition val_application_grpc : list N := Eval vm_compute in bytes_of_string "application/grpc".
Definition val_POST : list N := Eval vm_compute in bytes_of_string "POST".
Definition HTTP_11 : N := 11.
Definition HTTP_2 : N := 20.

(* EnabledCompressionEncodings::into_accept_encoding_header_value, on the list of enabled
   encodings in slot order *)
Definition accept_value (enabled : list cenc) : option (list N) :=
  match enabled with
  | [] => None
  | _ => Some (flat_map (fun e => enc_name e ++ [44]) enabled ++ bytes_of_string "identity")
  end.

(* http::Uri as its three parts; a path-and-query is the string [as_str] shows ("/" if empty) *)
Record uri := mkUri { u_scheme : option (list N); u_authority : option (list N); u_pq : option (list N) }.

Fixpoint until_qmark (l : list N) : list N :=
  match l with [] => [] | c :: r => if c =? 63 then [] else c :: until_qmark r end.
(* PathAndQuery::path *)
Definition pq_path (s : list N) : list N :=
  match until_qmark s with [] => [47] | p => p end.

Record req_head := mkReq { rq_method : list N; rq_version : N; rq_uri : uri; rq_headers : hm }.

(* the request target GrpcConfig::prepare_request builds (after fix ab6a0ca8, F-C03b):
     match origin.path_and_query { Some(pnq) if pnq.path() != "/" => format!("{}{}", pnq.path(), path),
                                   _ => path } *)
Definition request_target (origin : uri) (path : list N) : list N :=
  match u_pq origin with
  | Some pnq => if bytes_eqb (pq_path pnq) [47] then path else pq_path pnq ++ path
  | None => path
  end.

(* GrpcConfig::prepare_request; None = panic ("path_and_query only is valid Uri": Uri::from_parts
   refuses scheme without authority and authority + path without scheme).  [md] is the request
   metadata, [path] the method's PathAndQuery. *)
Definition prepare_request (origin : uri) (send : option cenc) (accept : list cenc)
           (md : hm) (path : list N) : option req_head :=
  let pq := request_target origin path in
  let parts := mkUri (u_scheme origin) (u_authority origin) (Some pq) in
  let uri_ok :=
    match u_scheme parts, u_authority parts with
    | Some _, None => false
    | None, Some _ => false        (* path_and_query is Some *)
    | _, _ => true
    end in
  if negb uri_ok then None
  else
    let h0 := sanitize md in
    let h1 := hm_insert h0 hdr_te val_trailers in
    let h2 := hm_insert h1 hdr_content_type val_application_grpc in
    let h3 := match send with Some e => hm_insert h2 hdr_grpc_encoding (enc_name e) | None => h2 end in
    let h4 := match accept_value accept with
              | Some v => hm_insert h3 hdr_grpc_accept_encoding v
              | None => h3
              end in
    Some (mkReq val_POST HTTP_2 parts h4).

(* client::Grpc: GrpcConfig + what the codec's encoder says about buffers *)
Record client := mkClient { cl_origin : uri; cl_send : option cenc; cl_accept : list cenc;
                            cl_max : option N; cl_buffer_size : N; cl_yield_threshold : N }.

(* client::Grpc::streaming (unary / client_streaming / server_streaming go through it): the body
   is EncodeBody::new_client(encoder, source, send_compression_encodings,
   max_encoding_message_size) - returned as its [cfg] -, the head is prepare_request's *)
Definition client_call (cl : client) (md : hm) (path : list N) : option (req_head * cfg cenc) :=
  let body := mkCfg (cl_send cl) false (cl_max cl) (cl_buffer_size cl) (cl_yield_threshold cl) in
  match prepare_request (cl_origin cl) (cl_send cl) (cl_accept cl) md path with
  | Some h => Some (h, body)
  | None => None
  end.

(* ---- transport/channel/service: what a Channel puts in front of the connection ----
   connection.rs: ServiceBuilder .layer_fn(AddOrigin(endpoint.origin or endpoint.uri))
                                 .layer_fn(UserAgent(endpoint.user_agent)) ...
   add_origin.rs: scheme and authority of the request target are REPLACED by the origin's (its
   path is not used); an origin without scheme or authority makes every call fail (an Err, not
   a panic).  user_agent.rs: user-agent := [custom ++ " "] ++ "tonic/<version>" (insert). *)
Definition hdr_user_agent : list N := Eval vm_compute in bytes_of_string "user-agent".
Inductive chan_res := ChErr | ChOk (r : req_head).
Definition channel_request (origin : uri) (custom_ua : option (list N)) (tonic_ua : list N)
           (r : req_head) : chan_res :=
  match u_scheme origin, u_authority origin with
  | Some sc, Some au =>
      let ua := match custom_ua with Some c => c ++ [32] ++ tonic_ua | None => tonic_ua end in
      ChOk (mkReq (rq_method r) (rq_version r) (mkUri (Some sc) (Some au) (u_pq (rq_uri r)))
                  (hm_insert (rq_headers r) hdr_user_agent ua))
  | _, _ => ChErr
  end.

(* rs_body = true: the body is EncodeBody::new_server(.., accept_encoding, override, max);
   false: Body::default(), no frames *)
Record resp_head := mkResp { rs_status : N; rs_version : N; rs_headers : hm; rs_body : bool }.

(* Status::into_http; None = the unwrap of add_header fired *)
Definition status_into_http (st : status) : option resp_head :=
  match add_header st (hm_insert [] hdr_content_type val_application_grpc) with
  | Some h => Some (mkResp 200 HTTP_11 h false)
  | None => None
  end.

(* server::Grpc::map_response: inl md = Ok(response with metadata md), inr st = Err(st) *)
Definition map_response (resp : hm + status) (accept_encoding : option cenc) : option resp_head :=
  match resp with
  | inr st => status_into_http st
  | inl md =>
      let h0 := sanitize md in
      let h1 := hm_insert h0 hdr_content_type val_application_grpc in
      let h2 := match accept_encoding with
                | Some e => hm_insert h1 hdr_grpc_encoding (enc_name e)
                | None => h1
                end in
      Some (mkResp 200 HTTP_2 h2 true)
  end.

(* ---- the server handler entry points: negotiation, early rejections, body configuration ---- *)
Definition enc_of_name (t : list N) : option cenc :=
  if bytes_eqb t (enc_name Gzip) then Some Gzip
  else if bytes_eqb t (enc_name Deflate) then Some Deflate
  else if bytes_eqb t (enc_name Zstd) then Some Zstd
  else None.
Definition enabled (l : list cenc) (e : cenc) : bool := existsb (cenc_eqb e) l.

(* str::split(',') and str::trim on a header value (only space and tab can occur there) *)
Fixpoint split_comma (l cur : list N) : list (list N) :=
  match l with
  | [] => [rev cur]
  | c :: r => if c =? 44 then rev cur :: split_comma r [] else split_comma r (c :: cur)
  end.
Definition is_ws (b : N) : bool := (b =? 32) || (b =? 9).
Fixpoint trim_start (l : list N) : list N :=
  match l with c :: r => if is_ws c then trim_start r else l | [] => [] end.
Definition trim (l : list N) : list N := rev (trim_start (rev (trim_start l))).
(* HeaderValue::to_str *)
Definition hv_is_str (v : list N) : bool := forallb (fun b => (b =? 9) || ((32 <=? b) && (b <? 127))) v.
Fixpoint find_map_enabled (en : list cenc) (toks : list (list N)) : option cenc :=
  match toks with
  | [] => None
  | t :: r => match enc_of_name (trim t) with
              | Some e => if enabled en e then Some e else find_map_enabled en r
              | None => find_map_enabled en r
              end
  end.
(* CompressionEncoding::from_accept_encoding_header(request headers, send_compression_encodings) *)
Definition from_accept_encoding_header (hdr : option (list N)) (en : list cenc) : option cenc :=
  match en with
  | [] => None
  | _ => match hdr with
         | None => None
         | Some v => if hv_is_str v then find_map_enabled en (split_comma v []) else None
         end
  end.

Definition msg_unsupported_a : list N := Eval vm_compute in bytes_of_string "Content is compressed with `".
Definition msg_unsupported_b : list N := Eval vm_compute in bytes_of_string "` which isn't supported".
Definition val_identity : list N := Eval vm_compute in bytes_of_string "identity".
(* CompressionEncoding::from_encoding_header(request headers, accept_compression_encodings);
   the value is shown as text (a non-UTF-8 value would be shown in Debug form: not modelled) *)
Definition from_encoding_header (hdr : option (list N)) (en : list cenc) : status + option cenc :=
  match hdr with
  | None => inr None
  | Some v =>
      match enc_of_name v with
      | Some e =>
          if enabled en e then inr (Some e)
          else inl (mkStatus Code_Unimplemented (msg_unsupported_a ++ v ++ msg_unsupported_b) []
                      [(hdr_grpc_accept_encoding,
                        match accept_value en with Some a => a | None => val_identity end)])
      | None =>
          if bytes_eqb v val_identity then inr None
          else inl (mkStatus Code_Unimplemented (msg_unsupported_a ++ v ++ msg_unsupported_b) []
                      [(hdr_grpc_accept_encoding,
                        match accept_value en with Some a => a | None => val_identity end)])
      end
  end.

Definition st_missing_request : status :=
  mkStatus Code_Internal (bytes_of_string "Missing request message.") [] [].

Inductive shape := ShUnary | ShClientStreaming | ShServerStreaming | ShStreaming.
(* map_request_unary (reads the one request message) vs map_request_streaming *)
Definition request_is_unary (sh : shape) : bool :=
  match sh with ShUnary | ShServerStreaming => true | _ => false end.
(* the handler returns one message (once(Ok(m))) and compression_override_from_response is read *)
Definition response_is_unary (sh : shape) : bool :=
  match sh with ShUnary | ShClientStreaming => true | _ => false end.

Record server := mkServer { sv_send : list cenc; sv_accept : list cenc; sv_max : option N;
                            sv_buffer_size : N; sv_yield_threshold : N }.
(* what the handler answered: Ok(response metadata, the response carries
   SingleMessageCompressionOverride::Disable) or Err(status) *)
Inductive handler_res := HOk (md : hm) (disable : bool) | HErr (st : status).

(* server::Grpc::{unary, client_streaming, server_streaming, streaming} up to the response:
   [has_msg]: the request body carries a message (only map_request_unary looks).  Result: the
   response head and, when there is a body, the configuration of its EncodeBody::new_server. *)
Definition server_call (sv : server) (sh : shape) (req_headers : hm) (has_msg : bool)
           (h : handler_res) : option (resp_head * option (cfg cenc)) :=
  let accept_encoding :=
    from_accept_encoding_header (hm_get req_headers hdr_grpc_accept_encoding) (sv_send sv) in
  let reject st := match map_response (inr st) accept_encoding with
                   | Some r => Some (r, None) | None => None end in
  match from_encoding_header (hm_get req_headers hdr_grpc_encoding) (sv_accept sv) with
  | inl st => reject st                         (* request_encoding_if_supported failed *)
  | inr _ =>
      if request_is_unary sh && negb has_msg then reject st_missing_request
      else
        match h with
        | HErr st => reject st
        | HOk md disable =>
            let override := if response_is_unary sh then disable else false in
            match map_response (inl md) accept_encoding with
            | Some r => Some (r, Some (mkCfg accept_encoding override (sv_max sv)
                                         (sv_buffer_size sv) (sv_yield_threshold sv)))
            | None => None
            end
        end
  end.

(* ------------------------------------------------------------------------------------------
   executable instance and observables for the correspondence harness (h_encode)
   ------------------------------------------------------------------------------------------ *)
(* the harness' raw codec: the message is its own serialization; a message starting with 0xFE
   makes Encoder::encode return Err *)
Definition ser_raw (m : list N) : option (list N) :=
  match m with 254 :: _ => None | _ => Some m end.
(* what flate2 / zstd answered in this run, keyed on the uncompressed bytes (one encoding per case) *)
Definition compress_tbl (tbl : list (list N * list N)) (_ : cenc) (b : list N) : list N :=
  match assoc_bytes tbl b with Some z => z | None => [] end.

Fixpoint is_prefix_of (p l : list N) : bool :=
  match p, l with
  | [], _ => true
  | x :: p', y :: l' => (x =? y) && is_prefix_of p' l'
  | _ :: _, [] => false
  end.

(* DATA chunks are shown run-length segmented (a run of >= 64 equal bytes becomes [count; byte])
   so that chunks carrying a large uniform message stay small in the case files; the harness
   segments the implementation's chunk in the same way *)
Fixpoint runs (l : list N) : list (N * N) :=
  match l with
  | [] => []
  | x :: r =>
      match runs r with
      | (y, n) :: t => if x =? y then (y, n + 1) :: t else (x, 1) :: (y, n) :: t
      | [] => [(x, 1)]
      end
  end.
Definition flush_lit (lit : list N) : list tr := match lit with [] => [] | _ => [Bs lit] end.
Fixpoint segs (rs : list (N * N)) (lit : list N) : list tr :=
  match rs with
  | [] => flush_lit lit
  | (b, n) :: t =>
      if 64 <=? n then flush_lit lit ++ Nd [Nn n; Nn b] :: segs t []
      else segs t (lit ++ rep n b)
  end.

Definition frame_obs (f : bframe) : tr :=
  match f with
  | FData d => Nd (Nn 2 :: segs (runs d) [])
  | FTrailers t => Nd [Nn 3; hm_canon t]
  | FErr st => Nd [Nn 4; Nn (st_code st); Bs (st_msg st)]
  end.
Definition out_obs (o : body_out) : tr :=
  match o with
  | BPending => Nd [Nn 0]
  | BNone => Nd [Nn 1]
  | BFrame f => frame_obs f
  | BPanic => Nd [Nn 99]
  end.

(* the poll results up to and including the first None, then [extra] more; each with the
   is_end_stream() answer after it *)
Fixpoint cut_after_none (extra : nat) (l : list (body_out * bool)) : list (body_out * bool) :=
  match l with
  | [] => []
  | (BNone, e) :: r => (BNone, e) :: firstn extra r
  | (BPanic, e) :: _ => [(BPanic, e)]
  | o :: r => o :: cut_after_none extra r
  end.
Definition out_es_obs (oe : body_out * bool) : tr := Nd [out_obs (fst oe); obool (snd oe)].

(* is_end_stream() before the first poll, then the polls *)
(* first the number of times the source was polled after it had ended (ghost of the explicit
   source), then is_end_stream() before the first poll, then the polls *)
Definition obs_encode (tbl : list (list N * list N)) (c : cfg cenc) (r : role)
           (src : list (sevent (list N))) (extra : nat) : tr :=
  let '(l, s) := run_body_src (list N) cenc ser_raw (compress_tbl tbl) c r src extra in
  Nd (Nn (s_after_end s) :: obool (body_is_end_stream (body_init r)) ::
      map out_es_obs (cut_after_none extra l)).
(* Body::empty(): ended from the start, None to every poll *)
Definition obs_empty_body (extra : nat) : tr :=
  Nd (Nn 0 :: obool true :: repeat (Nd [Nd [Nn 1]; obool true]) (S extra)).

Definition uri_obs (u : uri) : tr :=
  Nd [oopt Bs (u_scheme u); oopt Bs (u_authority u); oopt Bs (u_pq u)].
Definition req_head_obs (r : req_head) : tr :=
  Nd [Nn 1; Bs (rq_method r); Nn (rq_version r); uri_obs (rq_uri r); hm_canon (rq_headers r)].
Definition resp_head_obs (r : resp_head) : tr :=
  Nd [Nn 1; Nn (rs_status r); Nn (rs_version r); hm_canon (rs_headers r); obool (rs_body r)].

(* a client call: the head and the request body, the body configured by the model itself *)
Definition obs_client_call (tbl : list (list N * list N)) (cl : client) (md : hm) (path : list N)
           (src : list (sevent (list N))) (extra : nat) : tr :=
  match client_call cl md path with
  | None => Nd [Nd [Nn 99]]
  | Some (h, c) => Nd [req_head_obs h; obs_encode tbl c Client src extra]
  end.
(* a server call: the head and the response body *)
Definition obs_server_call (tbl : list (list N * list N)) (sv : server) (sh : shape)
           (req_headers : hm) (has_msg : bool) (h : handler_res)
           (src : list (sevent (list N))) (extra : nat) : tr :=
  match server_call sv sh req_headers has_msg h with
  | None => Nd [Nd [Nn 99]]
  | Some (r, Some c) => Nd [resp_head_obs r; obs_encode tbl c Server src extra]
  | Some (r, None) => Nd [resp_head_obs r; obs_empty_body extra]
  end.

(* a call through a real Channel, seen by an independent HTTP/2 peer: the head after AddOrigin and
   UserAgent, all DATA bytes of the request body (the transport re-cuts them), trailers or not *)
Definition obs_channel_call (tbl : list (list N * list N)) (cl : client) (ep_origin : uri)
           (custom_ua : option (list N)) (tonic_ua : list N) (md : hm) (path : list N)
           (src : list (sevent (list N))) : tr :=
  match client_call cl md path with
  | None => Nd [Nd [Nn 99]]
  | Some (h, c) =>
      match channel_request ep_origin custom_ua tonic_ua h with
      | ChErr => Nd [Nd [Nn 96]]
      | ChOk h' =>
          let fs := frames_of (run_body (list N) cenc ser_raw (compress_tbl tbl) c Client src 0) in
          Nd [req_head_obs h';
              Nd (segs (runs (concat (datas_of fs))) []);
              obool (existsb (fun f => match f with FTrailers _ => true | _ => false end) fs);
              obool (existsb (fun f => match f with FErr _ => true | _ => false end) fs)]
      end
  end.
