(* Model of compression negotiation: tonic/src/codec/compression.rs (EnabledCompressionEncodings,
   from_accept_encoding_header, from_encoding_header), the glue in tonic/src/server/grpc.rs
   (unary / map_request_unary / map_response) and tonic/src/client/grpc.rs (prepare_request /
   create_response), the per-response opt-out of tonic/src/response.rs, and the decoder's rule
   for the compressed-flag (tonic/src/codec/decode.rs, decode_chunk).
   The tables (encodings, their names, header names, token tables) come from
   Gen/CompressionTables.v, regenerated from the source on every run.  No proofs here. *)
From Verif Require Import Lib.Bytes Lib.Obs Lib.Percent Lib.HeaderMap.
From Verif Require Import Gen.StatusTables Gen.CompressionTables Model.Status.
From Coq Require Import String.
Open Scope list_scope.
Open Scope N_scope.

(* ------------------------------------------------------------------ encodings *)
Definition encoding_eqb (a b : encoding) : bool :=
  match a, b with
  | Gzip, Gzip | Deflate, Deflate | Zstd, Zstd => true
  | _, _ => false
  end.

Fixpoint assoc_enc {V} (t : list (encoding * V)) (e : encoding) : option V :=
  match t with
  | [] => None
  | (e', v) :: r => if encoding_eqb e' e then Some v else assoc_enc r e
  end.

(* CompressionEncoding::as_str; the Rust match is exhaustive, [] is never taken *)
Definition as_str (e : encoding) : list N :=
  match assoc_enc as_str_table e with Some s => s | None => [] end.

(* ------------------------------------------------------------------ EnabledCompressionEncodings *)
(* inner: [Option<CompressionEncoding>; 3].  The functions below are written for a slot list
   of any length; the values that exist are the lists of length 3. *)
Definition enabled := list (option encoding).
Definition en_default : enabled := [None; None; None].

Definition slot_is (e : encoding) (o : option encoding) : bool :=
  match o with Some e' => encoding_eqb e' e | None => false end.
Definition slot_none (o : option encoding) : bool :=
  match o with Some _ => false | None => true end.

(* enable: first slot holding the encoding -> nothing to do; first free slot -> store *)
Fixpoint enable (c : enabled) (e : encoding) : enabled :=
  match c with
  | [] => []
  | Some e' :: r => if encoding_eqb e' e then c else Some e' :: enable r e
  | None :: r => Some e :: r
  end.

(* pop: take() the last occupied slot *)
Fixpoint pop (c : enabled) : enabled * option encoding :=
  match c with
  | [] => ([], None)
  | o :: r =>
      match pop r with
      | (r', Some e) => (o :: r', Some e)
      | (_, None) => match o with Some e => (None :: r, Some e) | None => (c, None) end
      end
  end.

Definition is_enabled (c : enabled) (e : encoding) : bool := existsb (slot_is e) c.
Definition is_empty (c : enabled) : bool := forallb slot_none c.

(* the encodings in slot order (inner.into_iter().flatten()) *)
Fixpoint en_list (c : enabled) : list encoding :=
  match c with
  | [] => []
  | Some e :: r => e :: en_list r
  | None :: r => en_list r
  end.

(* into_accept_encoding_header_value: None when nothing is enabled; the unwrap of
   HeaderValue::from_maybe_shared is a panic site *)
Inductive av_result := AvNone | AvSome (v : list N) | AvPanic.
Definition accept_value_body (c : enabled) : list N :=
  flat_map (fun e => as_str e ++ [accept_value_sep]) (en_list c).
Definition accept_value (c : enabled) : av_result :=
  match accept_value_body c with
  | [] => AvNone
  | value => match mk_hv (value ++ accept_value_tail) with
             | Some v => AvSome v
             | None => AvPanic
             end
  end.

(* ------------------------------------------------------------------ header value -> str, split, trim *)
(* http::HeaderValue::to_str: every byte visible ASCII (32..126) or tab *)
Definition is_visible_ascii (b : N) : bool := ((32 <=? b) && (b <? 127)) || (b =? 9).
Definition to_str (v : list N) : option (list N) :=
  if forallb is_visible_ascii v then Some v else None.

(* str::split(','): always at least one piece, empty pieces are kept *)
Definition COMMA : N := 44.
Fixpoint split_on (sep : N) (s : list N) : list (list N) :=
  match s with
  | [] => [[]]
  | b :: r =>
      if b =? sep then [] :: split_on sep r
      else match split_on sep r with
           | p :: ps => (b :: p) :: ps
           | [] => [[b]]
           end
  end.

(* str::trim removes char::is_whitespace; on an ASCII string that is space and 9..13.
   (to_str has already excluded non-ASCII bytes, so the multi-byte white space of Unicode
   cannot occur.) *)
Definition is_ws (b : N) : bool := (b =? 32) || ((9 <=? b) && (b <=? 13)).
Fixpoint trim_start (s : list N) : list N :=
  match s with
  | [] => []
  | b :: r => if is_ws b then trim_start r else s
  end.
Definition trim_end (s : list N) : list N := rev (trim_start (rev s)).
Definition trim (s : list N) : list N := trim_end (trim_start s).

(* split_by_comma *)
Definition split_by_comma (s : list N) : list (list N) := map trim (split_on COMMA s).

Definition token_encoding (t : list N) : option encoding := assoc_bytes accept_token_table t.

Fixpoint filter_map {A B} (f : A -> option B) (l : list A) : list B :=
  match l with
  | [] => []
  | x :: r => match f x with Some y => y :: filter_map f r | None => filter_map f r end
  end.

(* CompressionEncoding::from_accept_encoding_header (HeaderMap::get = first value of the name) *)
Definition from_accept_encoding_header (m : hm) (c : enabled) : option encoding :=
  if is_empty c then None
  else match hm_get m hdr_grpc_accept_encoding with
       | None => None
       | Some v =>
           match to_str v with
           | None => None
           | Some s => find (is_enabled c) (filter_map token_encoding (split_by_comma s))
           end
       end.

(* ------------------------------------------------------------------ from_encoding_header *)
(* text of the UNIMPLEMENTED status up to the offending value (the rest is not modelled) *)
Definition unsupported_msg_prefix : list N :=
  Eval vm_compute in bytes_of_string "Content is compressed with `".

(* the guarded arms in source order: an arm is taken iff the bytes match AND its guard holds *)
Fixpoint match_guarded (t : list (list N * encoding)) (v : list N) (c : enabled) : option encoding :=
  match t with
  | [] => None
  | (k, e) :: r => if bytes_eqb k v && is_enabled c e then Some e else match_guarded r v c
  end.

Inductive recv :=
| RecvOk (e : option encoding)
| RecvErr (st : status)
| RecvPanic.

Definition unimplemented_with_accept (hv : list N) : status :=
  mkStatus Code_Unimplemented unsupported_msg_prefix [] (hm_insert [] hdr_grpc_accept_encoding hv).

Definition from_encoding_header (m : hm) (c : enabled) : recv :=
  match hm_get m hdr_grpc_encoding with
  | None => RecvOk None
  | Some v =>
      match match_guarded encoding_header_table v c with
      | Some e => RecvOk (Some e)
      | None =>
          if bytes_eqb v encoding_header_identity then RecvOk None
          else match accept_value c with
               | AvPanic => RecvPanic
               | AvSome hv => RecvErr (unimplemented_with_accept hv)
               | AvNone =>
                   (* MetadataValue::from_static panics on an illegal value *)
                   match mk_hv accept_value_fallback with
                   | Some hv => RecvErr (unimplemented_with_accept hv)
                   | None => RecvPanic
                   end
               end
      end
  end.

(* ------------------------------------------------------------------ decoder: the compressed-flag *)
Definition flag_no_encoding_msg : list N :=
  Eval vm_compute in bytes_of_string
    "protocol error: received message with compressed-flag but no grpc-encoding was specified".
Definition flag_invalid_prefix : list N :=
  Eval vm_compute in bytes_of_string "protocol error: received message with invalid compression flag: ".
Definition decompress_err_prefix : list N :=
  Eval vm_compute in bytes_of_string "Error decompressing: ".

Definition internal (msg : list N) : status := mkStatus Code_Internal msg [] [].

(* decode_chunk, State::ReadHeader: what the first byte of a frame means given the encoding
   the stream was created with *)
Inductive flag_result :=
| FlagOk (compression : option encoding)
| FlagErr (st : status).
Definition decode_flag (stream_encoding : option encoding) (flag : N) : flag_result :=
  if flag =? 0 then FlagOk None
  else if flag =? 1 then
         match stream_encoding with
         | Some e => FlagOk (Some e)
         | None => FlagErr (internal flag_no_encoding_msg)
         end
  else FlagErr (internal flag_invalid_prefix).

(* a received first frame, abstractly: its flag byte and the set of codecs whose decompressor
   accepts the payload (flate2 / zstd are outside the model) *)
Definition inflates_with (ok : list encoding) (e : encoding) : bool := existsb (encoding_eqb e) ok.
Definition decode_first (stream_encoding : option encoding) (flag : N) (inflatable : list encoding)
  : unit + status :=
  match decode_flag stream_encoding flag with
  | FlagErr st => inr st
  | FlagOk None => inl tt
  | FlagOk (Some e) =>
      if inflates_with inflatable e then inl tt else inr (internal decompress_err_prefix)
  end.

(* encoder: the flag byte written by finish_encoding *)
Definition flag_of (compression : option encoding) : N :=
  match compression with Some _ => 1 | None => 0 end.

(* ------------------------------------------------------------------ server::Grpc *)
Inductive outcome (A : Type) : Type := Done (a : A) | Panic.
Arguments Done {A} a.
Arguments Panic {A}.

Definition hdr_content_type : list N := Eval vm_compute in bytes_of_string "content-type".
Definition grpc_content_type : list N := Eval vm_compute in bytes_of_string "application/grpc".
Definition hdr_te : list N := Eval vm_compute in bytes_of_string "te".
Definition te_trailers : list N := Eval vm_compute in bytes_of_string "trailers".

Record server := mkServer { sv_accept : enabled; sv_send : enabled }.
Definition server_new : server := mkServer en_default en_default.
Definition sv_accept_compressed (s : server) (e : encoding) : server :=
  mkServer (enable (sv_accept s) e) (sv_send s).
Definition sv_send_compressed (s : server) (e : encoding) : server :=
  mkServer (sv_accept s) (enable (sv_send s) e).
(* apply_compression_config (used by generated servers): re-enables in ENCODINGS order *)
Definition apply_compression_config (s : server) (acc snd : enabled) : server :=
  fold_left (fun s e =>
               let s := if is_enabled acc e then sv_accept_compressed s e else s in
               if is_enabled snd e then sv_send_compressed s e else s)
            encodings_all s.

Definition config_of (l : list encoding) : enabled := fold_left enable l en_default.
Definition server_of (acc snd : list encoding) : server := mkServer (config_of acc) (config_of snd).

(* SingleMessageCompressionOverride, set by Response::disable_compression *)
Inductive override := Inherit | Disable.

(* what the unary handler returned: a response (its metadata, its extension) or a status *)
Inductive handler_result :=
| HOk (md : hm) (ov : override)
| HErr (st : status).

(* the request as the server sees it: headers, and the first frame of the body *)
Record request := mkRequest { rq_headers : hm; rq_flag : N; rq_inflates : list encoding }.

Inductive response :=
| RespStatus (st : status) (headers : hm)    (* Status::into_http: headers only *)
| RespOk (headers : hm) (flag : N) (used : option encoding)
                                             (* headers, one message frame, grpc-status 0 trailers *)
| RespPanic.

(* Status::into_http: content-type then add_header(..).unwrap() *)
Definition status_into_http (st : status) : response :=
  match add_header st (hm_insert [] hdr_content_type grpc_content_type) with
  | Some m => RespStatus st m
  | None => RespPanic
  end.

(* EncodedBytes::new: the opt-out clears the encoding used for the frames *)
Definition effective_encoding (chosen : option encoding) (ov : override) : option encoding :=
  match ov with Disable => None | Inherit => chosen end.

(* Grpc::map_response *)
Definition map_response (r : handler_result) (accept_encoding : option encoding) : response :=
  match r with
  | HErr st => status_into_http st
  | HOk md ov =>
      let h0 := sanitize md in
      let h1 := hm_insert h0 hdr_content_type grpc_content_type in
      let h2 := match accept_encoding with
                | Some e =>
                    (* into_header_value = HeaderValue::from_static: panics on an illegal value *)
                    match mk_hv (as_str e) with
                    | Some v => Done (hm_insert h1 hdr_grpc_encoding v)
                    | None => Panic
                    end
                | None => Done h1
                end in
      match h2 with
      | Panic => RespPanic
      | Done h2 =>
          let eff := effective_encoding accept_encoding ov in
          RespOk h2 (flag_of eff) eff
      end
  end.

(* Grpc::unary with map_request_unary inlined *)
Definition server_unary (sv : server) (rq : request) (h : handler_result) : response :=
  let accept_encoding := from_accept_encoding_header (rq_headers rq) (sv_send sv) in
  match from_encoding_header (rq_headers rq) (sv_accept sv) with
  | RecvPanic => RespPanic
  | RecvErr st => status_into_http st
  | RecvOk request_encoding =>
      match decode_first request_encoding (rq_flag rq) (rq_inflates rq) with
      | inr st => status_into_http st
      | inl _ => map_response h accept_encoding
      end
  end.

(* ------------------------------------------------------------------ client::Grpc *)
Record client := mkClient { cl_send : option encoding; cl_accept : enabled }.
Definition client_new : client := mkClient None en_default.
Definition cl_send_compressed (c : client) (e : encoding) : client := mkClient (Some e) (cl_accept c).
Definition cl_accept_compressed (c : client) (e : encoding) : client :=
  mkClient (cl_send c) (enable (cl_accept c) e).
Definition client_of (sends acc : list encoding) : client :=
  fold_left cl_accept_compressed acc (fold_left cl_send_compressed sends client_new).

(* GrpcConfig::prepare_request, headers only *)
Definition prepare_request (c : client) (user_md : hm) : outcome hm :=
  let h0 := sanitize user_md in
  let h1 := hm_insert h0 hdr_te te_trailers in
  let h2 := hm_insert h1 hdr_content_type grpc_content_type in
  let h3 := match cl_send c with
            | Some e => match mk_hv (as_str e) with
                        | Some v => Done (hm_insert h2 hdr_grpc_encoding v)
                        | None => Panic
                        end
            | None => Done h2
            end in
  match h3 with
  | Panic => Panic
  | Done h3 =>
      match accept_value (cl_accept c) with
      | AvSome v => Done (hm_insert h3 hdr_grpc_accept_encoding v)
      | AvNone => Done h3
      | AvPanic => Panic
      end
  end.

(* EncodeBody::new_client: request frames use exactly the configured encoding *)
Definition client_request_encoding (c : client) : option encoding := cl_send c.

(* Grpc::create_response: the encoding check comes first, then the trailers-only test *)
Inductive client_stream :=
| ClErr (st : status)                      (* Err(status) from the call *)
| ClStream (enc : option encoding)         (* Streaming::new_response(.., encoding, ..) *)
| ClEmpty                                  (* grpc-status: 0 in the headers: Streaming::new_empty *)
| ClPanic.
Definition create_response (c : client) (headers : hm) : client_stream :=
  match from_encoding_header headers (cl_accept c) with
  | RecvPanic => ClPanic
  | RecvErr st => ClErr st
  | RecvOk enc =>
      match from_header_map headers with
      | Some st => if st_code st =? Code_Ok then ClEmpty else ClErr st
      | None => ClStream enc
      end
  end.

(* the first message of the response stream *)
Inductive client_result :=
| CrErr (st : status)
| CrMessage
| CrEnd
| CrPanic.
Definition client_receive (c : client) (headers : hm) (flag : N) (inflates : list encoding)
  : client_result :=
  match create_response c headers with
  | ClPanic => CrPanic
  | ClErr st => CrErr st
  | ClEmpty => CrEnd
  | ClStream enc =>
      match decode_first enc flag inflates with
      | inl _ => CrMessage
      | inr st => CrErr st
      end
  end.

(* ------------------------------------------------------------------ observables *)
Definition enc_tag (o : option encoding) : N :=
  match o with None => 0 | Some Gzip => 1 | Some Deflate => 2 | Some Zstd => 3 end.

(* the protocol headers looked at when the full map contains unmodelled text (grpc-message) *)
Definition sel_keys : list (list N) :=
  [hdr_content_type; hdr_grpc_status; hdr_grpc_encoding; hdr_grpc_accept_encoding].
Definition sel (m : hm) : tr := Nd (map (fun k => Nd (map Bs (hm_get_all m k))) sel_keys).

Definition msg_prefixes : list (list N) :=
  [unsupported_msg_prefix; flag_no_encoding_msg; flag_invalid_prefix; decompress_err_prefix].
Fixpoint canon_by (ps : list (list N)) (m : list N) : list N :=
  match ps with
  | [] => m
  | p :: r => if is_prefix p m then p else canon_by r m
  end.
Definition status_brief (st : status) : tr :=
  Nd [Nn (st_code st); Bs (canon_by msg_prefixes (st_msg st));
      Nd (map Bs (hm_get_all (st_md st) hdr_grpc_accept_encoding))].

Definition obs_response (r : response) : tr :=
  match r with
  | RespStatus st m => Nd [Nn 1; status_brief st; sel m]
  | RespOk m flag used => Nd [Nn 0; hm_canon m; Nn flag; Nn (enc_tag used)]
  | RespPanic => Nd [Nn 99]
  end.
Definition obs_server (sv : server) (rq : request) (h : handler_result) : tr :=
  obs_response (server_unary sv rq h).

Definition obs_client_request (c : client) (user_md : hm) : tr :=
  match prepare_request c user_md with
  | Panic => Nd [Nn 99]
  | Done m => Nd [Nn 0; hm_canon m; Nn (flag_of (client_request_encoding c));
                  Nn (enc_tag (client_request_encoding c))]
  end.
Definition obs_client_receive (c : client) (headers : hm) (flag : N) (inflates : list encoding) : tr :=
  match client_receive c headers flag inflates with
  | CrErr st => Nd [Nn 1; status_brief st]
  | CrMessage => Nd [Nn 0]
  | CrEnd => Nd [Nn 2]
  | CrPanic => Nd [Nn 99]
  end.

(* a response without any body frame (trailers-only): only create_response matters *)
Definition obs_client_no_body (c : client) (headers : hm) : tr :=
  match create_response c headers with
  | ClErr st => Nd [Nn 1; status_brief st]
  | ClEmpty => Nd [Nn 2]
  | ClStream _ => Nd [Nn 3]
  | ClPanic => Nd [Nn 99]
  end.

(* the pure functions of compression.rs on their own *)
Definition obs_accept_value (c : enabled) : tr :=
  match accept_value c with
  | AvNone => Nd []
  | AvSome v => Nd [Bs v]
  | AvPanic => Nd [Nn 99]
  end.
Definition obs_config (c : enabled) : tr :=
  Nd [Nd (map (fun e => Nn (enc_tag (Some e))) (en_list c)); obool (is_empty c);
      Nd (map (fun e => obool (is_enabled c e)) encodings_all); obs_accept_value c].

(* sequences of the public mutators of EnabledCompressionEncodings, observed through Debug,
   is_enabled and is_empty *)
Inductive cfg_op := OpEnable (e : encoding) | OpPop.
Fixpoint run_ops (c : enabled) (ops : list cfg_op) : enabled * list (option encoding) :=
  match ops with
  | [] => (c, [])
  | OpEnable e :: r => run_ops (enable c e) r
  | OpPop :: r => let '(c', p) := pop c in let '(c'', ps) := run_ops c' r in (c'', p :: ps)
  end.
Definition obs_ops (ops : list cfg_op) : tr :=
  let '(c, pops) := run_ops en_default ops in
  Nd [Nd (map (fun o => Nn (enc_tag o)) c); Nd (map (fun o => Nn (enc_tag o)) pops);
      obool (is_empty c); Nd (map (fun e => obool (is_enabled c e)) encodings_all)].
