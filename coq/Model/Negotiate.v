(* Model of compression negotiation: tonic/src/codec/compression.rs (EnabledCompressionEncodings,
   from_accept_encoding_header, from_encoding_header), the glue in tonic/src/server/grpc.rs
   (the four entry points unary / server_streaming / client_streaming / streaming with
   map_request_unary / map_request_streaming / map_response) and tonic/src/client/grpc.rs (the four
   call shapes, which all go through streaming: prepare_request / create_response), the per-response opt-out of tonic/src/response.rs, and the decoder's rule
   for the compressed-flag (tonic/src/codec/decode.rs, decode_chunk).
   The tables (encodings, their names, header names, token tables) come from
   Gen/CompressionTables.v, regenerated from the source on every run.  No proofs here. *)
From Verif Require Import Lib.Bytes Lib.Obs Lib.Percent Lib.HeaderMap.
From Verif Require Import Gen.StatusTables Gen.CompressionTables Model.Frame Model.Status.
From Coq Require Import String.
Open Scope list_scope.
Open Scope N_scope.

(* ------------------------------------------------------------------ encodings *)
Definition encoding_eqb (a b : encoding) : bool :=
  match a, b with
  | Gzip, Gzip | Deflate, Deflate | Zstd, Zstd => true
  | _, _ => false
  end.

Fixpoint assoc_enc {V} (t : list (encoding * V)) (e : encoding) : option V :=
  match t with
  | [] => None
  | (e', v) :: r => if encoding_eqb e' e then Some v else assoc_enc r e
  end.

(* CompressionEncoding::as_str; the Rust match is exhaustive, [] is never taken *)
Definition as_str (e : encoding) : list N :=
  match assoc_enc as_str_table e with Some s => s | None => [] end.

(* ------------------------------------------------------------------ EnabledCompressionEncodings *)
(* inner: [Option<CompressionEncoding>; 3].  The functions below are written for a slot list
   of any length; the values that exist are the lists of length 3. *)
Definition enabled := list (option encoding).
Definition en_default : enabled := [None; None; None].

Definition slot_is (e : encoding) (o : option encoding) : bool :=
  match o with Some e' => encoding_eqb e' e | None => false end.
Definition slot_none (o : option encoding) : bool :=
  match o with Some _ => false | None => true end.

(* enable: first slot holding the encoding -> nothing to do; first free slot -> store *)
Fixpoint enable (c : enabled) (e : encoding) : enabled :=
  match c with
  | [] => []
  | Some e' :: r => if encoding_eqb e' e then c else Some e' :: enable r e
  | None :: r => Some e :: r
  end.

(* pop: take() the last occupied slot *)
Fixpoint pop (c : enabled) : enabled * option encoding :=
  match c with
  | [] => ([], None)
  | o :: r =>
      match pop r with
      | (r', Some e) => (o :: r', Some e)
      | (_, None) => match o with Some e => (None :: r, Some e) | None => (c, None) end
      end
  end.

Definition is_enabled (c : enabled) (e : encoding) : bool := existsb (slot_is e) c.
Definition is_empty (c : enabled) : bool := forallb slot_none c.

(* the encodings in slot order (inner.into_iter().flatten()) *)
Fixpoint en_list (c : enabled) : list encoding :=
  match c with
  | [] => []
  | Some e :: r => e :: en_list r
  | None :: r => en_list r
  end.

(* into_accept_encoding_header_value: None when nothing is enabled; the unwrap of
   HeaderValue::from_maybe_shared is a panic site *)
Inductive av_result := AvNone | AvSome (v : list N) | AvPanic.
Definition accept_value_body (c : enabled) : list N :=
  flat_map (fun e => as_str e ++ [accept_value_sep]) (en_list c).
Definition accept_value (c : enabled) : av_result :=
  match accept_value_body c with
  | [] => AvNone
  | value => match mk_hv (value ++ accept_value_tail) with
             | Some v => AvSome v
             | None => AvPanic
             end
  end.

(* ------------------------------------------------------------------ header value -> str, split, trim *)
(* http::HeaderValue::to_str: every byte visible ASCII (32..126) or tab *)
Definition is_visible_ascii (b : N) : bool := ((32 <=? b) && (b <? 127)) || (b =? 9).
Definition to_str (v : list N) : option (list N) :=
  if forallb is_visible_ascii v then Some v else None.

(* str::split(','): always at least one piece, empty pieces are kept *)
Definition COMMA : N := 44.
Fixpoint split_on (sep : N) (s : list N) : list (list N) :=
  match s with
  | [] => [[]]
  | b :: r =>
      if b =? sep then [] :: split_on sep r
      else match split_on sep r with
           | p :: ps => (b :: p) :: ps
           | [] => [[b]]
           end
  end.

(* str::trim removes char::is_whitespace; on an ASCII string that is space and 9..13.
   (to_str has already excluded non-ASCII bytes, so the multi-byte white space of Unicode
   cannot occur.) *)
Definition is_ws (b : N) : bool := (b =? 32) || ((9 <=? b) && (b <=? 13)).
Fixpoint trim_start (s : list N) : list N :=
  match s with
  | [] => []
  | b :: r => if is_ws b then trim_start r else s
  end.
Definition trim_end (s : list N) : list N := rev (trim_start (rev s)).
Definition trim (s : list N) : list N := trim_end (trim_start s).

(* split_by_comma *)
Definition split_by_comma (s : list N) : list (list N) := map trim (split_on COMMA s).

Definition token_encoding (t : list N) : option encoding := assoc_bytes accept_token_table t.

Fixpoint filter_map {A B} (f : A -> option B) (l : list A) : list B :=
  match l with
  | [] => []
  | x :: r => match f x with Some y => y :: filter_map f r | None => filter_map f r end
  end.

(* CompressionEncoding::from_accept_encoding_header (HeaderMap::get = first value of the name) *)
Definition from_accept_encoding_header (m : hm) (c : enabled) : option encoding :=
  if is_empty c then None
  else match hm_get m hdr_grpc_accept_encoding with
       | None => None
       | Some v =>
           match to_str v with
           | None => None
           | Some s => find (is_enabled c) (filter_map token_encoding (split_by_comma s))
           end
       end.

(* ------------------------------------------------------------------ from_encoding_header *)
(* text of the UNIMPLEMENTED status up to the offending value (the rest is not modelled) *)
Definition unsupported_msg_prefix : list N :=
  Eval vm_compute in bytes_of_string "Content is compressed with `".

(* the guarded arms in source order: an arm is taken iff the bytes match AND its guard holds *)
Fixpoint match_guarded (t : list (list N * encoding)) (v : list N) (c : enabled) : option encoding :=
  match t with
  | [] => None
  | (k, e) :: r => if bytes_eqb k v && is_enabled c e then Some e else match_guarded r v c
  end.

Inductive recv :=
| RecvOk (e : option encoding)
| RecvErr (st : status)
| RecvPanic.

Definition unimplemented_with_accept (hv : list N) : status :=
  mkStatus Code_Unimplemented unsupported_msg_prefix [] (hm_insert [] hdr_grpc_accept_encoding hv).

Definition from_encoding_header (m : hm) (c : enabled) : recv :=
  match hm_get m hdr_grpc_encoding with
  | None => RecvOk None
  | Some v =>
      match match_guarded encoding_header_table v c with
      | Some e => RecvOk (Some e)
      | None =>
          if bytes_eqb v encoding_header_identity then RecvOk None
          else match accept_value c with
               | AvPanic => RecvPanic
               | AvSome hv => RecvErr (unimplemented_with_accept hv)
               | AvNone =>
                   (* MetadataValue::from_static panics on an illegal value *)
                   match mk_hv accept_value_fallback with
                   | Some hv => RecvErr (unimplemented_with_accept hv)
                   | None => RecvPanic
                   end
               end
      end
  end.

(* ------------------------------------------------------------------ decoder: the compressed-flag *)
Definition flag_no_encoding_msg : list N :=
  Eval vm_compute in bytes_of_string
    "protocol error: received message with compressed-flag but no grpc-encoding was specified".
Definition flag_invalid_prefix : list N :=
  Eval vm_compute in bytes_of_string "protocol error: received message with invalid compression flag: ".
Definition decompress_err_prefix : list N :=
  Eval vm_compute in bytes_of_string "Error decompressing: ".

Definition internal (msg : list N) : status := mkStatus Code_Internal msg [] [].

(* decode_chunk, State::ReadHeader: what the first byte of a frame means given the encoding
   the stream was created with *)
Inductive flag_result :=
| FlagOk (compression : option encoding)
| FlagErr (st : status).
Definition decode_flag (stream_encoding : option encoding) (flag : N) : flag_result :=
  if flag =? 0 then FlagOk None
  else if flag =? 1 then
         match stream_encoding with
         | Some e => FlagOk (Some e)
         | None => FlagErr (internal flag_no_encoding_msg)
         end
  else FlagErr (internal flag_invalid_prefix).

(* a received frame, abstractly: its flag byte and the set of codecs whose decompressor accepts
   the payload (flate2 / zstd are outside the model) *)
Definition inflates_with (ok : list encoding) (e : encoding) : bool := existsb (encoding_eqb e) ok.
Definition decode_first (stream_encoding : option encoding) (flag : N) (inflatable : list encoding)
  : unit + status :=
  match decode_flag stream_encoding flag with
  | FlagErr st => inr st
  | FlagOk None => inl tt
  | FlagOk (Some e) =>
      if inflates_with inflatable e then inl tt else inr (internal decompress_err_prefix)
  end.

Record rframe := mkFrame { rf_flag : N; rf_inflates : list encoding }.
(* reading a stream of frames to its end: the messages delivered before the first error (the
   error is final), and that error if any *)
Fixpoint decode_all (enc : option encoding) (fs : list rframe) : nat * (unit + status) :=
  match fs with
  | [] => (O, inl tt)
  | f :: r =>
      match decode_first enc (rf_flag f) (rf_inflates f) with
      | inr st => (O, inr st)
      | inl _ => let '(n, e) := decode_all enc r in (S n, e)
      end
  end.

(* encoder: the flag byte written by finish_encoding *)
Definition flag_of (compression : option encoding) : N :=
  match compression with Some _ => 1 | None => 0 end.

(* a frame as sent: the coding it was produced with, and its bytes *)
Record wframe := mkWire { wf_flag : N; wf_used : option encoding; wf_bytes : list N }.

Section Codec.
  (* flate2 / zstd compressors: external, an arbitrary function here *)
  Variable cmp : encoding -> list N -> list N.
  (* encode_item + finish_encoding *)
  Definition encode_item (compression : option encoding) (msg : list N) : wframe :=
    mkWire (flag_of compression) compression
           (frame (flag_of compression)
                  (match compression with Some e => cmp e msg | None => msg end)).
End Codec.

(* ------------------------------------------------------------------ server::Grpc *)
Inductive outcome (A : Type) : Type := Done (a : A) | Panic.
Arguments Done {A} a.
Arguments Panic {A}.

Definition hdr_content_type : list N := Eval vm_compute in bytes_of_string "content-type".
Definition grpc_content_type : list N := Eval vm_compute in bytes_of_string "application/grpc".
Definition hdr_te : list N := Eval vm_compute in bytes_of_string "te".
Definition te_trailers : list N := Eval vm_compute in bytes_of_string "trailers".
Definition missing_request_msg : list N := Eval vm_compute in bytes_of_string "Missing request message.".
Definition missing_response_msg : list N := Eval vm_compute in bytes_of_string "Missing response message.".

Record server := mkServer { sv_accept : enabled; sv_send : enabled }.
Definition server_new : server := mkServer en_default en_default.
Definition sv_accept_compressed (s : server) (e : encoding) : server :=
  mkServer (enable (sv_accept s) e) (sv_send s).
Definition sv_send_compressed (s : server) (e : encoding) : server :=
  mkServer (sv_accept s) (enable (sv_send s) e).
(* apply_compression_config (used by generated servers): re-enables in ENCODINGS order *)
Definition apply_compression_config (s : server) (acc snd : enabled) : server :=
  fold_left (fun s e =>
               let s := if is_enabled acc e then sv_accept_compressed s e else s in
               if is_enabled snd e then sv_send_compressed s e else s)
            encodings_all s.

Definition config_of (l : list encoding) : enabled := fold_left enable l en_default.
Definition server_of (acc snd : list encoding) : server := mkServer (config_of acc) (config_of snd).

(* the four entry points of server::Grpc (and the four call shapes of client::Grpc) *)
Inductive shape := Unary | ServerStreaming | ClientStreaming | Streaming.
(* unary / server_streaming read the request through map_request_unary, the other two hand a
   Streaming to the handler (map_request_streaming) *)
Definition request_is_unary (s : shape) : bool :=
  match s with Unary | ServerStreaming => true | _ => false end.
(* unary / client_streaming answer with one message and honour the per-response opt-out *)
Definition response_is_unary (s : shape) : bool :=
  match s with Unary | ClientStreaming => true | _ => false end.

(* SingleMessageCompressionOverride, set by Response::disable_compression *)
Inductive override := Inherit | Disable.
(* compression_override_from_response is consulted by unary and client_streaming only; the
   other two pass SingleMessageCompressionOverride::default() *)
Definition override_for (s : shape) (ov : override) : override :=
  if response_is_unary s then ov else Inherit.

(* what the handler returned: a response (its metadata, its extension, its message(s)) or a
   status.  A unary response has exactly one message. *)
Inductive handler_result :=
| HOk (md : hm) (ov : override) (msgs : list (list N))
| HErr (st : status).
Definition response_messages (s : shape) (msgs : list (list N)) : list (list N) :=
  if response_is_unary s then [hd [] msgs] else msgs.
(* the handler sees what reading the request gave: for the unary request shapes it is only
   called after a successful read; for the streaming ones it reads the stream itself and is
   given the outcome (messages before the first error, the error if any) *)
Definition handler := nat * (unit + status) -> handler_result.

(* the request as the server sees it: headers, and the frames of the body *)
Record request := mkRequest { rq_headers : hm; rq_frames : list rframe }.

Inductive response :=
| RespStatus (st : status) (headers : hm)    (* Status::into_http: headers only *)
| RespOk (headers : hm) (frames : list wframe)
                                             (* headers, message frames, grpc-status 0 trailers *)
| RespPanic.

(* Status::into_http: content-type then add_header(..).unwrap() *)
Definition status_into_http (st : status) : response :=
  match add_header st (hm_insert [] hdr_content_type grpc_content_type) with
  | Some m => RespStatus st m
  | None => RespPanic
  end.

(* EncodedBytes::new: the opt-out clears the encoding used for the frames *)
Definition effective_encoding (chosen : option encoding) (ov : override) : option encoding :=
  match ov with Disable => None | Inherit => chosen end.

(* map_request_unary: first message (try_next), then trailers() drains the rest; an error
   anywhere is the result, an empty body is INTERNAL *)
Definition map_request_unary (enc : option encoding) (fs : list rframe) : nat * (unit + status) :=
  match fs with
  | [] => (O, inr (internal missing_request_msg))
  | _ => decode_all enc fs
  end.

Section ServerCodec.
  Variable cmp : encoding -> list N -> list N.

  (* Grpc::map_response (the t! macro turns Err(status) into status.into_http()) *)
  Definition map_response (s : shape) (r : handler_result) (accept_encoding : option encoding)
    : response :=
    match r with
    | HErr st => status_into_http st
    | HOk md ov msgs =>
        let h0 := sanitize md in
        let h1 := hm_insert h0 hdr_content_type grpc_content_type in
        let h2 := match accept_encoding with
                  | Some e =>
                      (* into_header_value = HeaderValue::from_static: panics on an illegal value *)
                      match mk_hv (as_str e) with
                      | Some v => Done (hm_insert h1 hdr_grpc_encoding v)
                      | None => Panic
                      end
                  | None => Done h1
                  end in
        match h2 with
        | Panic => RespPanic
        | Done h2 =>
            let eff := effective_encoding accept_encoding (override_for s ov) in
            RespOk h2 (map (encode_item cmp eff) (response_messages s msgs))
        end
    end.

  (* Grpc::unary / server_streaming / client_streaming / streaming.  Each of the four computes
     accept_encoding from its own copy of from_accept_encoding_header(.., send) and reads
     grpc-encoding through request_encoding_if_supported(.., accept). *)
  Definition server_call (s : shape) (sv : server) (rq : request) (h : handler) : response :=
    let accept_encoding := from_accept_encoding_header (rq_headers rq) (sv_send sv) in
    match from_encoding_header (rq_headers rq) (sv_accept sv) with
    | RecvPanic => RespPanic
    | RecvErr st => status_into_http st
    | RecvOk request_encoding =>
        if request_is_unary s then
          match map_request_unary request_encoding (rq_frames rq) with
          | (_, inr st) => status_into_http st
          | (n, inl u) => map_response s (h (n, inl u)) accept_encoding
          end
        else map_response s (h (decode_all request_encoding (rq_frames rq))) accept_encoding
    end.
End ServerCodec.

(* the handler of the correspondence harness: a stream error becomes its own result *)
Definition propagate (r : handler_result) : handler :=
  fun d => match snd d with inl _ => r | inr st => HErr st end.

(* ------------------------------------------------------------------ client::Grpc *)
Record client := mkClient { cl_send : option encoding; cl_accept : enabled }.
Definition client_new : client := mkClient None en_default.
Definition cl_send_compressed (c : client) (e : encoding) : client := mkClient (Some e) (cl_accept c).
Definition cl_accept_compressed (c : client) (e : encoding) : client :=
  mkClient (cl_send c) (enable (cl_accept c) e).
Definition client_of (sends acc : list encoding) : client :=
  fold_left cl_accept_compressed acc (fold_left cl_send_compressed sends client_new).

(* GrpcConfig::prepare_request, headers only *)
Definition prepare_request (c : client) (user_md : hm) : outcome hm :=
  let h0 := sanitize user_md in
  let h1 := hm_insert h0 hdr_te te_trailers in
  let h2 := hm_insert h1 hdr_content_type grpc_content_type in
  let h3 := match cl_send c with
            | Some e => match mk_hv (as_str e) with
                        | Some v => Done (hm_insert h2 hdr_grpc_encoding v)
                        | None => Panic
                        end
            | None => Done h2
            end in
  match h3 with
  | Panic => Panic
  | Done h3 =>
      match accept_value (cl_accept c) with
      | AvSome v => Done (hm_insert h3 hdr_grpc_accept_encoding v)
      | AvNone => Done h3
      | AvPanic => Panic
      end
  end.

(* Grpc::unary -> client_streaming -> streaming and server_streaming -> streaming: every shape
   builds its request in streaming (EncodeBody::new_client with the configured encoding, then
   prepare_request); unary and server_streaming send exactly one message *)
Definition request_messages (s : shape) (msgs : list (list N)) : list (list N) :=
  if request_is_unary s then [hd [] msgs] else msgs.
Definition client_request (cmp : encoding -> list N -> list N) (s : shape) (c : client)
           (user_md : hm) (msgs : list (list N)) : outcome (hm * list wframe) :=
  match prepare_request c user_md with
  | Panic => Panic
  | Done h => Done (h, map (encode_item cmp (cl_send c)) (request_messages s msgs))
  end.

(* Grpc::create_response: the encoding check comes first, then the trailers-only test *)
Inductive client_stream :=
| ClErr (st : status)                      (* Err(status) from the call *)
| ClStream (enc : option encoding)         (* Streaming::new_response(.., encoding, ..) *)
| ClEmpty                                  (* grpc-status: 0 in the headers: Streaming::new_empty *)
| ClPanic.
Definition create_response (c : client) (headers : hm) : client_stream :=
  match from_encoding_header headers (cl_accept c) with
  | RecvPanic => ClPanic
  | RecvErr st => ClErr st
  | RecvOk enc =>
      match from_header_map headers with
      | Some st => if st_code st =? Code_Ok then ClEmpty else ClErr st
      | None => ClStream enc
      end
  end.

(* what the caller gets: messages delivered, then a clean end or a status *)
Inductive client_result :=
| CrDone (delivered : nat) (final : unit + status)
| CrPanic.
(* the response stream read to its end (body = frames, then grpc-status 0 trailers) *)
Definition read_response (c : client) (headers : hm) (fs : list rframe) : client_result :=
  match create_response c headers with
  | ClPanic => CrPanic
  | ClErr st => CrDone O (inr st)
  | ClEmpty => CrDone O (inl tt)
  | ClStream enc => let '(n, e) := decode_all enc fs in CrDone n e
  end.
(* Grpc::client_streaming (also behind unary): the first message is the response; an error on
   it gets the response headers merged into its metadata; trailers() then drains the rest *)
Definition with_headers (st : status) (headers : hm) : status :=
  mkStatus (st_code st) (st_msg st) (st_details st) (hm_extend (st_md st) headers).
Definition single_response (c : client) (headers : hm) (fs : list rframe) : client_result :=
  match create_response c headers with
  | ClPanic => CrPanic
  | ClErr st => CrDone O (inr st)
  | ClEmpty => CrDone O (inr (internal missing_response_msg))
  | ClStream enc =>
      match fs with
      | [] => CrDone O (inr (internal missing_response_msg))
      | f :: r =>
          match decode_first enc (rf_flag f) (rf_inflates f) with
          | inr st => CrDone O (inr (with_headers st headers))
          | inl _ => match decode_all enc r with
                     | (_, inr st) => CrDone O (inr st)
                     | (_, inl _) => CrDone 1 (inl tt)
                     end
          end
      end
  end.
Definition client_receive (s : shape) (c : client) (headers : hm) (fs : list rframe) : client_result :=
  if response_is_unary s then single_response c headers fs else read_response c headers fs.

(* ------------------------------------------------------------------ observables *)
Definition enc_tag (o : option encoding) : N :=
  match o with None => 0 | Some Gzip => 1 | Some Deflate => 2 | Some Zstd => 3 end.

(* the protocol headers looked at when the full map contains unmodelled text (grpc-message) *)
Definition sel_keys : list (list N) :=
  [hdr_content_type; hdr_grpc_status; hdr_grpc_encoding; hdr_grpc_accept_encoding].
Definition sel (m : hm) : tr := Nd (map (fun k => Nd (map Bs (hm_get_all m k))) sel_keys).

Definition msg_prefixes : list (list N) :=
  [unsupported_msg_prefix; flag_no_encoding_msg; flag_invalid_prefix; decompress_err_prefix;
   missing_request_msg; missing_response_msg].
Fixpoint canon_by (ps : list (list N)) (m : list N) : list N :=
  match ps with
  | [] => m
  | p :: r => if is_prefix p m then p else canon_by r m
  end.
Definition status_brief (st : status) : tr :=
  Nd [Nn (st_code st); Bs (canon_by msg_prefixes (st_msg st));
      Nd (map Bs (hm_get_all (st_md st) hdr_grpc_accept_encoding))].

(* the compressor as a finite table (what the independent codecs of the harness produced) *)
Fixpoint ctab (t : list (encoding * list N * list N)) (e : encoding) (m : list N) : list N :=
  match t with
  | [] => []
  | (e', m', c) :: r => if encoding_eqb e' e && bytes_eqb m' m then c else ctab r e m
  end.

Definition obs_wframe (f : wframe) : tr := Nd [Nn (wf_flag f); Nn (enc_tag (wf_used f)); Bs (wf_bytes f)].
Definition obs_response (r : response) : tr :=
  match r with
  | RespStatus st m => Nd [Nn 1; status_brief st; sel m]
  | RespOk m frames => Nd [Nn 0; hm_canon m; Nd (map obs_wframe frames)]
  | RespPanic => Nd [Nn 99]
  end.
Definition obs_server (t : list (encoding * list N * list N)) (s : shape) (sv : server)
           (rq : request) (h : handler_result) : tr :=
  obs_response (server_call (ctab t) s sv rq (propagate h)).

Definition obs_client_request (t : list (encoding * list N * list N)) (s : shape) (c : client)
           (user_md : hm) (msgs : list (list N)) : tr :=
  match client_request (ctab t) s c user_md msgs with
  | Panic => Nd [Nn 99]
  | Done (m, frames) => Nd [Nn 0; hm_canon m; Nd (map obs_wframe frames)]
  end.
Definition obs_client_receive (s : shape) (c : client) (headers : hm) (fs : list rframe) : tr :=
  match client_receive s c headers fs with
  | CrDone n (inl _) => Nd [Nn 0; Nn (N.of_nat n)]
  | CrDone n (inr st) => Nd [Nn 1; Nn (N.of_nat n); status_brief st]
  | CrPanic => Nd [Nn 99]
  end.

(* a generated client calling a generated server in-process: the request the client builds is the
   request the server reads, the response the server builds is the one the client reads.  A
   frame produced with coding e is inflatable by e (and only e). *)
Definition frame_in (f : wframe) : rframe :=
  mkFrame (wf_flag f) (match wf_used f with Some e => [e] | None => [] end).
Definition obs_client_result (r : client_result) : tr :=
  match r with
  | CrDone n (inl _) => Nd [Nn 0; Nn (N.of_nat n)]
  | CrDone n (inr st) => Nd [Nn 1; Nn (N.of_nat n); status_brief st]
  | CrPanic => Nd [Nn 99]
  end.
Definition obs_end_to_end (t : list (encoding * list N * list N)) (s : shape) (c : client)
           (sv : server) (user_md : hm) (msgs : list (list N)) (h : handler_result) : tr :=
  match client_request (ctab t) s c user_md msgs with
  | Panic => Nd [Nn 99]
  | Done (hdrs, frames) =>
      let resp := server_call (ctab t) s sv (mkRequest hdrs (map frame_in frames)) (propagate h) in
      let res := match resp with
                 | RespPanic => CrPanic
                 | RespStatus _ m => client_receive s c m []
                 | RespOk m fr => client_receive s c m (map frame_in fr)
                 end in
      Nd [obs_client_result res; Nd [hm_canon hdrs; Nd (map obs_wframe frames)]; obs_response resp]
  end.

(* sequences of the public mutators of EnabledCompressionEncodings, observed through Debug,
   is_enabled and is_empty *)
Inductive cfg_op := OpEnable (e : encoding) | OpPop.
Fixpoint run_ops (c : enabled) (ops : list cfg_op) : enabled * list (option encoding) :=
  match ops with
  | [] => (c, [])
  | OpEnable e :: r => run_ops (enable c e) r
  | OpPop :: r => let '(c', p) := pop c in let '(c'', ps) := run_ops c' r in (c'', p :: ps)
  end.
Definition obs_ops (ops : list cfg_op) : tr :=
  let '(c, pops) := run_ops en_default ops in
  Nd [Nd (map (fun o => Nn (enc_tag o)) c); Nd (map (fun o => Nn (enc_tag o)) pops);
      obool (is_empty c); Nd (map (fun e => obool (is_enabled c e)) encodings_all)].
