(* Model of tonic-types/src/richer_error (C20): the ten standard error detail messages, their
   conversion to and from `prost_types::Any`, `StatusExt` / `RpcStatusExt`.

   Layer A (Section LayerA): the control flow of richer_error/mod.rs over abstract payload
   codecs.  Layer B (after the section): the codecs themselves, written with the generic wire
   model of Model/ProtoWire.v and the field tags regenerated from the `#[prost(..)]`
   attributes (Gen/RichErrorTables.v), and the instantiation of layer A with them.
   No proofs in this file. *)
From Verif Require Import Lib.Bytes Lib.Obs Lib.Utf8 Lib.HeaderMap.
From Verif Require Import Gen.StatusTables Gen.RichErrorTables Model.Status Model.ProtoWire.
Open Scope N_scope.

Definition str : Type := list N.           (* a Rust String: its UTF-8 bytes *)

(* ---- std_messages/*.rs ---------------------------------------------------------------------- *)
(* std::time::Duration: u64 seconds, nanoseconds below 10^9 *)
Record duration := mkDur { d_secs : N; d_nanos : N }.
Record retry_info := mkRetryInfo { ri_retry_delay : option duration }.
Record debug_info := mkDebugInfo { di_stack_entries : list str; di_detail : str }.
Record quota_violation := mkQuotaViolation { qv_subject : str; qv_description : str }.
Record quota_failure := mkQuotaFailure { qf_violations : list quota_violation }.
(* metadata is a HashMap<String, String>: an association list with distinct keys, listed in the
   iteration order of the implementation's map (any order: it is an input) *)
Record error_info := mkErrorInfo { ei_reason : str; ei_domain : str; ei_metadata : list (str * str) }.
Record precondition_violation :=
  mkPreconditionViolation { pv_type : str; pv_subject : str; pv_description : str }.
Record precondition_failure := mkPreconditionFailure { pf_violations : list precondition_violation }.
Record field_violation := mkFieldViolation { fv_field : str; fv_description : str }.
Record bad_request := mkBadRequest { br_field_violations : list field_violation }.
Record request_info := mkRequestInfo { rq_request_id : str; rq_serving_data : str }.
Record resource_info :=
  mkResourceInfo { rs_resource_type : str; rs_resource_name : str; rs_owner : str; rs_description : str }.
Record help_link := mkHelpLink { hl_description : str; hl_url : str }.
Record help := mkHelp { h_links : list help_link }.
Record localized_message := mkLocalizedMessage { lm_locale : str; lm_message : str }.

(* error_details/vec.rs: enum ErrorDetail *)
Inductive error_detail : Type :=
| DRetryInfo (x : retry_info)
| DDebugInfo (x : debug_info)
| DQuotaFailure (x : quota_failure)
| DErrorInfo (x : error_info)
| DPreconditionFailure (x : precondition_failure)
| DBadRequest (x : bad_request)
| DRequestInfo (x : request_info)
| DResourceInfo (x : resource_info)
| DHelp (x : help)
| DLocalizedMessage (x : localized_message).

(* error_details/mod.rs: struct ErrorDetails *)
Record error_details := mkED {
  ed_retry_info : option retry_info;
  ed_debug_info : option debug_info;
  ed_quota_failure : option quota_failure;
  ed_error_info : option error_info;
  ed_precondition_failure : option precondition_failure;
  ed_bad_request : option bad_request;
  ed_request_info : option request_info;
  ed_resource_info : option resource_info;
  ed_help : option help;
  ed_localized_message : option localized_message }.
Definition ed_empty : error_details := mkED None None None None None None None None None None.

Inductive kind : Type :=
| KRetryInfo | KDebugInfo | KQuotaFailure | KErrorInfo | KPreconditionFailure
| KBadRequest | KRequestInfo | KResourceInfo | KHelp | KLocalizedMessage.
Definition all_kinds : list kind :=
  [KRetryInfo; KDebugInfo; KQuotaFailure; KErrorInfo; KPreconditionFailure;
   KBadRequest; KRequestInfo; KResourceInfo; KHelp; KLocalizedMessage].

Definition kind_of (d : error_detail) : kind :=
  match d with
  | DRetryInfo _ => KRetryInfo | DDebugInfo _ => KDebugInfo | DQuotaFailure _ => KQuotaFailure
  | DErrorInfo _ => KErrorInfo | DPreconditionFailure _ => KPreconditionFailure
  | DBadRequest _ => KBadRequest | DRequestInfo _ => KRequestInfo | DResourceInfo _ => KResourceInfo
  | DHelp _ => KHelp | DLocalizedMessage _ => KLocalizedMessage
  end.

(* <X>::TYPE_URL, regenerated from the source *)
Definition type_url (k : kind) : str :=
  match k with
  | KRetryInfo => TYPE_URL_RetryInfo | KDebugInfo => TYPE_URL_DebugInfo
  | KQuotaFailure => TYPE_URL_QuotaFailure | KErrorInfo => TYPE_URL_ErrorInfo
  | KPreconditionFailure => TYPE_URL_PreconditionFailure | KBadRequest => TYPE_URL_BadRequest
  | KRequestInfo => TYPE_URL_RequestInfo | KResourceInfo => TYPE_URL_ResourceInfo
  | KHelp => TYPE_URL_Help | KLocalizedMessage => TYPE_URL_LocalizedMessage
  end.

(* `match any.type_url.as_str() { RetryInfo::TYPE_URL => .., DebugInfo::TYPE_URL => .., .. , _ => {} }` *)
Definition kind_of_url (u : str) : option kind := find (fun k => bytes_eqb u (type_url k)) all_kinds.

(* prost_types::Any *)
Definition any : Type := (str * list N)%type.
(* pb::Status *)
Record pb_status := mkPbStatus { ps_code : Z; ps_message : str; ps_details : list any }.

(* BytesMut::remaining_mut() of an empty buffer: usize::MAX *)
Definition USIZE_MAX : N := 18446744073709551615.

(* RetryInfo::new: a delay above MAX_RETRY_DELAY is replaced by it *)
Definition dur_gtb (a b : duration) : bool :=
  (d_secs b <? d_secs a) || ((d_secs a =? d_secs b) && (d_nanos b <? d_nanos a)).
Definition MAX_RETRY_DELAY : duration := mkDur max_retry_delay_secs max_retry_delay_nanos.
Definition retry_info_new (d : option duration) : retry_info :=
  mkRetryInfo (match d with
               | Some delay => Some (if dur_gtb delay MAX_RETRY_DELAY then MAX_RETRY_DELAY else delay)
               | None => None
               end).

(* ============================================================================================ *)
Section LayerA.
  (* IntoAny: `pb::X::from(x).encode_to_vec()`, FromAnyRef: `pb::X::decode(&any.value)?.into()` *)
  Variable enc_detail : error_detail -> res (list N).
  Variable dec_detail : kind -> list N -> res error_detail.
  (* prost: pb::Status::encode_raw, pb::Status::decode *)
  Variable enc_status : pb_status -> list N.
  Variable dec_status : list N -> res pb_status.

  Definition into_any (d : error_detail) : res any :=
    bind (enc_detail d) (fun b => Ok (type_url (kind_of d), b)).

  (* gen_details_bytes: `status.encode(&mut buf).unwrap()`; encode fails iff
     encoded_len() > buf.remaining_mut() *)
  Definition gen_details_bytes (code : N) (message : str) (details : list any) : res (list N) :=
    let b := enc_status (mkPbStatus (Z.of_N code) message details) in
    if nlen b <=? USIZE_MAX then Ok b else Panic.

  (* the bytes gen_details_bytes has to write for a list of details *)
  Definition status_bytes (code : N) (message : str) (ds : list error_detail) : res (list N) :=
    bind (map_res into_any ds) (fun conv => Ok (enc_status (mkPbStatus (Z.of_N code) message conv))).

  Definition opt_list {A} (f : A -> error_detail) (o : option A) : list error_detail :=
    match o with Some x => [f x] | None => [] end.
  (* with_error_details_and_metadata: the ten `if let Some(x) = details.f { push(x.into_any()) }` *)
  Definition pushed (ed : error_details) : list error_detail :=
    opt_list DRetryInfo (ed_retry_info ed) ++ opt_list DDebugInfo (ed_debug_info ed) ++
    opt_list DQuotaFailure (ed_quota_failure ed) ++ opt_list DErrorInfo (ed_error_info ed) ++
    opt_list DPreconditionFailure (ed_precondition_failure ed) ++ opt_list DBadRequest (ed_bad_request ed) ++
    opt_list DRequestInfo (ed_request_info ed) ++ opt_list DResourceInfo (ed_resource_info ed) ++
    opt_list DHelp (ed_help ed) ++ opt_list DLocalizedMessage (ed_localized_message ed).

  Definition with_error_details_vec_and_metadata (code : N) (message : str) (ds : list error_detail) (md : hm)
    : res status :=
    bind (map_res into_any ds) (fun conv =>
    bind (gen_details_bytes code message conv) (fun details =>
    Ok (mkStatus code message details md))).
  Definition with_error_details_and_metadata (code : N) (message : str) (ed : error_details) (md : hm)
    : res status :=
    with_error_details_vec_and_metadata code message (pushed ed) md.

  (* RpcStatusExt for pb::Status *)
  Definition set_detail (ed : error_details) (d : error_detail) : error_details :=
    match ed with
    | mkED a b c e f g h i j k =>
        match d with
        | DRetryInfo x => mkED (Some x) b c e f g h i j k
        | DDebugInfo x => mkED a (Some x) c e f g h i j k
        | DQuotaFailure x => mkED a b (Some x) e f g h i j k
        | DErrorInfo x => mkED a b c (Some x) f g h i j k
        | DPreconditionFailure x => mkED a b c e (Some x) g h i j k
        | DBadRequest x => mkED a b c e f (Some x) h i j k
        | DRequestInfo x => mkED a b c e f g (Some x) i j k
        | DResourceInfo x => mkED a b c e f g h (Some x) j k
        | DHelp x => mkED a b c e f g h i (Some x) k
        | DLocalizedMessage x => mkED a b c e f g h i j (Some x)
        end
    end.
  (* one turn of `for any in self.details.iter() { match url { K::TYPE_URL => .. from_any_ref(any)? .., _ => {} } }` *)
  Definition step {S} (upd : S -> error_detail -> S) (s : S) (a : any) : res S :=
    match kind_of_url (fst a) with
    | Some k => bind (dec_detail k (snd a)) (fun d => Ok (upd s d))
    | None => Ok s
    end.
  Definition rpc_check_error_details (ps : pb_status) : res error_details :=
    fold_res (step set_detail) (ps_details ps) ed_empty.
  Definition rpc_check_error_details_vec (ps : pb_status) : res (list error_detail) :=
    fold_res (step (fun acc d => acc ++ [d])) (ps_details ps) [].
  (* get_details_<k>: the first entry with the URL of k that decodes *)
  Fixpoint rpc_get_details (k : kind) (l : list any) : res (option error_detail) :=
    match l with
    | [] => Ok None
    | a :: r =>
        if bytes_eqb (fst a) (type_url k) then
          match dec_detail k (snd a) with
          | Ok d => Ok (Some d)
          | Err => rpc_get_details k r
          | Panic => Panic
          | Fuel => Fuel
          end
        else rpc_get_details k r
    end.

  (* Result::unwrap_or_default *)
  Definition unwrap_or {A} (dflt : A) (r : res A) : res A :=
    match r with Ok x => Ok x | Err => Ok dflt | Panic => Panic | Fuel => Fuel end.

  (* StatusExt for tonic::Status *)
  Definition check_error_details (st : status) : res error_details :=
    bind (dec_status (st_details st)) rpc_check_error_details.
  Definition get_error_details (st : status) : res error_details :=
    unwrap_or ed_empty (check_error_details st).
  Definition check_error_details_vec (st : status) : res (list error_detail) :=
    bind (dec_status (st_details st)) rpc_check_error_details_vec.
  Definition get_error_details_vec (st : status) : res (list error_detail) :=
    unwrap_or [] (check_error_details_vec st).
  Definition get_details (k : kind) (st : status) : res (option error_detail) :=
    match dec_status (st_details st) with                  (* `.ok()?` *)
    | Ok ps => rpc_get_details k (ps_details ps)
    | Err => Ok None
    | Panic => Panic
    | Fuel => Fuel
    end.
End LayerA.

(* ============================================================================================ *)
(* Layer B: the payload codecs *)

(* ---- prost_types::Duration and its conversions (prost-types duration.rs) -------------------- *)
Record pb_duration := mkPbDur { pd_seconds : Z; pd_nanos : Z }.      (* i64, i32 *)
Definition NANOS_PER_SECOND : Z := 1000000000.
Definition NANOS_MAX : Z := 999999999.
Definition I64_MAX : Z := 9223372036854775807.
Definition I64_MIN : Z := (-9223372036854775808)%Z.
Definition checked_i64 (z : Z) : option Z := if ((I64_MIN <=? z) && (z <=? I64_MAX))%Z then Some z else None.

Open Scope Z_scope.
(* Duration::normalize.  The two inner `else` branches hold a debug_assert that is false whenever
   they are reached with the sign tested just before: explicit Panic. *)
Definition normalize (d : pb_duration) : res pb_duration :=
  let (s0, n0) := d in
  let '(s, n) :=
    if (n0 <=? - NANOS_PER_SECOND) || (n0 >=? NANOS_PER_SECOND) then
      match checked_i64 (s0 + Z.quot n0 NANOS_PER_SECOND) with
      | Some s' => (s', Z.rem n0 NANOS_PER_SECOND)
      | None => if n0 <? 0 then (I64_MIN, - NANOS_MAX) else (I64_MAX, NANOS_MAX)
      end
    else (s0, n0) in
  if (s <? 0) && (n >? 0) then
    match checked_i64 (s + 1) with
    | Some s' => Ok (mkPbDur s' (n - NANOS_PER_SECOND))
    | None => Panic
    end
  else if (s >? 0) && (n <? 0) then
    match checked_i64 (s - 1) with
    | Some s' => Ok (mkPbDur s' (n + NANOS_PER_SECOND))
    | None => Panic
    end
  else Ok (mkPbDur s n).
Close Scope Z_scope.

(* time::Duration::new: nanoseconds of a second or more are carried, `expect("overflow in
   Duration::new")` on the carry *)
Definition duration_new (secs nanos : N) : res duration :=
  if nanos <? 1000000000 then Ok (mkDur secs nanos)
  else let s := secs + nanos / 1000000000 in
       if s <? U64 then Ok (mkDur s (nanos mod 1000000000)) else Panic.

(* TryFrom<time::Duration> for prost_types::Duration: None = Err(OutOfRange) *)
Definition pb_of_std (d : duration) : res (option pb_duration) :=
  if d_secs d <? U63 then
    bind (normalize (mkPbDur (Z.of_N (d_secs d)) (Z.of_N (d_nanos d)))) (fun p => Ok (Some p))
  else Ok None.

(* From<RetryInfo> for pb::RetryInfo *)
Definition pb_retry_delay (d : duration) : res pb_duration :=
  bind (pb_of_std d) (fun o =>
    Ok (match o with
        | Some p => p
        | None => mkPbDur (Z.of_N fallback_delay_secs) (Z.of_N fallback_delay_nanos)
        end)).

(* From<pb::RetryInfo> for RetryInfo (after fix 8e72956b): normalize, negative => ZERO *)
Definition std_of_pb (p : pb_duration) : res duration :=
  bind (normalize p) (fun q =>
    if ((pd_seconds q <? 0) || (pd_nanos q <? 0))%Z then Ok (mkDur 0 0)
    else duration_new (Z.to_N (pd_seconds q)) (Z.to_N (pd_nanos q))).

Definition enc_duration (p : pb_duration) : list field :=
  enc_int tag_Duration_seconds (pd_seconds p) ++ enc_int tag_Duration_nanos (pd_nanos p).
Definition merge_duration (p : pb_duration) (f : field) : res pb_duration :=
  let (t, v) := f in
  if t =? tag_Duration_seconds then bind (as_varint v) (fun n => Ok (mkPbDur (to_i64 n) (pd_nanos p)))
  else if t =? tag_Duration_nanos then bind (as_varint v) (fun n => Ok (mkPbDur (pd_seconds p) (to_i32 n)))
  else Ok p.

(* ---- RetryInfo ---- *)
Definition enc_retry_info (x : retry_info) : res (list field) :=
  match ri_retry_delay x with
  | Some d => bind (pb_retry_delay d) (fun p => Ok [enc_msg tag_RetryInfo_retry_delay (enc_duration p)])
  | None => Ok []
  end.
(* optional message field: `self.retry_delay.get_or_insert_with(Default::default)` then merge *)
Definition merge_pb_retry_info (st : option pb_duration) (f : field) : res (option pb_duration) :=
  let (t, v) := f in
  if t =? tag_RetryInfo_retry_delay then
    bind (as_message RECURSION_LIMIT v) (fun fs =>
    bind (fold_res merge_duration fs (match st with Some p => p | None => mkPbDur 0 0 end)) (fun p =>
    Ok (Some p)))
  else Ok st.
Definition dec_retry_info (fs : list field) : res retry_info :=
  bind (fold_res merge_pb_retry_info fs None) (fun o =>
    match o with
    | Some p => bind (std_of_pb p) (fun d => Ok (mkRetryInfo (Some d)))
    | None => Ok (mkRetryInfo None)
    end).

(* ---- DebugInfo ---- *)
Definition enc_debug_info (x : debug_info) : list field :=
  enc_rep_str tag_DebugInfo_stack_entries (di_stack_entries x) ++ enc_str tag_DebugInfo_detail (di_detail x).
Definition merge_debug_info (st : debug_info) (f : field) : res debug_info :=
  let (t, v) := f in
  if t =? tag_DebugInfo_stack_entries then
    bind (as_string v) (fun s => Ok (mkDebugInfo (di_stack_entries st ++ [s]) (di_detail st)))
  else if t =? tag_DebugInfo_detail then
    bind (as_string v) (fun s => Ok (mkDebugInfo (di_stack_entries st) s))
  else Ok st.
Definition dec_debug_info (fs : list field) : res debug_info :=
  fold_res merge_debug_info fs (mkDebugInfo [] []).

(* ---- messages that are a repeated list of string tuples ---- *)
Definition s0 (l : list str) : str := nth 0 l [].
Definition s1 (l : list str) : str := nth 1 l [].
Definition s2 (l : list str) : str := nth 2 l [].
Definition s3 (l : list str) : str := nth 3 l [].

Definition QV_TAGS : list N := [tag_quota_failure_Violation_subject; tag_quota_failure_Violation_description].
Definition qv_strs (v : quota_violation) : list str := [qv_subject v; qv_description v].
Definition qv_of (l : list str) : quota_violation := mkQuotaViolation (s0 l) (s1 l).
Definition enc_quota_failure (x : quota_failure) : list field :=
  enc_rep_strs tag_QuotaFailure_violations QV_TAGS (map qv_strs (qf_violations x)).
Definition dec_quota_failure (fs : list field) : res quota_failure :=
  bind (dec_rep_strs tag_QuotaFailure_violations QV_TAGS fs) (fun l => Ok (mkQuotaFailure (map qv_of l))).

Definition PV_TAGS : list N :=
  [tag_precondition_failure_Violation_type; tag_precondition_failure_Violation_subject;
   tag_precondition_failure_Violation_description].
Definition pv_strs (v : precondition_violation) : list str := [pv_type v; pv_subject v; pv_description v].
Definition pv_of (l : list str) : precondition_violation := mkPreconditionViolation (s0 l) (s1 l) (s2 l).
Definition enc_precondition_failure (x : precondition_failure) : list field :=
  enc_rep_strs tag_PreconditionFailure_violations PV_TAGS (map pv_strs (pf_violations x)).
Definition dec_precondition_failure (fs : list field) : res precondition_failure :=
  bind (dec_rep_strs tag_PreconditionFailure_violations PV_TAGS fs) (fun l => Ok (mkPreconditionFailure (map pv_of l))).

Definition FV_TAGS : list N := [tag_bad_request_FieldViolation_field; tag_bad_request_FieldViolation_description].
Definition fv_strs (v : field_violation) : list str := [fv_field v; fv_description v].
Definition fv_of (l : list str) : field_violation := mkFieldViolation (s0 l) (s1 l).
Definition enc_bad_request (x : bad_request) : list field :=
  enc_rep_strs tag_BadRequest_field_violations FV_TAGS (map fv_strs (br_field_violations x)).
Definition dec_bad_request (fs : list field) : res bad_request :=
  bind (dec_rep_strs tag_BadRequest_field_violations FV_TAGS fs) (fun l => Ok (mkBadRequest (map fv_of l))).

Definition HL_TAGS : list N := [tag_help_Link_description; tag_help_Link_url].
Definition hl_strs (v : help_link) : list str := [hl_description v; hl_url v].
Definition hl_of (l : list str) : help_link := mkHelpLink (s0 l) (s1 l).
Definition enc_help (x : help) : list field :=
  enc_rep_strs tag_Help_links HL_TAGS (map hl_strs (h_links x)).
Definition dec_help (fs : list field) : res help :=
  bind (dec_rep_strs tag_Help_links HL_TAGS fs) (fun l => Ok (mkHelp (map hl_of l))).

(* ---- messages that are one string tuple ---- *)
Definition RQ_TAGS : list N := [tag_RequestInfo_request_id; tag_RequestInfo_serving_data].
Definition enc_request_info (x : request_info) : list field :=
  enc_strs RQ_TAGS [rq_request_id x; rq_serving_data x].
Definition dec_request_info (fs : list field) : res request_info :=
  bind (dec_strs RQ_TAGS fs) (fun l => Ok (mkRequestInfo (s0 l) (s1 l))).

Definition RS_TAGS : list N :=
  [tag_ResourceInfo_resource_type; tag_ResourceInfo_resource_name; tag_ResourceInfo_owner;
   tag_ResourceInfo_description].
Definition enc_resource_info (x : resource_info) : list field :=
  enc_strs RS_TAGS [rs_resource_type x; rs_resource_name x; rs_owner x; rs_description x].
Definition dec_resource_info (fs : list field) : res resource_info :=
  bind (dec_strs RS_TAGS fs) (fun l => Ok (mkResourceInfo (s0 l) (s1 l) (s2 l) (s3 l))).

Definition LM_TAGS : list N := [tag_LocalizedMessage_locale; tag_LocalizedMessage_message].
Definition enc_localized_message (x : localized_message) : list field :=
  enc_strs LM_TAGS [lm_locale x; lm_message x].
Definition dec_localized_message (fs : list field) : res localized_message :=
  bind (dec_strs LM_TAGS fs) (fun l => Ok (mkLocalizedMessage (s0 l) (s1 l))).

(* ---- ErrorInfo: two strings and a map<string,string> ---- *)
(* a map entry is the message { key = 1; value = 2 } (prost encoding.rs, `map!`) *)
Definition ENTRY_TAGS : list N := [1; 2].
(* HashMap::insert *)
Fixpoint map_insert (m : list (str * str)) (k v : str) : list (str * str) :=
  match m with
  | [] => [(k, v)]
  | (k', v') :: r => if bytes_eqb k' k then (k, v) :: r else (k', v') :: map_insert r k v
  end.
Definition enc_error_info (x : error_info) : list field :=
  enc_str tag_ErrorInfo_reason (ei_reason x) ++ enc_str tag_ErrorInfo_domain (ei_domain x) ++
  map (fun kv => enc_msg tag_ErrorInfo_metadata (enc_strs ENTRY_TAGS [fst kv; snd kv])) (ei_metadata x).
Definition merge_error_info (st : error_info) (f : field) : res error_info :=
  let (t, v) := f in
  if t =? tag_ErrorInfo_reason then
    bind (as_string v) (fun s => Ok (mkErrorInfo s (ei_domain st) (ei_metadata st)))
  else if t =? tag_ErrorInfo_domain then
    bind (as_string v) (fun s => Ok (mkErrorInfo (ei_reason st) s (ei_metadata st)))
  else if t =? tag_ErrorInfo_metadata then
    bind (as_message RECURSION_LIMIT v) (fun fs =>
    bind (dec_strs ENTRY_TAGS fs) (fun kv =>
    Ok (mkErrorInfo (ei_reason st) (ei_domain st) (map_insert (ei_metadata st) (s0 kv) (s1 kv)))))
  else Ok st.
Definition dec_error_info (fs : list field) : res error_info :=
  fold_res merge_error_info fs (mkErrorInfo [] [] []).

(* ---- the payload of an Any, by kind ---- *)
Definition enc_detail_fields (d : error_detail) : res (list field) :=
  match d with
  | DRetryInfo x => enc_retry_info x
  | DDebugInfo x => Ok (enc_debug_info x)
  | DQuotaFailure x => Ok (enc_quota_failure x)
  | DErrorInfo x => Ok (enc_error_info x)
  | DPreconditionFailure x => Ok (enc_precondition_failure x)
  | DBadRequest x => Ok (enc_bad_request x)
  | DRequestInfo x => Ok (enc_request_info x)
  | DResourceInfo x => Ok (enc_resource_info x)
  | DHelp x => Ok (enc_help x)
  | DLocalizedMessage x => Ok (enc_localized_message x)
  end.
Definition enc_detail_c (d : error_detail) : res (list N) :=
  bind (enc_detail_fields d) (fun fs => Ok (ser fs)).

Definition lenient_of (k : kind) : list N :=
  match k with KErrorInfo => [tag_ErrorInfo_metadata] | _ => [] end.
Definition dec_detail_fields (k : kind) (fs : list field) : res error_detail :=
  match k with
  | KRetryInfo => bind (dec_retry_info fs) (fun x => Ok (DRetryInfo x))
  | KDebugInfo => bind (dec_debug_info fs) (fun x => Ok (DDebugInfo x))
  | KQuotaFailure => bind (dec_quota_failure fs) (fun x => Ok (DQuotaFailure x))
  | KErrorInfo => bind (dec_error_info fs) (fun x => Ok (DErrorInfo x))
  | KPreconditionFailure => bind (dec_precondition_failure fs) (fun x => Ok (DPreconditionFailure x))
  | KBadRequest => bind (dec_bad_request fs) (fun x => Ok (DBadRequest x))
  | KRequestInfo => bind (dec_request_info fs) (fun x => Ok (DRequestInfo x))
  | KResourceInfo => bind (dec_resource_info fs) (fun x => Ok (DResourceInfo x))
  | KHelp => bind (dec_help fs) (fun x => Ok (DHelp x))
  | KLocalizedMessage => bind (dec_localized_message fs) (fun x => Ok (DLocalizedMessage x))
  end.
Definition dec_detail_c (k : kind) (b : list N) : res error_detail :=
  bind (parse RECURSION_LIMIT (lenient_of k) b) (dec_detail_fields k).

(* ---- google.rpc.Status and Any ---- *)
Definition enc_any (a : any) : list field :=
  enc_str tag_Any_type_url (fst a) ++ enc_str tag_Any_value (snd a).
Definition merge_any (a : any) (f : field) : res any :=
  let (t, v) := f in
  if t =? tag_Any_type_url then bind (as_string v) (fun s => Ok (s, snd a))
  else if t =? tag_Any_value then bind (as_bytes v) (fun b => Ok (fst a, b))
  else Ok a.
Definition enc_status_fields (ps : pb_status) : list field :=
  enc_int tag_Status_code (ps_code ps) ++ enc_str tag_Status_message (ps_message ps) ++
  map (fun a => enc_msg tag_Status_details (enc_any a)) (ps_details ps).
Definition enc_status_c (ps : pb_status) : list N := ser (enc_status_fields ps).
Definition merge_status (ps : pb_status) (f : field) : res pb_status :=
  let (t, v) := f in
  if t =? tag_Status_code then
    bind (as_varint v) (fun n => Ok (mkPbStatus (to_i32 n) (ps_message ps) (ps_details ps)))
  else if t =? tag_Status_message then
    bind (as_string v) (fun s => Ok (mkPbStatus (ps_code ps) s (ps_details ps)))
  else if t =? tag_Status_details then
    bind (as_message RECURSION_LIMIT v) (fun fs =>
    bind (fold_res merge_any fs ([], [])) (fun a =>
    Ok (mkPbStatus (ps_code ps) (ps_message ps) (ps_details ps ++ [a]))))
  else Ok ps.
Definition dec_status_c (b : list N) : res pb_status :=
  bind (parse RECURSION_LIMIT [] b) (fun fs => fold_res merge_status fs (mkPbStatus 0 [] [])).

(* ---- layer A instantiated ---- *)
Definition into_any_c := into_any enc_detail_c.
Definition with_error_details_c := with_error_details_and_metadata enc_detail_c enc_status_c.
Definition with_error_details_vec_c := with_error_details_vec_and_metadata enc_detail_c enc_status_c.
Definition check_error_details_c := check_error_details dec_detail_c dec_status_c.
Definition get_error_details_c := get_error_details dec_detail_c dec_status_c.
Definition check_error_details_vec_c := check_error_details_vec dec_detail_c dec_status_c.
Definition get_error_details_vec_c := get_error_details_vec dec_detail_c dec_status_c.
Definition get_details_c := get_details dec_detail_c dec_status_c.

(* ============================================================================================ *)
(* observables.  Coq spends its time elaborating the literals of a case, not evaluating the
   model, so the observable is made compact - losslessly, by the same rules on both sides:
   long byte strings are shown by length and digests ([obs_bytes]), long inputs are written
   15 bytes to a (hexadecimal) number ([unpack]), and a sub-result equal to one already
   shown is replaced by a reference to it. *)
Definition obs_res {A} (f : A -> tr) (r : res A) : tr :=
  match r with
  | Ok a => Nd [Nn 0; f a]
  | Err => Nd [Nn 1]
  | Panic => Nd [Nn 99]
  | Fuel => Nd [Nn 98]
  end.

(* byte strings of more than 96 bytes are shown as their length and two polynomial digests
   modulo 2^61 (multipliers 263 and 1009); shorter ones as they are *)
Definition DIGEST_MASK : N := 2305843009213693951.
Definition digest (a : N) (l : list N) : N := fold_left (fun h b => N.land (h * a + b + 1) DIGEST_MASK) l 0.
Definition obs_bytes (b : list N) : tr :=
  if nlen b <=? 96 then Bs b
  else Nd [Nn 76; Nn (nlen b); Nn (digest 263 b); Nn (digest 1009 b)].
(* long inputs: [unpack len chunks], 15 bytes (big endian) to a chunk *)
Fixpoint be_bytes (n : nat) (v : N) (acc : list N) : list N :=
  match n with O => acc | S k => be_bytes k (v / 256) ((v mod 256) :: acc) end.
Fixpoint unpack_nat (rem : nat) (cs : list N) : list N :=
  match cs with
  | [] => []
  | c :: r => let k := Nat.min 15 rem in be_bytes k c [] ++ unpack_nat (rem - k) r
  end.
Definition unpack (len : N) (cs : list N) : list N := unpack_nat (N.to_nat len) cs.

(* a HashMap is observed as its pairs sorted by key *)
Fixpoint insert_pair (p : str * str) (l : list (str * str)) : list (str * str) :=
  match l with
  | [] => [p]
  | q :: r => if bytes_ltb (fst q) (fst p) then q :: insert_pair p r else p :: l
  end.
Definition sort_pairs (l : list (str * str)) : list (str * str) := fold_right insert_pair [] l.

Definition obs_dur (d : duration) : tr := Nd [Nn (d_secs d); Nn (d_nanos d)].
Definition obs_detail (d : error_detail) : tr :=
  let B := obs_bytes in
  match d with
  | DRetryInfo x => tag 0 [oopt obs_dur (ri_retry_delay x)]
  | DDebugInfo x => tag 1 [olist B (di_stack_entries x); B (di_detail x)]
  | DQuotaFailure x => tag 2 [olist (fun v => Nd [B (qv_subject v); B (qv_description v)]) (qf_violations x)]
  | DErrorInfo x =>
      tag 3 [B (ei_reason x); B (ei_domain x);
             olist (fun kv => Nd [B (fst kv); B (snd kv)]) (sort_pairs (ei_metadata x))]
  | DPreconditionFailure x =>
      tag 4 [olist (fun v => Nd [B (pv_type v); B (pv_subject v); B (pv_description v)]) (pf_violations x)]
  | DBadRequest x => tag 5 [olist (fun v => Nd [B (fv_field v); B (fv_description v)]) (br_field_violations x)]
  | DRequestInfo x => tag 6 [B (rq_request_id x); B (rq_serving_data x)]
  | DResourceInfo x =>
      tag 7 [B (rs_resource_type x); B (rs_resource_name x); B (rs_owner x); B (rs_description x)]
  | DHelp x => tag 8 [olist (fun v => Nd [B (hl_description v); B (hl_url v)]) (h_links x)]
  | DLocalizedMessage x => tag 9 [B (lm_locale x); B (lm_message x)]
  end.

(* references: [Nd [Nn 78; Nn i]] = "equal to item i of the list shown by check_error_details_vec",
   [Nd [Nn 79]] = "equal to the result shown just before" *)
Fixpoint index_first (t : tr) (l : list tr) (i : N) : option N :=
  match l with [] => None | x :: r => if tr_eqb x t then Some i else index_first t r (i + 1) end.
Fixpoint index_last (t : tr) (l : list tr) (i : N) (acc : option N) : option N :=
  match l with [] => acc | x :: r => index_last t r (i + 1) (if tr_eqb x t then Some i else acc) end.
Definition ref_first (items : list tr) (t : tr) : tr :=
  match index_first t items 0 with Some i => Nd [Nn 78; Nn i] | None => t end.
Definition ref_last (items : list tr) (t : tr) : tr :=
  match index_last t items 0 None with Some i => Nd [Nn 78; Nn i] | None => t end.
Definition same_or (prev t : tr) : tr := if tr_eqb prev t then Nd [Nn 79] else t.

Definition obs_ed (items : list tr) (ed : error_details) : tr :=
  let R := ref_last items in
  Nd [oopt (fun x => R (obs_detail (DRetryInfo x))) (ed_retry_info ed);
      oopt (fun x => R (obs_detail (DDebugInfo x))) (ed_debug_info ed);
      oopt (fun x => R (obs_detail (DQuotaFailure x))) (ed_quota_failure ed);
      oopt (fun x => R (obs_detail (DErrorInfo x))) (ed_error_info ed);
      oopt (fun x => R (obs_detail (DPreconditionFailure x))) (ed_precondition_failure ed);
      oopt (fun x => R (obs_detail (DBadRequest x))) (ed_bad_request ed);
      oopt (fun x => R (obs_detail (DRequestInfo x))) (ed_request_info ed);
      oopt (fun x => R (obs_detail (DResourceInfo x))) (ed_resource_info ed);
      oopt (fun x => R (obs_detail (DHelp x))) (ed_help ed);
      oopt (fun x => R (obs_detail (DLocalizedMessage x))) (ed_localized_message ed)].

(* the embedded google.rpc.Status: code (as u32), message, number of details *)
Definition obs_embedded (ps : pb_status) : tr :=
  Nd [Nn (Z.to_N (ps_code ps mod Z.of_N U32)); obs_bytes (ps_message ps); Nn (nlen (ps_details ps))].

(* everything the decode side of StatusExt says about a status: check_error_details_vec,
   get_error_details_vec, check_error_details, get_error_details, the ten get_details_*, and
   the embedded status.  (The six functions all start with the same pb::Status::decode, which
   is evaluated once here; Proofs/RichError.v, [obs_decode_spec], restates this observable
   with the functions themselves.) *)
Definition obs_decode (st : status) : tr :=
  let r := dec_status_c (st_details st) in
  let cv := bind r (rpc_check_error_details_vec dec_detail_c) in
  let cs := bind r (rpc_check_error_details dec_detail_c) in
  let items := match cv with Ok l => map obs_detail l | _ => [] end in
  let cv_t := obs_res (fun _ => Nd items) cv in
  let cs_t := obs_res (obs_ed items) cs in
  Nd [cv_t;
      same_or cv_t (obs_res (olist obs_detail) (unwrap_or [] cv));
      cs_t;
      same_or cs_t (obs_res (obs_ed items) (unwrap_or ed_empty cs));
      Nd (map (fun k => obs_res (oopt (fun d => ref_first items (obs_detail d)))
                          (match r with
                           | Ok ps => rpc_get_details dec_detail_c k (ps_details ps)
                           | Err => Ok None | Panic => Panic | Fuel => Fuel
                           end)) all_kinds);
      obs_res obs_embedded r].

(* a status is written to a header map, read back, and its details are decoded; the metadata that
   arrives with it (the user metadata given to with_error_details*_and_metadata, minus the reserved
   names) is part of the observable *)
Definition obs_via_headers (r : res status) : tr :=
  match r with
  | Ok st =>
      match to_header_map st with
      | None => Nd [Nn 1]
      | Some m =>
          match from_header_map m with
          | None => Nd [Nn 2]
          | Some st' =>
              let raw := obs_bytes (st_details st) in
              Nd [Nn 0; raw; Nn (st_code st'); obs_bytes (st_msg st');
                  same_or raw (obs_bytes (st_details st')); hm_canon (st_md st'); obs_decode st']
          end
      end
  | Err => Nd [Nn 3]
  | Panic => Nd [Nn 99]
  | Fuel => Nd [Nn 98]
  end.

Definition obs_set (code : N) (message : str) (ed : error_details) (md : hm) : tr :=
  obs_via_headers (with_error_details_c code message ed md).
Definition obs_vec (code : N) (message : str) (ds : list error_detail) (md : hm) : tr :=
  obs_via_headers (with_error_details_vec_c code message ds md).
(* arbitrary bytes as details *)
Definition obs_hostile (code : N) (message : str) (details : list N) : tr :=
  obs_via_headers (Ok (mkStatus code message details [])).
Definition obs_hostile_direct (details : list N) : tr := obs_decode (mkStatus 2 [] details []).
